// Reference model: Argon2d (version 0x13) memory fill, one lane, written from the Argon2 specification
// (sections 3.2-3.6). The finaliser is available separately so that the model can be self-tested
// against the published Argon2d test vector; RandomX omits it.
#pragma once
#include <cstdint>
#include <cstring>
#include <vector>
#include "blake2b.hpp"

namespace mdl {

struct Argon2d {
	static void le32(std::vector<uint8_t>& v, uint32_t x) { for (int i = 0; i < 4; ++i) v.push_back((uint8_t)(x >> (8 * i))); }

	// variable-length hash H' (spec 3.3)
	static void hprime(uint8_t* out, uint32_t T, const uint8_t* in, size_t inlen) {
		std::vector<uint8_t> x; le32(x, T); x.insert(x.end(), in, in + inlen);
		if (T <= 64) { b2b(out, T, x.data(), x.size()); return; }
		uint32_t r = (T + 31) / 32 - 2;
		uint8_t V[64];
		b2b(V, 64, x.data(), x.size());
		memcpy(out, V, 32);
		for (uint32_t i = 2; i <= r; ++i) { uint8_t W[64]; b2b(W, 64, V, 64); memcpy(V, W, 64); memcpy(out + 32 * (i - 1), V, 32); }
		b2b(out + 32 * r, T - 32 * r, V, 64);
	}

	static uint64_t rotr(uint64_t x, int n) { return (x >> n) | (x << (64 - n)); }
	static void GB(uint64_t& a, uint64_t& b, uint64_t& c, uint64_t& d) {
		auto mul = [](uint64_t x, uint64_t y) { return 2 * (x & 0xffffffffULL) * (y & 0xffffffffULL); };
		a = a + b + mul(a, b); d = rotr(d ^ a, 32);
		c = c + d + mul(c, d); b = rotr(b ^ c, 24);
		a = a + b + mul(a, b); d = rotr(d ^ a, 16);
		c = c + d + mul(c, d); b = rotr(b ^ c, 63);
	}
	static void P(uint64_t** v) {
		GB(*v[0], *v[4], *v[8], *v[12]); GB(*v[1], *v[5], *v[9], *v[13]); GB(*v[2], *v[6], *v[10], *v[14]); GB(*v[3], *v[7], *v[11], *v[15]);
		GB(*v[0], *v[5], *v[10], *v[15]); GB(*v[1], *v[6], *v[11], *v[12]); GB(*v[2], *v[7], *v[8], *v[13]); GB(*v[3], *v[4], *v[9], *v[14]);
	}
	// compression function G (spec 3.4) on 128-word blocks; out = G(X, Y) [xor old out if withXor]
	static void G(const uint64_t* X, const uint64_t* Y, uint64_t* out, bool withXor) {
		uint64_t R[128], Z[128];
		for (int i = 0; i < 128; ++i) Z[i] = R[i] = X[i] ^ Y[i];
		uint64_t* v[16];
		for (int row = 0; row < 8; ++row) { for (int k = 0; k < 16; ++k) v[k] = &Z[16 * row + k]; P(v); }
		for (int col = 0; col < 8; ++col) { for (int k = 0; k < 8; ++k) { v[2 * k] = &Z[2 * col + 16 * k]; v[2 * k + 1] = &Z[2 * col + 16 * k + 1]; } P(v); }
		for (int i = 0; i < 128; ++i) { uint64_t r = Z[i] ^ R[i]; out[i] = withXor ? (out[i] ^ r) : r; }
	}

	// Fills `mem` (m blocks of 128 words; m must be a multiple of 4, lanes = 1) per Argon2d v0x13.
	static void fill(uint64_t* mem, uint32_t m, uint32_t passes, const void* pwd, uint32_t pwdlen, const void* salt, uint32_t saltlen,
		uint32_t outlen = 0, uint32_t lanes = 1) {
		std::vector<uint8_t> h0in;
		le32(h0in, lanes); le32(h0in, outlen); le32(h0in, m); le32(h0in, passes); le32(h0in, 0x13); le32(h0in, 0 /* Argon2d */);
		le32(h0in, pwdlen); h0in.insert(h0in.end(), (const uint8_t*)pwd, (const uint8_t*)pwd + pwdlen);
		le32(h0in, saltlen); h0in.insert(h0in.end(), (const uint8_t*)salt, (const uint8_t*)salt + saltlen);
		le32(h0in, 0); le32(h0in, 0); // secret, associated data
		uint8_t seed[72];
		b2b(seed, 64, h0in.data(), h0in.size());
		const uint32_t laneLen = m, segLen = m / 4;
		for (uint32_t i = 0; i < 2; ++i) {
			seed[64] = (uint8_t)i; seed[65] = seed[66] = seed[67] = 0; // block index
			seed[68] = seed[69] = seed[70] = seed[71] = 0;              // lane 0
			uint8_t blk[1024]; hprime(blk, 1024, seed, 72);
			for (int w = 0; w < 128; ++w) { uint64_t x = 0; for (int b = 7; b >= 0; --b) x = (x << 8) | blk[8 * w + b]; mem[128 * i + w] = x; }
		}
		for (uint32_t pass = 0; pass < passes; ++pass) for (uint32_t slice = 0; slice < 4; ++slice) {
			uint32_t start = (pass == 0 && slice == 0) ? 2 : 0;
			for (uint32_t idx = start; idx < segLen; ++idx) {
				uint32_t j = slice * segLen + idx;
				uint32_t prev = j == 0 ? laneLen - 1 : j - 1;
				uint64_t J = mem[128 * (uint64_t)prev];
				uint32_t J1 = (uint32_t)J; // J2 selects the lane: always 0 here
				uint32_t refArea = pass == 0 ? (slice * segLen + idx - 1) : (laneLen - segLen + idx - 1);
				uint64_t x = ((uint64_t)J1 * J1) >> 32;
				uint64_t y = ((uint64_t)refArea * x) >> 32;
				uint64_t z = refArea - 1 - y;
				uint32_t startPos = (pass == 0) ? 0 : (((slice + 1) * segLen) % laneLen);
				uint32_t ref = (uint32_t)((startPos + z) % laneLen);
				G(&mem[128 * (uint64_t)prev], &mem[128 * (uint64_t)ref], &mem[128 * (uint64_t)j], pass != 0);
			}
		}
	}

	// Argon2 finaliser (spec 3.2 step 6-7) — used only by the self-test, RandomX omits it.
	static void finalize(const uint64_t* mem, uint32_t m, uint8_t* out, uint32_t outlen) {
		uint8_t blk[1024];
		const uint64_t* last = mem + 128 * (uint64_t)(m - 1);
		for (int w = 0; w < 128; ++w) for (int b = 0; b < 8; ++b) blk[8 * w + b] = (uint8_t)(last[w] >> (8 * b));
		hprime(out, outlen, blk, 1024);
	}
};

} // namespace mdl
