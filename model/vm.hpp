// Reference model: the RandomX virtual machine (specs.md chapters 4 and 5, v1 and v2) and the hash
// driver (chapter 2). Floating point uses model/softfloat.hpp, so nothing here depends on the host FP
// environment.
//
// Assumptions taken from outside specs.md (listed in every evidence file that uses this model):
//  * opcode ranges are assigned in the order IADD_RS ... ISWAP_R, FSWAP_R ... FSQRT_R, CBRANCH, CFROUND, ISTORE
//    (the order of the reference implementation's frequency table; specs.md lists frequencies only);
//  * RandomX v2: program size 384 (design_v2.md), generator output per program 128 + 8 * 384 bytes;
//  * with FTZ set, results that are tiny after rounding are +-0.
#pragma once
#include <cstdint>
#include <cstring>
#include <vector>
#include <functional>
#include "softfloat.hpp"
#include "aes.hpp"
#include "blake2b.hpp"
#include "superscalar.hpp"
#include "argon2d.hpp"

namespace mdl {

enum Op { IADD_RS, IADD_M, ISUB_R, ISUB_M, IMUL_R, IMUL_M, IMULH_R, IMULH_M, ISMULH_R, ISMULH_M, IMUL_RCP, INEG_R, IXOR_R, IXOR_M, IROR_R, IROL_R, ISWAP_R,
	FSWAP_R, FADD_R, FADD_M, FSUB_R, FSUB_M, FSCAL_R, FMUL_R, FDIV_M, FSQRT_R, CBRANCH, CFROUND, ISTORE, OP_COUNT };
static const int opFreq[OP_COUNT] = { 16, 7, 16, 7, 16, 4, 4, 1, 4, 1, 8, 2, 15, 5, 8, 2, 4, 4, 16, 5, 16, 5, 6, 32, 4, 6, 25, 1, 16 };
static const char* const opNames[OP_COUNT] = { "IADD_RS", "IADD_M", "ISUB_R", "ISUB_M", "IMUL_R", "IMUL_M", "IMULH_R", "IMULH_M", "ISMULH_R", "ISMULH_M", "IMUL_RCP", "INEG_R",
	"IXOR_R", "IXOR_M", "IROR_R", "IROL_R", "ISWAP_R", "FSWAP_R", "FADD_R", "FADD_M", "FSUB_R", "FSUB_M", "FSCAL_R", "FMUL_R", "FDIV_M", "FSQRT_R", "CBRANCH", "CFROUND", "ISTORE" };

struct OpTable {
	uint8_t op[256]; int first[OP_COUNT];
	OpTable() { int c = 0; for (int i = 0; i < OP_COUNT; ++i) { first[i] = c; for (int k = 0; k < opFreq[i]; ++k) op[c++] = (uint8_t)i; } }
};
inline const OpTable& opTable() { static const OpTable t; return t; }

static const uint32_t L1 = 16384, L2 = 262144, L3 = 2097152;
static const uint32_t MASK_L1 = (L1 - 1) & ~7u, MASK_L2 = (L2 - 1) & ~7u, MASK_L3 = (L3 - 1) & ~7u, MASK_L3_64 = (L3 - 1) & ~63u;
static const uint64_t DATASET_BASE = 2147483648ULL, DATASET_EXTRA = 33554368ULL;
static const int ITERATIONS = 2048, PROGRAM_COUNT = 8;
inline int programSize(bool v2) { return v2 ? 384 : 256; }

inline uint64_t rd64(const uint8_t* p) { uint64_t v = 0; for (int i = 7; i >= 0; --i) v = (v << 8) | p[i]; return v; }
inline uint32_t rd32(const uint8_t* p) { return p[0] | (p[1] << 8) | (p[2] << 16) | ((uint32_t)p[3] << 24); }
inline void wr64(uint8_t* p, uint64_t v) { for (int i = 0; i < 8; ++i) p[i] = (uint8_t)(v >> (8 * i)); }

struct Decoded {
	int op;            // Op
	int dst, src;      // register indices after applying the group rule
	bool srcIsDst;     // dst and src encode the same integer register
	uint32_t imm32; int mod;
	int target;        // CBRANCH: pc to continue at when the jump is taken
	bool nop;          // IMUL_RCP with zero/power-of-two divisor, ISWAP_R with src == dst
	int form;          // coarse operand-form class for coverage tables
};

struct Config {
	uint64_t a[4][2];
	uint32_t ma, mx;
	int readReg[4];
	uint64_t datasetOffset;
	uint64_t eMaskFrac[2], eMaskExp[2]; // fraction mask (22 bits), exponent mask (4 bits) for low / high half
};

inline Config parseConfig(const uint8_t* prog) {
	Config c;
	for (int i = 0; i < 8; ++i) {
		uint64_t q = rd64(prog + 8 * i);
		uint64_t frac = q & ((1ULL << 52) - 1), ex = q >> 59;
		c.a[i / 2][i % 2] = ((ex + 1023) << 52) | frac;
	}
	c.ma = (uint32_t)rd64(prog + 64);
	c.mx = (uint32_t)rd64(prog + 80);
	uint64_t q12 = rd64(prog + 96);
	for (int i = 0; i < 4; ++i) c.readReg[i] = 2 * i + (int)((q12 >> i) & 1);
	c.datasetOffset = (rd64(prog + 104) % (DATASET_EXTRA / 64 + 1)) * 64;
	for (int i = 0; i < 2; ++i) { uint64_t q = rd64(prog + 112 + 8 * i); c.eMaskFrac[i] = q & ((1ULL << 22) - 1); c.eMaskExp[i] = q >> 60; }
	return c;
}

// operand-form classes (coverage evidence)
enum Form { FORM_PLAIN = 0, FORM_SRC_EQ_DST = 1, FORM_L1 = 2, FORM_L2 = 3, FORM_L3 = 4 };

// decodes the 8-byte instruction word `w` at position i; lastMod is the last-writer table (4.x "modified" rules of 5.4.2)
inline Decoded decodeOne(const uint8_t* w, int i, int* lastMod) {
	const OpTable& T = opTable();
	Decoded d; d.op = T.op[w[0]]; d.imm32 = rd32(w + 4); d.mod = w[3]; d.target = -1; d.nop = false; d.form = FORM_PLAIN;
	const int dstR = w[1] & 7, srcR = w[2] & 7;
	d.dst = dstR; d.src = srcR; d.srcIsDst = dstR == srcR;
	switch (d.op) {
	case IADD_RS: case ISUB_R: case IMUL_R: case IMULH_R: case ISMULH_R: case IXOR_R: case IROR_R: case IROL_R: case INEG_R:
		lastMod[dstR] = i; if (d.srcIsDst) d.form = FORM_SRC_EQ_DST; break;
	case IADD_M: case ISUB_M: case IMUL_M: case IMULH_M: case ISMULH_M: case IXOR_M:
		lastMod[dstR] = i; d.form = d.srcIsDst ? FORM_L3 : ((d.mod & 3) ? FORM_L1 : FORM_L2); break;
	case IMUL_RCP: if (zeroOrPow2(d.imm32)) d.nop = true; else lastMod[dstR] = i; break;
	case ISWAP_R: if (d.srcIsDst) { d.nop = true; d.form = FORM_SRC_EQ_DST; } else { lastMod[dstR] = i; lastMod[srcR] = i; } break;
	case FSWAP_R: break; // dst in F+E (0..7)
	case FADD_R: case FSUB_R: case FMUL_R: d.dst = dstR & 3; d.src = srcR & 3; break;
	case FADD_M: case FSUB_M: case FDIV_M: d.dst = dstR & 3; d.form = (d.mod & 3) ? FORM_L1 : FORM_L2; break;
	case FSCAL_R: case FSQRT_R: d.dst = dstR & 3; break;
	case CBRANCH: d.target = lastMod[dstR] + 1; for (int k = 0; k < 8; ++k) lastMod[k] = i; break;
	case CFROUND: break;
	case ISTORE: d.form = ((d.mod >> 4) >= 14) ? FORM_L3 : ((d.mod & 3) ? FORM_L1 : FORM_L2); break;
	}
	return d;
}

inline void decodeProgram(const uint8_t* prog, bool v2, std::vector<Decoded>& out) {
	const int n = programSize(v2);
	out.resize(n);
	int lastMod[8]; for (int& x : lastMod) x = -1;
	for (int i = 0; i < n; ++i) out[i] = decodeOne(prog + 128 + 8 * i, i, lastMod);
}

struct Vm {
	// architectural state
	uint64_t r[8];
	uint64_t f[4][2], e[4][2], a[4][2];
	uint32_t ma, mx;
	int fprc = 0;
	Config cfg;
	bool v2 = false;
	std::vector<Decoded> code;
	uint8_t* sp = nullptr;                 // 2 MiB scratchpad (owned by the caller)
	uint32_t spAddr0 = 0, spAddr1 = 0;
	// dataset read: fills 64 bytes for byte address `addr` (multiple of 64, < base + extra)
	std::function<void(uint64_t addr, uint8_t* out64)> readDataset;
	// monitors / evidence
	int fpFlags = 0;                       // accumulated softfloat flags
	uint64_t executed = 0;                 // instructions executed in the current iteration
	uint64_t takenBranches = 0, roundingChanges = 0;
	uint32_t lastStoreAddr = 0xffffffff;   // address written by the last ISTORE (for lock-step comparison)

	void program(const uint8_t* prog, bool isV2) {
		v2 = isV2;
		cfg = parseConfig(prog);
		memcpy(a, cfg.a, sizeof a);
		ma = cfg.ma; mx = cfg.mx;
		decodeProgram(prog, v2, code);
	}
	void beginRun() {
		spAddr0 = mx; spAddr1 = ma;
		for (auto& x : r) x = 0;
	}
	// 4.3.2. The specification numbers the exponent bits from the most significant one: "bits 0-2" are the top
	// three bits (011), "bits 3-6" the next four (exponent mask); the low four exponent bits and the upper 30
	// fraction bits come from the converted integer.
	uint64_t toE(uint64_t x, int half) const {
		uint64_t ex = (x >> 52) & 0x7ff, frac = x & sf::MANT;        // 1. sign = 0 (dropped)
		ex = 0x300 | (cfg.eMaskExp[half] << 4) | (ex & 15);         // 2.-3.
		frac = (frac & ~((1ULL << 22) - 1)) | cfg.eMaskFrac[half];  // 4. bottom 22 fraction bits = fraction mask
		return (ex << 52) | frac;
	}
	void iterationBegin() {
		const uint64_t mix = r[cfg.readReg[0]] ^ r[cfg.readReg[1]];
		spAddr0 ^= (uint32_t)mix; spAddr1 ^= (uint32_t)(mix >> 32);
		spAddr0 &= MASK_L3_64; spAddr1 &= MASK_L3_64;
		for (int i = 0; i < 8; ++i) r[i] ^= rd64(sp + spAddr0 + 8 * i);
		for (int i = 0; i < 4; ++i) for (int h = 0; h < 2; ++h) f[i][h] = sf::fromInt32((int32_t)rd32(sp + spAddr1 + 8 * i + 4 * h));
		for (int i = 0; i < 4; ++i) for (int h = 0; h < 2; ++h) e[i][h] = toE(sf::fromInt32((int32_t)rd32(sp + spAddr1 + 32 + 8 * i + 4 * h)), h);
		executed = 0;
	}
	uint32_t memAddr(const Decoded& d) const {
		if (d.srcIsDst) return (uint32_t)((int64_t)(int32_t)d.imm32) & MASK_L3;
		return (uint32_t)(r[d.src] + (uint64_t)(int64_t)(int32_t)d.imm32) & ((d.mod & 3) ? MASK_L1 : MASK_L2);
	}
	uint32_t fmemAddr(const Decoded& d) const { // FP memory operands have no src == dst special case (dst is not an integer register)
		return (uint32_t)(r[d.src] + (uint64_t)(int64_t)(int32_t)d.imm32) & ((d.mod & 3) ? MASK_L1 : MASK_L2);
	}
	// executes the instruction at pc, returns the next pc
	int step(int pc) {
		const Decoded& d = code[pc];
		++executed;
		const uint64_t simm = (uint64_t)(int64_t)(int32_t)d.imm32;
		lastStoreAddr = 0xffffffff;
		switch (d.op) {
		case IADD_RS: r[d.dst] += (r[d.src] << ((d.mod >> 2) & 3)) + (d.dst == 5 ? simm : 0); break;
		case IADD_M: r[d.dst] += rd64(sp + memAddr(d)); break;
		case ISUB_R: r[d.dst] -= d.srcIsDst ? simm : r[d.src]; break;
		case ISUB_M: r[d.dst] -= rd64(sp + memAddr(d)); break;
		case IMUL_R: r[d.dst] *= d.srcIsDst ? simm : r[d.src]; break;
		case IMUL_M: r[d.dst] *= rd64(sp + memAddr(d)); break;
		case IMULH_R: r[d.dst] = (uint64_t)(((unsigned __int128)r[d.dst] * r[d.src]) >> 64); break;
		case IMULH_M: r[d.dst] = (uint64_t)(((unsigned __int128)r[d.dst] * rd64(sp + memAddr(d))) >> 64); break;
		case ISMULH_R: r[d.dst] = (uint64_t)(((__int128)(int64_t)r[d.dst] * (int64_t)r[d.src]) >> 64); break;
		case ISMULH_M: r[d.dst] = (uint64_t)(((__int128)(int64_t)r[d.dst] * (int64_t)rd64(sp + memAddr(d))) >> 64); break;
		case IMUL_RCP: if (!d.nop) r[d.dst] *= reciprocal(d.imm32); break;
		case INEG_R: r[d.dst] = 0 - r[d.dst]; break;
		case IXOR_R: r[d.dst] ^= d.srcIsDst ? simm : r[d.src]; break;
		case IXOR_M: r[d.dst] ^= rd64(sp + memAddr(d)); break;
		case IROR_R: { unsigned c = (unsigned)((d.srcIsDst ? (uint64_t)d.imm32 : r[d.src]) & 63); r[d.dst] = ssRotr(r[d.dst], c); } break;
		case IROL_R: { unsigned c = (unsigned)((d.srcIsDst ? (uint64_t)d.imm32 : r[d.src]) & 63); r[d.dst] = ssRotr(r[d.dst], (64 - c) & 63); } break;
		case ISWAP_R: if (!d.nop) std::swap(r[d.dst], r[d.src]); break;
		case FSWAP_R: { uint64_t (*reg)[2] = d.dst < 4 ? &f[d.dst] : &e[d.dst - 4]; std::swap((*reg)[0], (*reg)[1]); } break;
		case FADD_R: for (int h = 0; h < 2; ++h) f[d.dst][h] = sf::add(f[d.dst][h], a[d.src][h], fprc, fpFlags); break;
		case FSUB_R: for (int h = 0; h < 2; ++h) f[d.dst][h] = sf::sub(f[d.dst][h], a[d.src][h], fprc, fpFlags); break;
		case FADD_M: { uint32_t ad = fmemAddr(d); for (int h = 0; h < 2; ++h) f[d.dst][h] = sf::add(f[d.dst][h], sf::fromInt32((int32_t)rd32(sp + ad + 4 * h)), fprc, fpFlags); } break;
		case FSUB_M: { uint32_t ad = fmemAddr(d); for (int h = 0; h < 2; ++h) f[d.dst][h] = sf::sub(f[d.dst][h], sf::fromInt32((int32_t)rd32(sp + ad + 4 * h)), fprc, fpFlags); } break;
		case FSCAL_R: for (int h = 0; h < 2; ++h) f[d.dst][h] ^= 0x80F0000000000000ULL; break;
		case FMUL_R: for (int h = 0; h < 2; ++h) e[d.dst][h] = sf::mul(e[d.dst][h], a[d.src][h], fprc, fpFlags); break;
		case FDIV_M: { uint32_t ad = fmemAddr(d); for (int h = 0; h < 2; ++h) e[d.dst][h] = sf::div(e[d.dst][h], toE(sf::fromInt32((int32_t)rd32(sp + ad + 4 * h)), h), fprc, fpFlags); } break;
		case FSQRT_R: for (int h = 0; h < 2; ++h) e[d.dst][h] = sf::sqrt(e[d.dst][h], fprc, fpFlags); break;
		case CBRANCH: {
			const int b = (d.mod >> 4) + 8;
			uint64_t cimm = simm | (1ULL << b);
			cimm &= ~(1ULL << (b - 1));
			r[d.dst] += cimm;
			if (((r[d.dst] >> b) & 0xff) == 0) { ++takenBranches; return d.target; }
		} break;
		case CFROUND: {
			uint64_t v = ssRotr(r[d.src], d.imm32 & 63);
			if (!v2 || ((v >> 2) & 15) == 0) { int nm = (int)(v & 3); if (nm != fprc) ++roundingChanges; fprc = nm; }
		} break;
		case ISTORE: {
			uint32_t mask = ((d.mod >> 4) >= 14) ? MASK_L3 : ((d.mod & 3) ? MASK_L1 : MASK_L2);
			uint32_t ad = (uint32_t)(r[d.dst] + simm) & mask;
			wr64(sp + ad, r[d.src]); lastStoreAddr = ad;
		} break;
		}
		return pc + 1;
	}
	void iterationEnd() {
		const uint32_t mt = ma;                                       // step 5
		uint32_t& mp = v2 ? ma : mx;
		mp ^= (uint32_t)(r[cfg.readReg[2]] ^ r[cfg.readReg[3]]);
		uint8_t line[64];                                             // step 7 (step 6 is a prefetch)
		readDataset(cfg.datasetOffset + (mt % DATASET_BASE & ~63ULL), line);
		for (int i = 0; i < 8; ++i) r[i] ^= rd64(line + 8 * i);
		std::swap(mx, ma);                                            // step 8
		for (int i = 0; i < 8; ++i) wr64(sp + spAddr1 + 8 * i, r[i]); // step 9
		if (!v2) { for (int i = 0; i < 4; ++i) for (int h = 0; h < 2; ++h) f[i][h] ^= e[i][h]; } // step 10
		else {
			uint8_t st[4][16], key[16];
			for (int i = 0; i < 4; ++i) { wr64(st[i], f[i][0]); wr64(st[i] + 8, f[i][1]); }
			for (int k = 0; k < 4; ++k) {
				wr64(key, e[k][0]); wr64(key + 8, e[k][1]);
				aesEncRoundFast(st[0], key); aesDecRoundFast(st[1], key); aesEncRoundFast(st[2], key); aesDecRoundFast(st[3], key);
			}
			for (int i = 0; i < 4; ++i) { f[i][0] = rd64(st[i]); f[i][1] = rd64(st[i] + 8); }
		}
		for (int i = 0; i < 4; ++i) { wr64(sp + spAddr0 + 16 * i, f[i][0]); wr64(sp + spAddr0 + 16 * i + 8, f[i][1]); } // step 11
		spAddr0 = spAddr1 = 0;                                        // step 12
	}
	// one whole iteration; returns the number of instructions executed
	uint64_t iteration() {
		iterationBegin();
		const int n = (int)code.size();
		for (int pc = 0; pc < n;) pc = step(pc);
		iterationEnd();
		return executed;
	}
	void run(int iterations = ITERATIONS) { beginRun(); for (int i = 0; i < iterations; ++i) iteration(); }
	void registerFile(uint8_t* out256) const {
		for (int i = 0; i < 8; ++i) wr64(out256 + 8 * i, r[i]);
		for (int i = 0; i < 4; ++i) for (int h = 0; h < 2; ++h) { wr64(out256 + 64 + 16 * i + 8 * h, f[i][h]); wr64(out256 + 128 + 16 * i + 8 * h, e[i][h]); wr64(out256 + 192 + 16 * i + 8 * h, a[i][h]); }
	}
};

// ------------------------------------------------------------------ Cache / Dataset / hash driver
struct Cache {
	std::vector<uint64_t> mem;   // 256 MiB as 64-bit little-endian words
	SsProgram progs[8];
	const uint8_t* bytes() const { return (const uint8_t*)mem.data(); } // little-endian host assumed (x86-64)
	static const uint32_t BLOCKS = 262144;
	void init(const void* key, size_t keylen, bool fillMemory = true) {
		if (fillMemory) { mem.assign((size_t)BLOCKS * 128, 0); Argon2d::fill(mem.data(), BLOCKS, 3, key, (uint32_t)keylen, "RandomX\x03", 8); }
		BlakeGenerator gen(key, keylen);
		for (int i = 0; i < 8; ++i) generateSuperscalar(progs[i], gen);
	}
	void item(uint64_t itemNumber, uint8_t* out64) const { datasetItem(bytes(), (uint64_t)BLOCKS * 1024, progs, itemNumber, out64); }
};

struct HashTrace {
	uint8_t seed[64];
	std::vector<std::vector<uint8_t>> programs;   // 8 x 3200 bytes
	std::vector<std::vector<uint8_t>> regFiles;   // 8 x 256 bytes (after each program)
	uint8_t fingerprint[64];
	uint64_t spHashAfterFill = 0;
	int fpFlags = 0;
	uint64_t maxExecuted = 0, takenBranches = 0, roundingChanges = 0;
	int finalFprc[8];
};

inline uint64_t fnv(const uint8_t* p, size_t n) { uint64_t h = 0xcbf29ce484222325ULL; for (size_t i = 0; i < n; ++i) { h ^= p[i]; h *= 0x100000001b3ULL; } return h; }

// specs.md chapter 2, steps 2-14. `readDataset` supplies Dataset items (light or fast, the caller decides).
inline void hash(const std::function<void(uint64_t, uint8_t*)>& readDataset, const void* input, size_t inputLen, bool v2, uint8_t* out32, HashTrace* trace = nullptr) {
	uint8_t S[64]; hash512(S, input, inputLen);                         // 2
	if (trace) memcpy(trace->seed, S, 64);
	std::vector<uint8_t> sp(L3);
	uint8_t gen[64]; memcpy(gen, S, 64);
	aesGenerator1R(gen, sp.data(), L3);                                   // 3-4
	if (trace) trace->spHashAfterFill = fnv(sp.data(), L3);
	Vm vm; vm.sp = sp.data(); vm.readDataset = readDataset; vm.fprc = 0;  // 5-6
	uint8_t regFile[256];
	for (int chain = 0; chain < PROGRAM_COUNT; ++chain) {
		std::vector<uint8_t> prog(128 + 8 * 384);
		aesGenerator4R(gen, prog.data(), prog.size());                    // 7 (the implementation always draws 3200 bytes; for v1 only the first 128 + 2048 are used)
		vm.program(prog.data(), v2);
		vm.beginRun();
		for (int it = 0; it < ITERATIONS; ++it) { uint64_t ex = vm.iteration(); if (trace && ex > trace->maxExecuted) trace->maxExecuted = ex; }   // 8
		vm.registerFile(regFile);
		if (trace) { trace->programs.push_back(prog); trace->regFiles.push_back(std::vector<uint8_t>(regFile, regFile + 256)); trace->finalFprc[chain] = vm.fprc; }
		if (chain < PROGRAM_COUNT - 1) hash512(gen, regFile, 256);        // 9-10
	}
	uint8_t A[64]; aesHash1R(sp.data(), L3, A);                           // 12
	memcpy(regFile + 192, A, 64);                                         // 13
	hash256(out32, regFile, 256);                                         // 14
	if (trace) { memcpy(trace->fingerprint, A, 64); trace->fpFlags = vm.fpFlags; trace->takenBranches = vm.takenBranches; trace->roundingChanges = vm.roundingChanges; }
}

} // namespace mdl
