// Reference model: BLAKE2b written from RFC 7693 (section 3 and appendix C). Independent of /repo.
#pragma once
#include <cstdint>
#include <cstddef>
#include <cstring>
#include <vector>

namespace mdl {

struct Blake2b {
	uint64_t h[8];
	uint64_t t0 = 0, t1 = 0;      // 128-bit byte counter
	uint8_t buf[128];
	size_t buflen = 0;
	size_t outlen = 0;

	static uint64_t rotr(uint64_t x, int n) { return (x >> n) | (x << (64 - n)); }
	static uint64_t ld64(const uint8_t* p) { uint64_t v = 0; for (int i = 7; i >= 0; --i) v = (v << 8) | p[i]; return v; }

	static const uint64_t* IV() {
		static const uint64_t iv[8] = {
			0x6a09e667f3bcc908ULL, 0xbb67ae8584caa73bULL, 0x3c6ef372fe94f82bULL, 0xa54ff53a5f1d36f1ULL,
			0x510e527fade682d1ULL, 0x9b05688c2b3e6c1fULL, 0x1f83d9abfb41bd6bULL, 0x5be0cd19137e2179ULL };
		return iv;
	}
	static const uint8_t (*SIGMA())[16] {
		static const uint8_t s[12][16] = {
			{ 0, 1, 2, 3, 4, 5, 6, 7, 8, 9, 10, 11, 12, 13, 14, 15 },
			{ 14, 10, 4, 8, 9, 15, 13, 6, 1, 12, 0, 2, 11, 7, 5, 3 },
			{ 11, 8, 12, 0, 5, 2, 15, 13, 10, 14, 3, 6, 7, 1, 9, 4 },
			{ 7, 9, 3, 1, 13, 12, 11, 14, 2, 6, 5, 10, 4, 0, 15, 8 },
			{ 9, 0, 5, 7, 2, 4, 10, 15, 14, 1, 11, 12, 6, 8, 3, 13 },
			{ 2, 12, 6, 10, 0, 11, 8, 3, 4, 13, 7, 5, 15, 14, 1, 9 },
			{ 12, 5, 1, 15, 14, 13, 4, 10, 0, 7, 6, 3, 9, 2, 8, 11 },
			{ 13, 11, 7, 14, 12, 1, 3, 9, 5, 0, 15, 4, 8, 6, 2, 10 },
			{ 6, 15, 14, 9, 11, 3, 0, 8, 12, 2, 13, 7, 1, 4, 10, 5 },
			{ 10, 2, 8, 4, 7, 6, 1, 5, 15, 11, 9, 14, 3, 12, 13, 0 },
			{ 0, 1, 2, 3, 4, 5, 6, 7, 8, 9, 10, 11, 12, 13, 14, 15 },
			{ 14, 10, 4, 8, 9, 15, 13, 6, 1, 12, 0, 2, 11, 7, 5, 3 } };
		return s;
	}

	static void G(uint64_t* v, int a, int b, int c, int d, uint64_t x, uint64_t y) {
		v[a] = v[a] + v[b] + x; v[d] = rotr(v[d] ^ v[a], 32);
		v[c] = v[c] + v[d];     v[b] = rotr(v[b] ^ v[c], 24);
		v[a] = v[a] + v[b] + y; v[d] = rotr(v[d] ^ v[a], 16);
		v[c] = v[c] + v[d];     v[b] = rotr(v[b] ^ v[c], 63);
	}

	void compress(const uint8_t* block, bool last) {
		uint64_t v[16], m[16];
		for (int i = 0; i < 8; ++i) { v[i] = h[i]; v[i + 8] = IV()[i]; }
		v[12] ^= t0; v[13] ^= t1;
		if (last) v[14] = ~v[14];
		for (int i = 0; i < 16; ++i) m[i] = ld64(block + 8 * i);
		for (int r = 0; r < 12; ++r) {
			const uint8_t* s = SIGMA()[r];
			G(v, 0, 4, 8, 12, m[s[0]], m[s[1]]);
			G(v, 1, 5, 9, 13, m[s[2]], m[s[3]]);
			G(v, 2, 6, 10, 14, m[s[4]], m[s[5]]);
			G(v, 3, 7, 11, 15, m[s[6]], m[s[7]]);
			G(v, 0, 5, 10, 15, m[s[8]], m[s[9]]);
			G(v, 1, 6, 11, 12, m[s[10]], m[s[11]]);
			G(v, 2, 7, 8, 13, m[s[12]], m[s[13]]);
			G(v, 3, 4, 9, 14, m[s[14]], m[s[15]]);
		}
		for (int i = 0; i < 8; ++i) h[i] ^= v[i] ^ v[i + 8];
	}

	// outlen 1..64, keylen 0..64
	void init(size_t outLen, const void* key = nullptr, size_t keylen = 0) {
		outlen = outLen; t0 = t1 = 0; buflen = 0;
		for (int i = 0; i < 8; ++i) h[i] = IV()[i];
		h[0] ^= 0x01010000ULL ^ ((uint64_t)keylen << 8) ^ (uint64_t)outLen;
		if (keylen) {
			uint8_t block[128] = { 0 };
			memcpy(block, key, keylen);
			update(block, 128);
		}
	}
	void update(const void* data, size_t len) {
		const uint8_t* p = (const uint8_t*)data;
		while (len) {
			if (buflen == 128) { // buffer full and more data follows: compress as a non-final block
				t0 += 128; if (t0 < 128) ++t1;
				compress(buf, false);
				buflen = 0;
			}
			size_t n = 128 - buflen; if (n > len) n = len;
			memcpy(buf + buflen, p, n);
			buflen += n; p += n; len -= n;
		}
	}
	void final(void* out) {
		t0 += buflen; if (t0 < buflen) ++t1;
		memset(buf + buflen, 0, 128 - buflen);
		compress(buf, true);
		uint8_t full[64];
		for (int i = 0; i < 8; ++i) for (int j = 0; j < 8; ++j) full[8 * i + j] = (uint8_t)(h[i] >> (8 * j));
		memcpy(out, full, outlen);
	}
};

inline void b2b(void* out, size_t outlen, const void* in, size_t inlen, const void* key = nullptr, size_t keylen = 0) {
	Blake2b b; b.init(outlen, key, keylen); b.update(in, inlen); b.final(out);
}
inline void hash512(void* out, const void* in, size_t n) { b2b(out, 64, in, n); }
inline void hash256(void* out, const void* in, size_t n) { b2b(out, 32, in, n); }

} // namespace mdl
