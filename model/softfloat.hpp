// Reference model: IEEE-754 binary64 add, sub, mul, div, sqrt in integer arithmetic with the four rounding
// modes, independent of the host FP environment (MXCSR / fenv). Handles zeros, normals and infinities.
// Results that are tiny after rounding are flushed to signed zero (the RandomX FP environment sets FTZ)
// and reported through `flags`; NaN-producing operations are reported through `flags` as well — the
// specification states neither can happen for reachable states, so the VM model treats them as events.
#pragma once
#include <cstdint>
#include <utility>

namespace mdl { namespace sf {

typedef unsigned __int128 u128;
enum { RN = 0, RD = 1, RU = 2, RZ = 3 };
enum { F_INEXACT = 1, F_UNDERFLOW = 2, F_OVERFLOW = 4, F_INVALID = 8, F_SUBNORMAL_IN = 16 };

static const uint64_t SIGN = 1ULL << 63, EXPMASK = 0x7ffULL << 52, MANT = (1ULL << 52) - 1;

inline bool isZero(uint64_t x) { return (x & ~SIGN) == 0; }
inline bool isInf(uint64_t x) { return (x & ~SIGN) == EXPMASK; }
inline bool isNaN(uint64_t x) { return (x & EXPMASK) == EXPMASK && (x & MANT); }
inline bool isSubnormal(uint64_t x) { return (x & EXPMASK) == 0 && (x & MANT); }
inline int expOf(uint64_t x) { return (int)((x >> 52) & 0x7ff) - 1023; }
inline uint64_t sigOf(uint64_t x) { return (x & MANT) | (1ULL << 52); }
static const uint64_t QNAN = 0xfff8000000000000ULL; // the x86 "real indefinite"

// value = (-1)^sign * (sig64 / 2^63) * 2^e, sig64 has bit 63 set; sticky = some lower bits were lost
inline uint64_t roundPack(bool sign, int e, uint64_t sig64, bool sticky, int mode, int& flags) {
	uint64_t mant = sig64 >> 11;
	const uint64_t roundBits = sig64 & 0x7ff;
	const bool inexact = roundBits || sticky;
	bool inc = false;
	switch (mode) {
	case RN: inc = roundBits > 0x400 || (roundBits == 0x400 && (sticky || (mant & 1))); break;
	case RD: inc = sign && inexact; break;
	case RU: inc = !sign && inexact; break;
	default: break;
	}
	if (inc) { ++mant; if (mant == (1ULL << 53)) { mant >>= 1; ++e; } }
	if (inexact) flags |= F_INEXACT;
	const int biased = e + 1023;
	if (biased >= 0x7ff) {
		flags |= F_OVERFLOW | F_INEXACT;
		const bool toInf = mode == RN || (mode == RD && sign) || (mode == RU && !sign);
		return (sign ? SIGN : 0) | (toInf ? EXPMASK : (EXPMASK - 1)); // EXPMASK-1 = 0x7fefffffffffffff
	}
	if (biased <= 0) { // tiny after rounding: flush to zero
		flags |= F_UNDERFLOW | F_INEXACT;
		return sign ? SIGN : 0;
	}
	return (sign ? SIGN : 0) | ((uint64_t)biased << 52) | (mant & MANT);
}

// normalise a non-zero 128-bit magnitude S representing S * 2^scale into (e, sig64, sticky)
inline void norm128(u128 S, int scale, int& e, uint64_t& sig64, bool& sticky) {
	int p = 127;
	while (!((S >> p) & 1)) --p;
	e = scale + p;
	if (p >= 63) { int sh = p - 63; sig64 = (uint64_t)(S >> sh); if (sh && (S & (((u128)1 << sh) - 1))) sticky = true; }
	else sig64 = (uint64_t)(S << (63 - p));
}

inline uint64_t daz(uint64_t x, int& flags) { if (isSubnormal(x)) { flags |= F_SUBNORMAL_IN; return x & SIGN; } return x; }

inline uint64_t add(uint64_t a, uint64_t b, int mode, int& flags) {
	a = daz(a, flags); b = daz(b, flags);
	if (isNaN(a) || isNaN(b)) { flags |= F_INVALID; return QNAN; }
	if (isInf(a) || isInf(b)) {
		if (isInf(a) && isInf(b) && ((a ^ b) & SIGN)) { flags |= F_INVALID; return QNAN; }
		return isInf(a) ? a : b;
	}
	if (isZero(a) && isZero(b)) {
		if (((a ^ b) & SIGN) == 0) return a;
		return mode == RD ? SIGN : 0;
	}
	if (isZero(a)) return b;
	if (isZero(b)) return a;
	int ea = expOf(a), eb = expOf(b);
	uint64_t sa = sigOf(a), sb = sigOf(b);
	bool na = a & SIGN, nb = b & SIGN;
	if (eb > ea || (eb == ea && sb > sa)) { std::swap(ea, eb); std::swap(sa, sb); std::swap(na, nb); } // |a| >= |b|
	const int d = ea - eb;
	u128 A = (u128)sa << 70, B = 0; bool sticky = false;
	if (d >= 123) { sticky = true; }
	else { B = ((u128)sb << 70) >> d; if (d > 70 && (sb & ((1ULL << (d - 70)) - 1))) sticky = true; }
	u128 S;
	if (na == nb) S = A + B;
	else {
		S = A - B;
		if (sticky) S -= 1;
		if (S == 0 && !sticky) return mode == RD ? SIGN : 0;
	}
	int e; uint64_t sig; norm128(S, ea - 122, e, sig, sticky);
	return roundPack(na, e, sig, sticky, mode, flags);
}
inline uint64_t sub(uint64_t a, uint64_t b, int mode, int& flags) {
	if (isNaN(b)) { flags |= F_INVALID; return QNAN; }
	return add(a, b ^ SIGN, mode, flags);
}

inline uint64_t mul(uint64_t a, uint64_t b, int mode, int& flags) {
	a = daz(a, flags); b = daz(b, flags);
	if (isNaN(a) || isNaN(b)) { flags |= F_INVALID; return QNAN; }
	const bool sign = (a ^ b) & SIGN;
	if (isInf(a) || isInf(b)) {
		if (isZero(a) || isZero(b)) { flags |= F_INVALID; return QNAN; }
		return (sign ? SIGN : 0) | EXPMASK;
	}
	if (isZero(a) || isZero(b)) return sign ? SIGN : 0;
	u128 P = (u128)sigOf(a) * sigOf(b);
	int e; uint64_t sig; bool sticky = false; norm128(P, expOf(a) + expOf(b) - 104, e, sig, sticky);
	return roundPack(sign, e, sig, sticky, mode, flags);
}

inline uint64_t div(uint64_t a, uint64_t b, int mode, int& flags) {
	a = daz(a, flags); b = daz(b, flags);
	if (isNaN(a) || isNaN(b)) { flags |= F_INVALID; return QNAN; }
	const bool sign = (a ^ b) & SIGN;
	if (isInf(a)) { if (isInf(b)) { flags |= F_INVALID; return QNAN; } return (sign ? SIGN : 0) | EXPMASK; }
	if (isInf(b)) return sign ? SIGN : 0;
	if (isZero(b)) { if (isZero(a)) { flags |= F_INVALID; return QNAN; } flags |= F_INVALID; return (sign ? SIGN : 0) | EXPMASK; }
	if (isZero(a)) return sign ? SIGN : 0;
	u128 N = (u128)sigOf(a) << 64;
	uint64_t sb = sigOf(b);
	u128 Q = N / sb; bool sticky = (N % sb) != 0;
	int e; uint64_t sig; norm128(Q, expOf(a) - expOf(b) - 64, e, sig, sticky);
	return roundPack(sign, e, sig, sticky, mode, flags);
}

inline uint64_t sqrt(uint64_t a, int mode, int& flags) {
	a = daz(a, flags);
	if (isNaN(a)) { flags |= F_INVALID; return QNAN; }
	if (isZero(a)) return a;
	if (a & SIGN) { flags |= F_INVALID; return QNAN; }
	if (isInf(a)) return a;
	int E = expOf(a); u128 m = sigOf(a);
	if (E & 1) { m <<= 1; E -= 1; }
	u128 M = m << 70; // value = M * 2^(E-122), E-122 even
	// integer square root, bit by bit
	u128 s = 0, rem = M, bit = (u128)1 << 126;
	while (bit > M) bit >>= 2;
	while (bit) {
		if (rem >= s + bit) { rem -= s + bit; s = (s >> 1) + bit; } else s >>= 1;
		bit >>= 2;
	}
	bool sticky = rem != 0;
	int e; uint64_t sig; norm128(s, (E - 122) / 2, e, sig, sticky);
	return roundPack(false, e, sig, sticky, mode, flags);
}

// exact conversion of a signed 32-bit integer
inline uint64_t fromInt32(int32_t x) {
	if (x == 0) return 0;
	const bool sign = x < 0;
	uint64_t mag = sign ? (uint64_t)(-(int64_t)x) : (uint64_t)x;
	int p = 63; while (!((mag >> p) & 1)) --p;
	return (sign ? SIGN : 0) | ((uint64_t)(p + 1023) << 52) | ((mag << (52 - p)) & MANT);
}

}} // namespace
