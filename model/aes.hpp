// Reference model: single AES rounds from FIPS-197 definitions (no lookup tables copied from anywhere:
// the S-box is computed from the GF(2^8) inverse and the affine map), and the RandomX AES-based
// generators / fingerprint of specs.md chapter 3.
#pragma once
#include <cstdint>
#include <cstddef>
#include <cstring>
#include "blake2b.hpp"

namespace mdl {

struct AesTables {
	uint8_t sbox[256], inv[256];
	static uint8_t xtime(uint8_t a) { return (uint8_t)((a << 1) ^ ((a & 0x80) ? 0x1b : 0)); }
	static uint8_t gmul(uint8_t a, uint8_t b) {
		uint8_t p = 0;
		for (int i = 0; i < 8; ++i) { if (b & 1) p ^= a; a = xtime(a); b >>= 1; }
		return p;
	}
	AesTables() {
		for (int x = 0; x < 256; ++x) {
			// multiplicative inverse in GF(2^8) mod x^8+x^4+x^3+x+1 (0 maps to 0): x^254
			uint8_t invx = 0;
			if (x) { uint8_t r = 1, base = (uint8_t)x; int e = 254; while (e) { if (e & 1) r = gmul(r, base); base = gmul(base, base); e >>= 1; } invx = r; }
			// affine transformation: b'_i = b_i ^ b_(i+4) ^ b_(i+5) ^ b_(i+6) ^ b_(i+7) ^ c_i, c = 0x63
			uint8_t s = 0;
			for (int i = 0; i < 8; ++i) {
				int bit = ((invx >> i) ^ (invx >> ((i + 4) & 7)) ^ (invx >> ((i + 5) & 7)) ^ (invx >> ((i + 6) & 7)) ^ (invx >> ((i + 7) & 7)) ^ (0x63 >> i)) & 1;
				s |= (uint8_t)(bit << i);
			}
			sbox[x] = s;
		}
		for (int x = 0; x < 256; ++x) inv[sbox[x]] = (uint8_t)x;
	}
};
inline const AesTables& aesTables() { static const AesTables t; return t; }

// state and key are 16 bytes; byte i is row i%4, column i/4 (FIPS-197 3.4; this is the xmm byte order)
inline void aesEncRound(uint8_t* st, const uint8_t* key) {
	const AesTables& T = aesTables();
	uint8_t t[16];
	for (int c = 0; c < 4; ++c) for (int r = 0; r < 4; ++r) t[r + 4 * c] = T.sbox[st[r + 4 * ((c + r) & 3)]]; // ShiftRows + SubBytes
	for (int c = 0; c < 4; ++c) {
		const uint8_t* a = t + 4 * c;
		st[4 * c + 0] = (uint8_t)(AesTables::gmul(a[0], 2) ^ AesTables::gmul(a[1], 3) ^ a[2] ^ a[3]);
		st[4 * c + 1] = (uint8_t)(a[0] ^ AesTables::gmul(a[1], 2) ^ AesTables::gmul(a[2], 3) ^ a[3]);
		st[4 * c + 2] = (uint8_t)(a[0] ^ a[1] ^ AesTables::gmul(a[2], 2) ^ AesTables::gmul(a[3], 3));
		st[4 * c + 3] = (uint8_t)(AesTables::gmul(a[0], 3) ^ a[1] ^ a[2] ^ AesTables::gmul(a[3], 2));
	}
	for (int i = 0; i < 16; ++i) st[i] ^= key[i];
}
inline void aesDecRound(uint8_t* st, const uint8_t* key) {
	const AesTables& T = aesTables();
	uint8_t t[16];
	for (int c = 0; c < 4; ++c) for (int r = 0; r < 4; ++r) t[r + 4 * c] = T.inv[st[r + 4 * ((c - r + 4) & 3)]]; // InvShiftRows + InvSubBytes
	for (int c = 0; c < 4; ++c) {
		const uint8_t* a = t + 4 * c;
		st[4 * c + 0] = (uint8_t)(AesTables::gmul(a[0], 14) ^ AesTables::gmul(a[1], 11) ^ AesTables::gmul(a[2], 13) ^ AesTables::gmul(a[3], 9));
		st[4 * c + 1] = (uint8_t)(AesTables::gmul(a[0], 9) ^ AesTables::gmul(a[1], 14) ^ AesTables::gmul(a[2], 11) ^ AesTables::gmul(a[3], 13));
		st[4 * c + 2] = (uint8_t)(AesTables::gmul(a[0], 13) ^ AesTables::gmul(a[1], 9) ^ AesTables::gmul(a[2], 14) ^ AesTables::gmul(a[3], 11));
		st[4 * c + 3] = (uint8_t)(AesTables::gmul(a[0], 11) ^ AesTables::gmul(a[1], 13) ^ AesTables::gmul(a[2], 9) ^ AesTables::gmul(a[3], 14));
	}
	for (int i = 0; i < 16; ++i) st[i] ^= key[i];
}

// Faster variant used for bulk work (2 MiB scratchpads): per-byte column tables built from the same
// definitions above at start-up; checked against the slow rounds by the model self-test.
struct AesFast {
	uint32_t enc[4][256], dec[4][256];
	AesFast() {
		const AesTables& T = aesTables();
		for (int x = 0; x < 256; ++x) {
			uint8_t s = T.sbox[x], i = T.inv[x];
			uint8_t e[4] = { AesTables::gmul(s, 2), s, s, AesTables::gmul(s, 3) };            // contribution of row-0 byte to column bytes 0..3
			uint8_t d[4] = { AesTables::gmul(i, 14), AesTables::gmul(i, 9), AesTables::gmul(i, 13), AesTables::gmul(i, 11) };
			for (int r = 0; r < 4; ++r) {
				// a byte in row r contributes the row-0 pattern rotated down by r
				uint32_t ev = 0, dv = 0;
				for (int k = 0; k < 4; ++k) { ev |= (uint32_t)e[(k - r + 4) & 3] << (8 * k); dv |= (uint32_t)d[(k - r + 4) & 3] << (8 * k); }
				enc[r][x] = ev; dec[r][x] = dv;
			}
		}
	}
};
inline const AesFast& aesFast() { static const AesFast t; return t; }
inline void aesEncRoundFast(uint8_t* st, const uint8_t* key) {
	const AesFast& F = aesFast();
	uint32_t col[4];
	for (int c = 0; c < 4; ++c) col[c] = F.enc[0][st[0 + 4 * c]] ^ F.enc[1][st[1 + 4 * ((c + 1) & 3)]] ^ F.enc[2][st[2 + 4 * ((c + 2) & 3)]] ^ F.enc[3][st[3 + 4 * ((c + 3) & 3)]];
	for (int c = 0; c < 4; ++c) for (int r = 0; r < 4; ++r) st[4 * c + r] = (uint8_t)(col[c] >> (8 * r)) ^ key[4 * c + r];
}
inline void aesDecRoundFast(uint8_t* st, const uint8_t* key) {
	const AesFast& F = aesFast();
	uint32_t col[4];
	for (int c = 0; c < 4; ++c) col[c] = F.dec[0][st[0 + 4 * c]] ^ F.dec[1][st[1 + 4 * ((c + 3) & 3)]] ^ F.dec[2][st[2 + 4 * ((c + 2) & 3)]] ^ F.dec[3][st[3 + 4 * ((c + 1) & 3)]];
	for (int c = 0; c < 4; ++c) for (int r = 0; r < 4; ++r) st[4 * c + r] = (uint8_t)(col[c] >> (8 * r)) ^ key[4 * c + r];
}

// ---- keys (specs.md 3.2-3.4): derived from the strings the specification gives
struct AesKeys {
	uint8_t gen1[4][16];   // AesGenerator1R key0..3
	uint8_t gen4[8][16];   // AesGenerator4R key0..7
	uint8_t hashState[4][16];
	uint8_t xkey[2][16];
	AesKeys() {
		auto h512 = [](const char* s, uint8_t* out) { hash512(out, s, strlen(s)); };
		uint8_t t[64];
		h512("RandomX AesGenerator1R keys", t); memcpy(gen1, t, 64);
		h512("RandomX AesGenerator4R keys 0-3", t); memcpy(gen4, t, 64);
		h512("RandomX AesGenerator4R keys 4-7", t); memcpy(gen4[4], t, 64);
		h512("RandomX AesHash1R state", t); memcpy(hashState, t, 64);
		uint8_t x[32]; hash256(x, "RandomX AesHash1R xkeys", strlen("RandomX AesHash1R xkeys")); memcpy(xkey, x, 32);
	}
};
inline const AesKeys& aesKeys() { static const AesKeys k; return k; }

// AesGenerator1R: state (64 bytes) is updated in place; appends 64*n bytes to out
inline void aesGenerator1R(uint8_t* state, uint8_t* out, size_t outBytes) {
	const AesKeys& K = aesKeys();
	for (size_t off = 0; off < outBytes; off += 64) {
		aesDecRoundFast(state + 0, K.gen1[0]);
		aesEncRoundFast(state + 16, K.gen1[1]);
		aesDecRoundFast(state + 32, K.gen1[2]);
		aesEncRoundFast(state + 48, K.gen1[3]);
		memcpy(out + off, state, 64);
	}
}
inline void aesGenerator4R(uint8_t* state, uint8_t* out, size_t outBytes) {
	const AesKeys& K = aesKeys();
	for (size_t off = 0; off < outBytes; off += 64) {
		for (int r = 0; r < 4; ++r) {
			aesDecRoundFast(state + 0, K.gen4[r]);
			aesEncRoundFast(state + 16, K.gen4[r]);
			aesDecRoundFast(state + 32, K.gen4[4 + r]);
			aesEncRoundFast(state + 48, K.gen4[4 + r]);
		}
		memcpy(out + off, state, 64);
	}
}
// AesHash1R over `in` (multiple of 64 bytes) -> 64-byte fingerprint
inline void aesHash1R(const uint8_t* in, size_t inBytes, uint8_t* out64) {
	const AesKeys& K = aesKeys();
	uint8_t st[64]; memcpy(st, K.hashState, 64);
	for (size_t off = 0; off < inBytes; off += 64) {
		aesEncRoundFast(st + 0, in + off + 0);
		aesDecRoundFast(st + 16, in + off + 16);
		aesEncRoundFast(st + 32, in + off + 32);
		aesDecRoundFast(st + 48, in + off + 48);
	}
	for (int x = 0; x < 2; ++x) {
		aesEncRoundFast(st + 0, K.xkey[x]);
		aesDecRoundFast(st + 16, K.xkey[x]);
		aesEncRoundFast(st + 32, K.xkey[x]);
		aesDecRoundFast(st + 48, K.xkey[x]);
	}
	memcpy(out64, st, 64);
}

// BlakeGenerator (specs.md 3.5)
struct BlakeGenerator {
	uint8_t S[64];
	size_t pos;
	BlakeGenerator(const void* seed, size_t n) {
		memset(S, 0, 64);
		if (n > 60) n = 60;
		if (n) memcpy(S, seed, n);
		hash512(S, S, 64);
		pos = 0;
	}
	void check(size_t need) { if (pos + need > 64) { uint8_t t[64]; hash512(t, S, 64); memcpy(S, t, 64); pos = 0; } }
	uint8_t getByte() { check(1); return S[pos++]; }
	uint32_t getUInt32() { check(4); uint32_t v = S[pos] | (S[pos + 1] << 8) | (S[pos + 2] << 16) | ((uint32_t)S[pos + 3] << 24); pos += 4; return v; }
};

} // namespace mdl
