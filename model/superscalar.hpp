// Reference model: SuperscalarHash generator and executor (specs.md chapter 6) and the Dataset item
// construction (chapter 7.3).
//
// Independence caveat (DESIGN.md, C09): chapter 6 fixes the rules (tables 6.1.1, 6.2.1, 6.3.1, 6.3.2,
// port order, operand rules) but not the order in which generator bytes are consumed nor the look-ahead /
// throw-away bookkeeping. Those follow the behaviour of the pinned tree, against which this model was
// validated; the data structures and code are separate from /repo/src.
#pragma once
#include <cstdint>
#include <cstring>
#include <vector>
#include <algorithm>
#include "aes.hpp"

namespace mdl {

enum SsType { SS_ISUB_R = 0, SS_IXOR_R, SS_IADD_RS, SS_IMUL_R, SS_IROR_C, SS_IADD_C7, SS_IXOR_C7, SS_IADD_C8, SS_IXOR_C8, SS_IADD_C9, SS_IXOR_C9,
	SS_IMULH_R, SS_ISMULH_R, SS_IMUL_RCP, SS_COUNT, SS_INVALID = -1 };

struct SsInstr { int type; int dst; int src; int mod; uint32_t imm32; };

struct SsProgram {
	std::vector<SsInstr> ins;
	int addressReg = 0;
	// generator path counters (evidence / coverage floors)
	uint64_t throwAways = 0, srcStalls = 0, dstStalls = 0, group4444 = 0, aborts = 0, portFail = 0, r5rule = 0, chainedMulAllowed = 0;
	int decodeCycles = 0;
};

// exact floor(2^(63+bitlen(d)) / d) for d not zero / power of two (spec 5.2.6), 128-bit arithmetic
inline uint64_t reciprocal(uint32_t d) {
	int bl = 0; for (uint32_t t = d; t; t >>= 1) ++bl;
	unsigned __int128 num = (unsigned __int128)1 << (63 + bl);
	return (uint64_t)(num / d);
}
inline bool zeroOrPow2(uint64_t x) { return (x & (x - 1)) == 0; }

namespace ssdetail {
	enum { P0 = 1, P1 = 2, P5 = 4, P01 = 3, P05 = 5, P015 = 7 };
	struct Mop { int size, latency, u1, u2; bool dependent; };
	struct Info { int type; int nops; Mop ops[3]; int resultOp, dstOp, srcOp; };
	// table 6.2.1
	static const Mop SUB_RR = { 3, 1, P015, 0, false }, XOR_RR = { 3, 1, P015, 0, false }, LEA_SIB = { 4, 1, P01, 0, false }, IMUL_RR = { 4, 3, P1, 0, false },
		ROR_RI = { 4, 1, P05, 0, false }, ADD_RI = { 7, 1, P015, 0, false }, XOR_RI = { 7, 1, P015, 0, false }, MOV_RR = { 3, 0, 0, 0, false },
		MUL_R = { 3, 4, P1, P5, false }, IMUL_R = { 3, 4, P1, P5, false }, MOV_RI = { 10, 1, P015, 0, false }, IMUL_RR_DEP = { 4, 3, P1, 0, true };
	static const Info INFO[SS_COUNT] = {
		{ SS_ISUB_R, 1, { SUB_RR }, 0, 0, 0 }, { SS_IXOR_R, 1, { XOR_RR }, 0, 0, 0 }, { SS_IADD_RS, 1, { LEA_SIB }, 0, 0, 0 }, { SS_IMUL_R, 1, { IMUL_RR }, 0, 0, 0 },
		{ SS_IROR_C, 1, { ROR_RI }, 0, 0, -1 }, { SS_IADD_C7, 1, { ADD_RI }, 0, 0, -1 }, { SS_IXOR_C7, 1, { XOR_RI }, 0, 0, -1 }, { SS_IADD_C8, 1, { ADD_RI }, 0, 0, -1 },
		{ SS_IXOR_C8, 1, { XOR_RI }, 0, 0, -1 }, { SS_IADD_C9, 1, { ADD_RI }, 0, 0, -1 }, { SS_IXOR_C9, 1, { XOR_RI }, 0, 0, -1 },
		{ SS_IMULH_R, 3, { MOV_RR, MUL_R, MOV_RR }, 1, 0, 1 }, { SS_ISMULH_R, 3, { MOV_RR, IMUL_R, MOV_RR }, 1, 0, 1 }, { SS_IMUL_RCP, 2, { MOV_RI, IMUL_RR_DEP }, 1, 1, -1 } };
	// table 6.3.1
	static const int GROUPS[6][4] = { { 4, 8, 4, 0 }, { 7, 3, 3, 3 }, { 3, 7, 3, 3 }, { 4, 9, 3, 0 }, { 4, 4, 4, 4 }, { 3, 3, 10, 0 } };
	static const int GROUP_N[6] = { 3, 4, 4, 3, 4, 3 };
	static const int LATENCY = 170, MAPSIZE = LATENCY + 4, LOOK = 4, MAXTHROW = 256, MAXSIZE = 3 * LATENCY + 2;

	struct Ports {
		int busy[MAPSIZE][3];
		Ports() { memset(busy, 0, sizeof busy); }
		int uop(int u, int cycle, bool commit) {
			for (; cycle < MAPSIZE; ++cycle) {
				if ((u & P5) && !busy[cycle][2]) { if (commit) busy[cycle][2] = u; return cycle; }
				if ((u & P0) && !busy[cycle][0]) { if (commit) busy[cycle][0] = u; return cycle; }
				if ((u & P1) && !busy[cycle][1]) { if (commit) busy[cycle][1] = u; return cycle; }
			}
			return -1;
		}
		int mop(const Mop& m, int cycle, int depCycle, bool commit) {
			if (m.dependent) cycle = std::max(cycle, depCycle);
			if (m.u1 == 0) return cycle;               // eliminated move
			if (m.u2 == 0) return uop(m.u1, cycle, commit);
			for (; cycle < MAPSIZE; ++cycle) {
				int c1 = uop(m.u1, cycle, false), c2 = uop(m.u2, cycle, false);
				if (c1 >= 0 && c1 == c2) { if (commit) { uop(m.u1, c1, true); uop(m.u2, c2, true); } return c1; }
			}
			return -1;
		}
	};
	struct Reg { int latency = 0; int lastGroup = SS_INVALID; int lastPar = -1; };
}

inline void generateSuperscalar(SsProgram& prog, BlakeGenerator& gen) {
	using namespace ssdetail;
	prog = SsProgram();
	Ports ports;
	Reg regs[8];
	int group = -1;                 // current decode group (-1: none yet)
	const Info* cur = nullptr;      // instruction being issued (nullptr: none)
	int curType = SS_INVALID, src = -1, dst = -1, mod = 0, opGroup = SS_INVALID, opGroupPar = -1;
	uint32_t imm = 0; bool canReuse = false, parIsSrc = false;
	int mopIndex = 0, cycle = 0, depCycle = 0, mulCount = 0, throwAway = 0;
	bool saturated = false;
	int decodeCycle;

	auto pickReg = [&](std::vector<int>& avail, int& out) -> bool {
		if (avail.empty()) return false;
		int idx = avail.size() > 1 ? (int)(gen.getUInt32() % avail.size()) : 0;
		out = avail[idx]; return true;
	};
	auto create = [&](int type) {
		cur = &INFO[type]; curType = type; src = dst = -1; canReuse = parIsSrc = false;
		switch (type) {
		case SS_ISUB_R: mod = 0; imm = 0; opGroup = SS_IADD_RS; parIsSrc = true; break;
		case SS_IXOR_R: mod = 0; imm = 0; opGroup = SS_IXOR_R; parIsSrc = true; break;
		case SS_IADD_RS: mod = gen.getByte(); imm = 0; opGroup = SS_IADD_RS; parIsSrc = true; break;
		case SS_IMUL_R: mod = 0; imm = 0; opGroup = SS_IMUL_R; parIsSrc = true; break;
		case SS_IROR_C: mod = 0; do { imm = gen.getByte() & 63; } while (imm == 0); opGroup = SS_IROR_C; opGroupPar = -1; break;
		case SS_IADD_C7: case SS_IADD_C8: case SS_IADD_C9: mod = 0; imm = gen.getUInt32(); opGroup = SS_IADD_C7; opGroupPar = -1; break;
		case SS_IXOR_C7: case SS_IXOR_C8: case SS_IXOR_C9: mod = 0; imm = gen.getUInt32(); opGroup = SS_IXOR_C7; opGroupPar = -1; break;
		case SS_IMULH_R: canReuse = true; mod = 0; imm = 0; opGroup = SS_IMULH_R; opGroupPar = (int)gen.getUInt32(); break;
		case SS_ISMULH_R: canReuse = true; mod = 0; imm = 0; opGroup = SS_ISMULH_R; opGroupPar = (int)gen.getUInt32(); break;
		case SS_IMUL_RCP: mod = 0; do { imm = gen.getUInt32(); } while (zeroOrPow2(imm)); opGroup = SS_IMUL_RCP; opGroupPar = -1; break;
		}
	};
	auto createForSlot = [&](int slot, int grp, bool isLast) {
		switch (slot) {
		case 3: if (isLast) { static const int t[4] = { SS_ISUB_R, SS_IXOR_R, SS_IMULH_R, SS_ISMULH_R }; create(t[gen.getByte() & 3]); }
			else { static const int t[2] = { SS_ISUB_R, SS_IXOR_R }; create(t[gen.getByte() & 1]); } break;
		case 4: if (grp == 4 && !isLast) create(SS_IMUL_R); else { static const int t[2] = { SS_IROR_C, SS_IADD_RS }; create(t[gen.getByte() & 1]); } break;
		case 7: { static const int t[2] = { SS_IXOR_C7, SS_IADD_C7 }; create(t[gen.getByte() & 1]); } break;
		case 8: { static const int t[2] = { SS_IXOR_C8, SS_IADD_C8 }; create(t[gen.getByte() & 1]); } break;
		case 9: { static const int t[2] = { SS_IXOR_C9, SS_IADD_C9 }; create(t[gen.getByte() & 1]); } break;
		case 10: create(SS_IMUL_RCP); break;
		}
	};
	auto selectSource = [&](int c) -> bool {
		std::vector<int> avail;
		for (int i = 0; i < 8; ++i) if (regs[i].latency <= c) avail.push_back(i);
		if (avail.size() == 2 && curType == SS_IADD_RS && (avail[0] == 5 || avail[1] == 5)) { opGroupPar = src = 5; prog.r5rule++; return true; }
		if (pickReg(avail, src)) { if (parIsSrc) opGroupPar = src; return true; }
		return false;
	};
	auto selectDestination = [&](int c, bool allowChainedMul) -> bool {
		std::vector<int> avail;
		for (int i = 0; i < 8; ++i) {
			if (regs[i].latency <= c && (canReuse || i != src) && (allowChainedMul || opGroup != SS_IMUL_R || regs[i].lastGroup != SS_IMUL_R)
				&& (regs[i].lastGroup != opGroup || regs[i].lastPar != opGroupPar) && (curType != SS_IADD_RS || i != 5))
				avail.push_back(i);
		}
		return pickReg(avail, dst);
	};

	for (decodeCycle = 0; decodeCycle < LATENCY && !saturated && (int)prog.ins.size() < MAXSIZE; ++decodeCycle) {
		// decode group selection (6.3.1)
		if (curType == SS_IMULH_R || curType == SS_ISMULH_R) group = 5;
		else if (mulCount < decodeCycle + 1) { group = 4; prog.group4444++; }
		else if (curType == SS_IMUL_RCP) group = (gen.getByte() & 1) ? 0 : 3;
		else group = gen.getByte() & 3;

		int slotIndex = 0;
		while (slotIndex < GROUP_N[group]) {
			int topCycle = cycle;
			if (cur == nullptr || mopIndex >= cur->nops) {
				if (saturated || (int)prog.ins.size() >= MAXSIZE) break;
				createForSlot(GROUPS[group][slotIndex], group, GROUP_N[group] == slotIndex + 1);
				mopIndex = 0;
			}
			const Mop& m = cur->ops[mopIndex];
			int sched = ports.mop(m, cycle, depCycle, false);
			if (sched < 0) { saturated = true; prog.portFail++; break; }
			if (mopIndex == cur->srcOp) {
				int fwd;
				for (fwd = 0; fwd < LOOK && !selectSource(sched); ++fwd) { prog.srcStalls++; ++sched; ++cycle; }
				if (fwd == LOOK) {
					if (throwAway < MAXTHROW) { throwAway++; prog.throwAways++; mopIndex = cur->nops; continue; }
					prog.aborts++; cur = nullptr; curType = SS_INVALID; break;
				}
			}
			if (mopIndex == cur->dstOp) {
				int fwd;
				if (throwAway > 0) prog.chainedMulAllowed++;
				for (fwd = 0; fwd < LOOK && !selectDestination(sched, throwAway > 0); ++fwd) { prog.dstStalls++; ++sched; ++cycle; }
				if (fwd == LOOK) {
					if (throwAway < MAXTHROW) { throwAway++; prog.throwAways++; mopIndex = cur->nops; continue; }
					prog.aborts++; cur = nullptr; curType = SS_INVALID; break;
				}
			}
			throwAway = 0;
			sched = ports.mop(m, sched, sched, true);
			if (sched < 0) { saturated = true; prog.portFail++; break; }
			depCycle = sched + m.latency;
			if (mopIndex == cur->resultOp) { Reg& r = regs[dst]; r.latency = depCycle; r.lastGroup = opGroup; r.lastPar = opGroupPar; }
			slotIndex++; mopIndex++;
			if (sched >= LATENCY) saturated = true;
			cycle = topCycle;
			if (mopIndex >= cur->nops) {
				prog.ins.push_back({ curType, dst, src >= 0 ? src : dst, mod, imm });
				mulCount += (curType == SS_IMUL_R || curType == SS_IMULH_R || curType == SS_ISMULH_R || curType == SS_IMUL_RCP);
			}
		}
		++cycle;
	}
	prog.decodeCycles = decodeCycle;
	// address register: longest dependency chain (spec 7.3 step 7), unit latency, unlimited parallelism; lowest index on ties
	int chain[8] = { 0 };
	for (auto& in : prog.ins) {
		int ld = chain[in.dst] + 1, ls = in.dst != in.src ? chain[in.src] + 1 : 0;
		chain[in.dst] = std::max(ld, ls);
	}
	int best = 0, bestReg = 0;
	for (int i = 0; i < 8; ++i) if (chain[i] > best) { best = chain[i]; bestReg = i; }
	prog.addressReg = bestReg;
}

inline uint64_t ssRotr(uint64_t x, unsigned c) { c &= 63; return c ? (x >> c) | (x << (64 - c)) : x; }
inline int64_t sext32(uint32_t x) { return (int64_t)(int32_t)x; }

inline void executeSuperscalar(uint64_t* r, const SsProgram& p) {
	for (auto& in : p.ins) {
		switch (in.type) {
		case SS_ISUB_R: r[in.dst] -= r[in.src]; break;
		case SS_IXOR_R: r[in.dst] ^= r[in.src]; break;
		case SS_IADD_RS: r[in.dst] += r[in.src] << ((in.mod >> 2) & 3); break;
		case SS_IMUL_R: r[in.dst] *= r[in.src]; break;
		case SS_IROR_C: r[in.dst] = ssRotr(r[in.dst], in.imm32); break;
		case SS_IADD_C7: case SS_IADD_C8: case SS_IADD_C9: r[in.dst] += (uint64_t)sext32(in.imm32); break;
		case SS_IXOR_C7: case SS_IXOR_C8: case SS_IXOR_C9: r[in.dst] ^= (uint64_t)sext32(in.imm32); break;
		case SS_IMULH_R: r[in.dst] = (uint64_t)(((unsigned __int128)r[in.dst] * r[in.src]) >> 64); break;
		case SS_ISMULH_R: r[in.dst] = (uint64_t)(((__int128)(int64_t)r[in.dst] * (int64_t)r[in.src]) >> 64); break;
		case SS_IMUL_RCP: r[in.dst] *= reciprocal(in.imm32); break;
		}
	}
}

// chapter 7.3: one 64-byte Dataset item from the Cache (cacheBytes = 256 MiB in RandomX)
inline void datasetItem(const uint8_t* cache, uint64_t cacheBytes, const SsProgram* progs /*[8]*/, uint64_t itemNumber, uint8_t* out64) {
	uint64_t r[8];
	r[0] = (itemNumber + 1) * 6364136223846793005ULL;
	r[1] = r[0] ^ 9298411001130361340ULL;
	r[2] = r[0] ^ 12065312585734608966ULL;
	r[3] = r[0] ^ 9306329213124626780ULL;
	r[4] = r[0] ^ 5281919268842080866ULL;
	r[5] = r[0] ^ 10536153434571861004ULL;
	r[6] = r[0] ^ 3398623926847679864ULL;
	r[7] = r[0] ^ 9549104520008361294ULL;
	uint64_t cacheIndex = itemNumber;
	const uint64_t items = cacheBytes / 64;
	for (int i = 0; i < 8; ++i) {
		const uint8_t* line = cache + 64 * (cacheIndex % items);
		executeSuperscalar(r, progs[i]);
		for (int q = 0; q < 8; ++q) { uint64_t v = 0; for (int b = 7; b >= 0; --b) v = (v << 8) | line[8 * q + b]; r[q] ^= v; }
		cacheIndex = r[progs[i].addressReg];
	}
	for (int q = 0; q < 8; ++q) for (int b = 0; b < 8; ++b) out64[8 * q + b] = (uint8_t)(r[q] >> (8 * b));
}

} // namespace mdl
