#!/bin/bash
# adopt_seeded.sh <worktree> <seeded-id>: confirm the change in the scratch worktree, then copy patch + demo to /verif/seeded/<id>
set -u
WT=$1; ID=$2
/verif/lib/confirm_seeded.sh "$WT" > /tmp/confirm-$ID.log 2>&1; RC=$?
tail -4 /tmp/confirm-$ID.log
[ $RC -eq 0 ] || exit 1
mkdir -p /verif/seeded/$ID/demo
cp "$WT/patch.diff" /verif/seeded/$ID/
find "$WT/demo" -maxdepth 1 -type f \( -name '*.cpp' -o -name '*.c' -o -name '*.sh' -o -name '*.hpp' -o -name '*.h' -o -name '*.S' -o -name '*.txt' -o -name '*.md' \) -exec cp {} /verif/seeded/$ID/demo/ \;
cp /tmp/confirm-$ID.log /verif/seeded/$ID/confirm.log
echo adopted $ID
