#!/bin/bash
# Confirms a seeded change in a scratch worktree: (1) compiles and passes the repository's tests with the change,
# (2) its demonstration fails with the change, (3) passes without it. Usage: confirm_seeded.sh <worktree>
set -u
WT=$1
cd "$WT" || exit 2
[ -s patch.diff ] || { echo "no patch.diff"; exit 2; }
git checkout -q -- src 2>/dev/null; git apply patch.diff || { echo "patch does not apply"; exit 2; }
cmake -G Ninja -S "$WT" -B "$WT/_build" -DCMAKE_BUILD_TYPE=RelWithDebInfo >/dev/null 2>&1 && ninja -C "$WT/_build" randomx-tests >/dev/null 2>&1 || { echo "BUILD FAILED with change"; exit 1; }
if timeout 900 "$WT/_build/randomx-tests" 2>&1 | tail -1 | grep -q "All tests PASSED"; then echo "tests: PASS with change"; else echo "tests: FAIL with change"; exit 1; fi
timeout 1800 bash demo/run.sh >"$WT/demo_with.log" 2>&1; RC1=$?
echo "demo with change: exit $RC1"
git checkout -q -- src
timeout 1800 bash demo/run.sh >"$WT/demo_without.log" 2>&1; RC2=$?
echo "demo without change: exit $RC2"
git apply patch.diff
[ $RC1 -ne 0 ] && [ $RC2 -eq 0 ] && { echo CONFIRMED; exit 0; }
echo "NOT CONFIRMED"; exit 1
