#!/usr/bin/env python3
"""Prints the tally table of mutation/*.jsonl and lists survivors that have no entry in mutation/triage.json."""
import glob
import json
import os
import sys

VERIF = os.path.dirname(os.path.dirname(os.path.abspath(__file__)))


def main():
    triage = {}
    tp = os.path.join(VERIF, "mutation", "triage.json")
    if os.path.exists(tp):
        triage = json.load(open(tp))
    ks = ["killed-by-tests", "does-not-compile", "detected", "survived", "inconclusive"]
    tot = {}
    untriaged = []
    print("| run | mutants | " + " | ".join(ks) + " |")
    print("|---|---|" + "---|" * len(ks))
    for f in sorted(glob.glob(os.path.join(VERIF, "mutation", "*.jsonl"))):
        t = {}
        for l in open(f):
            r = json.loads(l)
            v = r["verdict"]
            if v == "inconclusive" and any("build failed" in x for x in r.get("inconclusive_tail", {}).values()):
                v = "does-not-compile"
            t[v] = t.get(v, 0) + 1
            tot[v] = tot.get(v, 0) + 1
            if v == "survived":
                key = "%s:%d:%s" % (r["file"], r["line"] + 1, r["operator"])
                if key not in triage:
                    untriaged.append((key, r["before"].strip(), r["after"].strip()))
        print("| %s | %d | " % (os.path.basename(f)[:-6], sum(t.values())) + " | ".join(str(t.get(k, 0)) for k in ks) + " |")
    print("| total | %d | " % sum(tot.values()) + " | ".join(str(tot.get(k, 0)) for k in ks) + " |")
    if untriaged:
        print("\nsurvivors without a triage entry:")
        for k, b, a in untriaged:
            print("  %s\n     - %s\n     + %s" % (k, b[:160], a[:160]))
    return 0


if __name__ == "__main__":
    sys.exit(main())
