"""Per-property check configuration: which harness subcommands run in which build variant, with how many
shards and cases per tier, and the text that goes into the evidence file."""

MODEL_ASSUMPTIONS = [
    "reference model under /verif/model (independent C++ written from doc/specs.md, RFC 7693, FIPS-197, Argon2 spec) is the trusted base; "
    "it is self-tested against hardware AES, the host FPU in all rounding modes, FIPS-197 C.1 and CPython hashlib.blake2b",
    "opcode ranges follow the order of the reference frequency table (specs.md lists frequencies, not ranges)",
    "RandomX v2 parameters (program size 384, CFROUND rule, AES mix, mp alias) are read from specs.md / design_v2.md",
    "SuperscalarHash generator byte-consumption order follows the pinned tree (chapter 6 does not fix it)",
]


def T(tier, quick, thorough):
    return thorough if tier == "thorough" else quick


def c02_jobs(tier):
    return [
        {"variant": "opt", "sub": "c02", "shards": T(tier, 2, 12), "cases": 1, "weight": 1,
         "args": {"inputs": T(tier, 3, 12), "items": T(tier, 1000, 20000)}, "timeout": T(tier, 1800, 7200)},
    ]


HOOK_COMMITS = ["9929591", "7ba38e4", "8db2741"]
MODEL_PROPERTIES = ["C02"]
NOT_CLAIMED = {}

CHECKS = {
    "C02": {
        "level": "exploration",
        "technique": "reference-model monitor (executable spec run next to the real code, intermediates compared)",
        "level_text": "Every explored (key, input, version) triple is hashed by the real library (interpreted light VM and JIT light VM) and by an independent executable reading of doc/specs.md; "
                      "the 256 MiB cache, SuperscalarHash programs, sampled dataset items, all eight program buffers, all eight register files and the digest are compared bit for bit. "
                      "Exploration over boundary-length and random inputs is the right level: the statement is a universally quantified equality of pure functions that no finite run can prove.",
        "level_note": "Trusted base: the reference model in /verif/model (self-tested against hardware AES, host FPU, FIPS-197 C.1, hashlib.blake2b). Held on the triples explored only.",
        "jobs": c02_jobs,
        "rule": "cases are (key, input, version) triples drawn from structured boundary lengths first (key 0/1/12/59/60/61/64/200..., input 0/1/63/64/65/127/128/129/1000/100000...) then random; "
                "a case is non-trivial when all eight programs ran and digest, 8 program buffers and 8 register files were compared with the reference model; distinct by hash of the triple",
        "assumptions": MODEL_ASSUMPTIONS,
        "floors": ["cache_bytes_compared", "dataset_items_compared", "programs_compared", "regfiles_compared", "digests_compared_model", "v1_hashes", "v2_hashes"],
    },
}
