"""Per-property check configuration: which harness subcommands run in which build variant, with how many
shards and cases per tier, and the text that goes into the evidence file."""

MODEL_ASSUMPTIONS = [
    "reference model under /verif/model (independent C++ written from doc/specs.md, RFC 7693, FIPS-197, Argon2 spec) is the trusted base; "
    "it is self-tested against hardware AES, the host FPU in all rounding modes, FIPS-197 C.1 and CPython hashlib.blake2b",
    "opcode ranges follow the order of the reference frequency table (specs.md lists frequencies, not ranges)",
    "RandomX v2 parameters (program size 384, CFROUND rule, AES mix, mp alias) are read from specs.md / design_v2.md",
    "SuperscalarHash generator byte-consumption order follows the pinned tree (chapter 6 does not fix it)",
]


def T(tier, quick, thorough):
    return thorough if tier == "thorough" else quick


def c02_jobs(tier):
    d = {"keys": T(tier, 2, 4), "inputs": T(tier, 3, 8)}
    return [
        {"variant": "opt", "sub": "c02", "shards": T(tier, 2, 12), "cases": 1, "weight": 1,
         "args": {"inputs": T(tier, 3, 12), "items": T(tier, 1000, 20000), "search": T(tier, 600000, 2000000)}, "timeout": T(tier, 1800, 7200)},
        # determinism clause: same triples, separate processes / heap fill patterns / builds
        {"variant": "opt", "sub": "c02d", "shards": 1, "args": dict(d, model=1), "env": {"MALLOC_PERTURB_": "0"}, "timeout": 3600},
        {"variant": "opt", "sub": "c02d", "shards": 1, "args": dict(d, guards=1), "env": {"MALLOC_PERTURB_": "255"}, "timeout": 3600},
        {"variant": "asan", "sub": "c02d", "shards": 1, "args": d, "timeout": 3600},
        {"variant": "port", "sub": "c02d", "shards": 1, "args": d, "env": {"MALLOC_PERTURB_": "85"}, "timeout": 3600},
    ]


def c02_post(agg, records, violations, failures, tier):
    by_id = {}
    for r in records:
        if r.get("type") == "c02d":
            by_id.setdefault(r["id"], {})["%s#%d" % (r["_variant"], r["_job"])] = r["value"]
    joined = 0
    for cid, d in sorted(by_id.items()):
        if len(d) < 4:
            failures.append("C02 determinism record %s present in only %d processes" % (cid, len(d)))
            continue
        joined += 1
        if len(set(d.values())) != 1:
            violations.append(("C02:determinism:digest-varies-between-processes-or-builds", {"id": cid, "digests": d, "_cmd": ["rxv", "c02d"], "_variant": "opt"}))
    agg["counters"]["determinism_triples_joined_across_4_processes"] = joined
    agg["floors"].add("determinism_triples_joined_across_4_processes")


HOOK_COMMITS = ["9929591", "7ba38e4", "8db2741"]
MODEL_PROPERTIES = ["C02", "C05", "C07", "C08", "C09", "C10", "C11", "C12"]
NOT_CLAIMED = {}

def c17_post(agg, records, violations, failures, tier):
    """Joins the record streams of the optimised and the portable build by case id."""
    by_id = {}
    for r in records:
        if r.get("type") == "c17":
            by_id.setdefault(r["id"], {})[r["_variant"]] = r
    joined = 0
    for cid, d in sorted(by_id.items()):
        if "opt" in d and "port" in d:
            joined += 1
            if d["opt"]["value"] != d["port"]["value"]:
                kind = cid.split(":")[1] if cid.startswith("s") and ":" in cid else cid.split(":")[0]
                kind = kind.split("-")[0] if kind.startswith("arith") else kind
                violations.append(("C17:crossbuild:%s-differs-between-optimised-and-portable-build" % kind,
                                   {"id": cid, "what": d["opt"].get("what"), "optimised": d["opt"]["value"][:600], "portable": d["port"]["value"][:600], "_cmd": ["rxv", "c17"], "_variant": "port"}))
        else:
            failures.append("C17 record %s present in only one build" % cid)
    agg["counters"]["cases_joined_across_builds"] = joined
    agg["floors"].add("cases_joined_across_builds")


CHECKS = {
    "C02": {
        "level": "exploration",
        "technique": "reference-model monitor (executable spec run next to the real code, intermediates compared)",
        "level_text": "Every explored (key, input, version) triple is hashed by the real library (interpreted light VM and JIT light VM) and by an independent executable reading of doc/specs.md; "
                      "the 256 MiB cache, SuperscalarHash programs, sampled dataset items, all eight program buffers, all eight register files and the digest are compared bit for bit. "
                      "Exploration over boundary-length and random inputs is the right level: the statement is a universally quantified equality of pure functions that no finite run can prove.",
        "level_note": "Trusted base: the reference model in /verif/model (self-tested against hardware AES, host FPU, FIPS-197 C.1, hashlib.blake2b). Held on the triples explored only.",
        "jobs": c02_jobs,
        "post": c02_post,
        "rule": "directed inputs: per run 1.2 million (thorough: 24 million) candidate inputs are screened with the library's own Blake2b / AesGenerator1R / AesGenerator4R for a first-program configuration whose dataset-offset field is maximal or zero (2^-19 each) and the hits are hashed like every other input, together with eight committed inputs (harness/directed_inputs.hpp, re-screened on every run) whose first program has dataset offset 0x7FFFF, 0x7FFFE, 0 or 1, so that both ends are reached by every run; cases are (key, input, version) triples drawn from structured boundary lengths first (key 0/1/12/59/60/61/64/200..., input 0/1/63/64/65/127/128/129/1000/100000...) then random; "
                "a case is non-trivial when all eight programs ran and digest, 8 program buffers and 8 register files were compared with the reference model; distinct by hash of the triple; determinism clause: a further set of triples is hashed by four separate processes (opt build under MALLOC_PERTURB_ 0 and 255 - the latter with the garbage-filling guard allocator -, the asan build, the portable build) and all digests must agree with each other and with the model",
        "assumptions": MODEL_ASSUMPTIONS,
        "floors": ["cache_bytes_compared", "dataset_items_compared", "programs_compared", "regfiles_compared", "digests_compared_model", "v1_hashes", "v2_hashes"],
    },
    "C09": {
        "level": "exploration",
        "technique": "invariant monitor over generated programs + second generator (reference model) + differential execution interpreter vs native code",
        "jobs": lambda tier: [
            {"variant": "opt", "sub": "c09", "shards": 16, "cases": T(tier, 200, 20000), "args": {"inputs": T(tier, 64, 64)}, "timeout": T(tier, 1200, 7200)},
            {"variant": "asan", "sub": "c09", "shards": T(tier, 4, 16), "cases": T(tier, 40, 1000), "args": {"inputs": 16}, "timeout": T(tier, 1200, 7200)},
        ],
        "rule": "one case = one key (every length 0..70 first, then random / low-entropy keys up to 300 bytes): the real generator produces its 8 programs twice (determinism), every instruction is checked against the "
                "rules of Table 6.1.1, the address register is recomputed from the instruction list, the 8 programs are compared with the model generator, and the code emitted by the real x86 JIT is executed natively "
                "through a trampoline on 64 register inputs (random, single-bit, all-ones, sign extremes) and compared with executeSuperscalar; non-trivial = all of these ran; distinct by hash of the key",
        "assumptions": MODEL_ASSUMPTIONS + ["ties for the longest dependency chain resolve to the lowest register index (specs.md is silent on ties)"],
        "level_text": "For every explored key the real generator's 8 programs are monitored for the well-formedness rules of chapter 6, compared instruction by instruction with a second implementation of the generator, "
                      "and executed both by the library's interpreter and as native code emitted by the library's JIT on many register inputs. Keys are sampled (all lengths 0..70 plus random), register inputs are sampled: exploration is what a runtime monitor can give for a forall over keys and 2^512 inputs.",
        "level_note": "The model generator follows the byte-consumption order of the pinned tree (chapter 6 leaves it open), so it detects any later change and any rule violation but is not a clean-room reading of chapter 6. Rare generator paths 'abort decode buffer' and 'port mapping failure' do not occur in practice and are reported, not required.",
    },
    "C10": {
        "level": "exploration",
        "technique": "reference-model monitor (Argon2d fill) + differential across ref/SSSE3/AVX2 + ASan on reduced instances",
        "jobs": lambda tier: [
            {"variant": "opt", "sub": "c10", "shards": 16, "args": {"fullkeys": T(tier, 1, 3)}, "timeout": T(tier, 1200, 7200)},
            {"variant": "asan", "sub": "c10", "shards": 8, "args": {"fullkeys": 0}, "timeout": T(tier, 1200, 7200)},
        ],
        "parallel": 12,
        "rule": "full-size cases: one key per shard (lengths 32,0,1,8,55,56,60,63,64,65,71,72,73,127,128,129,200,500,... then random): the 256 MiB produced by each available Argon2 implementation is compared byte for byte with the model's "
                "Argon2d fill and with each other, followed by a re-initialisation chain A->B->B->A on one cache object; reduced cases: (m blocks, t passes, password, salt) driven through randomx_argon2_initialize + fill_memory_blocks with each implementation; distinct by hash of the parameters",
        "assumptions": ["reference model Argon2d (written from the Argon2 specification; no independent KAT for lanes=1 without finaliser is available offline, so its agreement with three separately coded implementations is the cross-check)", "model Blake2b pinned to hashlib at setup"],
        "level_text": "Every byte of the cache is compared with an independent Argon2d fill for each explored key and each implementation the CPU supports, and reduced instances exercise the block arithmetic at the edges of small buffers under ASan. Keys and (m,t) are sampled: exploration.",
        "level_note": "Trusted base: the model's Argon2d. Only implementations reported by randomx_get_flags() on this CPU are run (ref, SSSE3, AVX2 here).",
    },
    "C11": {
        "level": "exploration",
        "technique": "reference-model monitor (RFC 7693 model pinned to hashlib) + canaries + ASan/UBSan",
        "jobs": lambda tier: [
            {"variant": "opt", "sub": "c11", "shards": 16, "timeout": T(tier, 1200, 7200)},
            {"variant": "asan", "sub": "c11", "shards": 8, "args": {"huge": 0, "commitments": 20000}, "timeout": T(tier, 1200, 7200), "env": {"VERIF_ASAN_LIGHT": "1"}},
        ],
        "rule": "cases are (message, outlen, key, chunking): message lengths 0..1100 exhaustively and every multiple of 128 +-1 up to 64 KiB, all (outlen 1..64, keylen 0..64) pairs, six chunking modes (1-byte, 128-byte, 127..129, random with empty updates, 64-byte, random); "
                "both the one-shot and the streaming interface are compared with the model; invalid-parameter calls (outlen 0 and every outlen / keylen in 65..4096 plus values with bits set above bit 8, 16 and 32, through the one-shot wrapper, init and init_key followed by update + final; NULL pointers; final into a short buffer; update after final) must fail and leave the canaried output untouched; commitments are compared with Blake2b-256(input||hash); thorough adds a 4 GiB+257 byte message; distinct by hash of the case description",
        "assumptions": ["model Blake2b (RFC 7693) cross-checked against CPython hashlib.blake2b on 20000 triples at setup", "the 2^64 byte-counter carry is unreachable and not claimed"],
        "level_text": "Digest equality with an independent RFC 7693 implementation over exhaustive small lengths, all parameter pairs and many chunkings, return codes and output canaries for invalid calls, under plain and ASan/UBSan builds. Messages are sampled beyond 1100 bytes: exploration.",
        "level_note": "Trusted base: model Blake2b + hashlib. The > 4 GiB clause is exercised only in the thorough tier (one message, single update and chunked).",
    },
    "C12": {
        "level": "exploration",
        "technique": "reference-model monitor (FIPS-197 rounds, specs.md ch.3 generators) + soft/hard differential + ASan",
        "jobs": lambda tier: [
            {"variant": "opt", "sub": "c12", "shards": 16, "timeout": T(tier, 1200, 7200)},
            {"variant": "asan", "sub": "c12", "shards": 8, "args": {"rounds": 400000}, "timeout": T(tier, 1200, 7200)},
        ],
        "rule": "round cases: every byte position x every byte value (rest zero, rest random) plus random (state,key) pairs, each through soft_aesenc/soft_aesdec, the hardware path and the FIPS-197 model; function cases: sizes 64*n (n=1..64), 4032/4096/4160/8192/12288/64Ki/256Ki/2Mi with "
                "zero/ones/counter/random contents: fillAes1Rx4, fillAes4Rx4, hashAes1Rx4 in both template instantiations vs the model, and hashAndFillAes1Rx4 vs (hash, fill); distinct by hash of (size, content kind, seed)",
        "assumptions": ["model AES rounds computed from the GF(2^8) definition, checked against FIPS-197 C.1 and against the aesenc/aesdec instructions at setup"],
        "level_text": "Bit-exact comparison of both AES paths with a FIPS-197 model on all single-byte-position inputs (touching all 2048 table entries) and millions of random pairs, and of the four chapter-3 functions on all small sizes and the real 2 MiB size. Random sampling beyond that: exploration.",
        "level_note": "For hashAndFill sizes below 4096 the function forms (never dereferences) a pointer before the buffer; only results are judged there.",
    },
    "C13": {
        "level": "exploration",
        "technique": "differential monitor over entry MXCSR states + stmxcsr read-back around the call",
        "jobs": lambda tier: [{"variant": "opt", "sub": "c13", "shards": 16, "timeout": T(tier, 1800, 7200)}],
        "rule": "a case is (entry MXCSR state, VM flag set, version, input): 128 states (4 rounding modes x FTZ x DAZ x {all masked, none masked, inexact unmasked, invalid unmasked} x sticky flags {0,0x3f}) x {interpreter, JIT, secure JIT} x {soft, hard AES} (x fast mode in thorough) x v1/v2; "
                "inputs are chosen by a pre-scan so that their last program ends in each of the four rounding modes; digest must equal the digest under 0x1F80 and MXCSR after the single-call hash must equal the entry value (all 16 bits); batches: digests only; distinct by hash of the case",
        "assumptions": ["the x87 control word is not judged (the property speaks of the SSE control/status word on this platform)"],
        "level_text": "Every listed MXCSR state is tried against every light-mode VM class (and fast mode in the thorough tier) with ldmxcsr/stmxcsr placed immediately around the call. Inputs are sampled: exploration.",
        "level_note": "Unmasked-exception states are included; the library resets MXCSR before its first FP instruction, so no trap is expected and a SIGFPE would be reported as a violation.",
    },
    "C18": {
        "level": "exploration",
        "technique": "exhaustive execution of both reciprocal routines over all 2^32 divisors against a 128-bit oracle + structural/behavioural no-op monitor",
        "exhaustive": True,
        "jobs": lambda tier: [{"variant": "opt", "sub": "c18", "shards": 32, "timeout": T(tier, 1800, 7200)}],
        "rule": "clause 1: every divisor in [1,2^32) that is not a power of two is passed to randomx_reciprocal and randomx_reciprocal_fast and compared with floor(2^(63+bitlen)/d) computed in 128-bit arithmetic (complete enumeration, both tiers); "
                "clause 2: all 33 no-op divisors x 8 destination registers x v1/v2: decoded type NOP, last-writer table unchanged, a following CBRANCH still targets the earlier writer (interpreter bytecode and JIT jump displacement), JIT emits zero bytes, and 256 (thorough: 2048) iterations "
                "behave exactly like the same program with ISWAP_R r,r in that slot in both engines; distinct_nontrivial counts the no-op cases plus the shard boundary markers (the 2^32 divisors are counted in evaluations)",
        "assumptions": ["the oracle uses the compiler's unsigned __int128 division"],
        "level_text": "The first clause is decided by complete enumeration (4 294 967 263 divisors, both routines). The no-op clause enumerates all 33 divisors x 8 registers x 2 versions structurally and behaviourally.",
        "level_note": "exhaustive: true refers to the divisor enumeration; the behavioural no-op runs sample scratchpad contents.",
    },
    "C04": {
        "level": "exploration",
        "technique": "differential execution interpreter vs x86 JIT on generated program buffers, under guard pages and ASan",
        "jobs": lambda tier: [
            {"variant": "opt", "sub": "c04", "shards": 16, "cases": T(tier, 1000, 25000), "timeout": T(tier, 1800, 10800)},
            {"variant": "asan", "sub": "c04", "shards": T(tier, 4, 16), "cases": T(tier, 60, 1500), "args": {"directed_only": 1}, "timeout": T(tier, 1800, 10800)},
        ],
        "rule": "a case is (3200-byte program buffer, scratchpad content, entry rounding mode, version, AES mode, light/fast, plain/secure JIT, iteration count): program buffers come from six generators in rotation "
                "(uniform random; one instruction type per program; directed rare encodings: IMUL_RCP 0/2^k/2^k+-1, CFROUND rotate 0, src==dst forms, r4/r5 operands, ISTORE cond 13-15, CBRANCH first/back-to-back/after ISWAP or no-op IMUL_RCP, edge immediates; "
                "maximal-length encodings; AesGenerator4R output byte-mutated; branch-dense), configuration blocks random or extreme, scratchpads random/zero/ones/int32 extremes/small ints; a quarter run the full 2048 iterations, the rest 1-64 "
                "(the same limit is passed to the generated function); after both engines ran from identical state the 256-byte register file, all 2 MiB of scratchpad and the MXCSR rounding bits are compared; non-trivial = at least one CBRANCH was taken; distinct by hash of the program buffer",
        "assumptions": ["ma/mx are not compared (the generated code keeps them in a register and never writes them back; they are re-initialised by every program)", "programs are injected through the guarded programOverride hook and executed by the real vm->run()"],
        "level_text": "Both engines execute the same buffers from the same state and every observable the property names is compared bit for bit, for thousands (quick) to hundreds of thousands (thorough) of programs with a measured instruction-type x operand-form coverage table as floor. "
                      "The space of programs is 2^25600: sampling with directed generators is what this family can do.",
        "level_note": "Equality with the interpreter, not with the specification (C05 closes that). The dataset is an arbitrary PRNG-filled buffer of full size (aliased window), the light-mode cache a real one.",
        "floors": ["programs_compared"],
    },
    "C05": {
        "level": "exploration",
        "technique": "reference-model monitor in lock-step with the real interpreter (per instruction) + FP-domain invariant monitor at the interpreter hook",
        "jobs": lambda tier: [
            {"variant": "opt", "sub": "c05", "shards": 16, "cases": T(tier, 40, 2000), "args": {"steps": T(tier, 300000, 25000000), "nhashes": T(tier, 1, 12)}, "timeout": T(tier, 1800, 10800)},
            {"variant": "asan", "sub": "c05", "shards": 4, "cases": T(tier, 6, 60), "args": {"steps": T(tier, 20000, 300000), "nhashes": 1}, "timeout": T(tier, 1800, 10800)},
        ],
        "rule": "workload A: sequences of 1-6 instruction words (directed encodings, a sweep over all 256 opcodes, random words) are compiled by the real compileInstruction and executed by the real executeInstruction on a harness-owned register file and scratchpad, "
                "one instruction at a time, next to the model's step; states are drawn as spec 4.6 produces them (F from int32 pairs, E masked, A from 4.5.2) plus extremes; after every step all integer and FP registers, touched scratchpad bytes, rounding mode and next pc are compared. "
                "workload B: whole generated programs run through the real vm->run() with the model in lock-step at the iteration-begin / after-instruction / iteration-end hooks, JIT end state compared with the model too. workload C: real hashes with the FP invariant monitor armed. "
                "non-trivial: sampled sequences (1 in 16) and programs with a taken branch; distinct by hash",
        "assumptions": MODEL_ASSUMPTIONS + ["FP invariants (no NaN/subnormal, E positive) are judged on random and real programs and on real hashes; adversarial all-FDIV_M/all-FMUL_R programs can leave the domain within one iteration and are only compared with the model (which implements FTZ/inf)"],
        "level_text": "Each executed instruction of the real interpreter is compared with an independent software-floating-point model immediately after it executes, so operand selection, src==dst forms, masks, sign extension, branch decisions, last-writer targets and the CFROUND rule are judged at the step where they act. Sampling over 2^64 words x states: exploration.",
        "level_note": "JIT single instructions are only observable at program end (C04 complements). Trusted base: the model VM.",
    },
    "C06": {
        "level": "exploration",
        "technique": "guard pages (PROT_NONE, 4 GiB tail) around scratchpad/dataset/cache/code buffer via link-time interposition + fault classifier, ASan/UBSan, valgrind memcheck on generated code, code-area integrity hash, edge-placed I/O buffers",
        "jobs": lambda tier: [
            {"variant": "opt", "sub": "c06", "shards": 16, "cases": T(tier, 200, 8000), "args": {"placements": T(tier, 20, 300)}, "timeout": T(tier, 1800, 10800)},
            {"variant": "asan", "sub": "c06", "shards": T(tier, 8, 16), "cases": T(tier, 40, 1500), "args": {"placements": T(tier, 10, 100)}, "timeout": T(tier, 1800, 10800)},
            # valgrind memcheck sees the accesses of generated code as well (guards off: memcheck keeps its own shadow)
            {"variant": "opt", "sub": "c06", "shards": T(tier, 2, 12), "cases": T(tier, 12, 120), "args": {"placements": T(tier, 2, 10), "guards": 0}, "valgrind": True, "timeout": T(tier, 1800, 10800)},
        ],
        "rule": "program cases as in C04 with emphasis on maximal-length encodings in light+v2+soft-AES (largest code), extreme immediates, every address-register choice, ma/mx=0x7fffffc0 with the maximal dataset offset (last dataset item; the guarded fake dataset ends where the allocation the library itself requests in randomx_alloc_dataset ends - size observed through the interposer, counter library_dataset_extent_bytes is that size summed over the shard processes - and randomx_dataset_item_count()*64 must not exceed it), run by the interpreter and the (secure) JIT with every "
                "scratchpad, cache, dataset and code buffer placed between PROT_NONE regions; per JIT run the bytes [16384, 81920) of the code buffer are hashed before/after and codePos must stay <= 16384; placement cases: input of length 0..300 and 32-byte output ending directly before a PROT_NONE page with a canary page in front, single, pipelined and commitment calls; "
                "edge counters (measured at the interpreter hooks) show how often the first/last line/qword of each buffer was actually addressed; distinct by hash of program / placement",
        "assumptions": ["a wrong but in-range address is not a C06 matter (C04/C05)", "generated code is invisible to ASan; its accesses are judged by the guard regions (all addresses are 32-bit offsets from a base register, so a 4 GiB PROT_NONE tail catches any mask error)"],
        "level_text": "Any access outside the named buffers faults on a guard page (or trips ASan in the C++ parts) and is attributed to the running case; code generation is bounded by a read-back of the code buffer. Held on the programs explored; the evidence lists how often the buffer edges were reached.",
        "level_note": "valgrind memcheck runs a sample of the same programs (2 x 12 quick, 12 x 120 thorough) as a second opinion on generated code; values are not judged under valgrind.",
    },
    "C07": {
        "level": "exploration",
        "technique": "counter monitor at the interpreter hook + structural read-back of bytecode and emitted x86 branch code against the model's last-writer table + arithmetic monitor + JIT watchdog",
        "jobs": lambda tier: [
            {"variant": "opt", "sub": "c07", "shards": 16, "cases": T(tier, 300, 15000), "args": {"arith": T(tier, 1000000, 150000000)}, "timeout": T(tier, 1800, 10800)},
        ],
        "rule": "programs: generators of C04 alternating with branch-dense ones (all CBRANCH, CBRANCH after every integer writer incl. ISWAP and no-op IMUL_RCP) and budget-stress programs (writer-free body closed by one CBRANCH whose register value makes it jump twice: exactly 3|P| instructions); "
                "for each: executed instructions per iteration and consecutive-taken runs per CBRANCH counted at the hook, every decoded CBRANCH (interpreter bytecode target/constant/mask/register; JIT add/test/jz operands and jump displacement read from the code buffer) compared with the model's decoder, JIT run under a watchdog; "
                "arithmetic: (d, imm32, b) samples for all 16 b through the real compileInstruction + exe_CBRANCH three times; non-trivial = a branch was taken; distinct by hash of the program",
        "assumptions": ["the arithmetic statement over 2^64 x 2^32 x 16 is sampled, not proved", "a JIT run exceeding 60 s + 200x the interpreter's time for the same program counts as non-termination"],
        "level_text": "The budget 3|P| and the at-most-two-consecutive-jumps rule are monitored on every executed iteration of every explored program (max ratio 3.000 is reached by construction), and the static ingredients (target after last writer, bit b set, bit b-1 clear, 8-bit mask) are read back from both engines' compiled form.",
        "level_note": "Exploration: programs and (d, imm, b) triples are sampled.",
    },
    "C01": {
        "level": "exploration",
        "technique": "differential execution across the VM / cache / dataset configuration matrix (all-equal oracle) under the guard allocator",
        "jobs": lambda tier: [
            {"variant": "opt", "sub": "c01", "shards": T(tier, 1, 3), "cases": T(tier, 1, 2), "args": {"inputs": T(tier, 6, 40), "threads": 16}, "timeout": T(tier, 1800, 10800), "weight": 16},
        ],
        "parallel": 1,
        "rule": "per key (boundary lengths 32/0/1/12/59/60/61/64/200 then random): up to six caches ({default, JIT} x {ref, SSSE3, AVX2}), a dataset built by the compiled initialiser on 16 threads with odd range boundaries (items around every range boundary and 4000 random items are compared with the light-mode item; thorough: a second dataset by the interpreter initialiser, compared in full), "
                "and VMs {interpreter, JIT, JIT+SECURE, SECURE without JIT} x {soft, hard AES} x {light on each cache, fast on each dataset}, some with LARGE_PAGES (served by ordinary pages through the interposed mmap), a third created with RANDOMX_FLAG_V2 and switched back with clearFlagV2, the others switched with setFlagV2, a third using first/next/last batches; "
                "each (key, input, version) digest must be identical across all configurations; then a fast-mode sweep: 64 (thorough 600) further inputs x 2 versions through the eight fast-mode classes {interpreter, JIT, JIT+SECURE, SECURE} x {soft, hard AES} (half of them batched), all equal - the sweep inputs include the eight committed directed inputs of harness/directed_inputs.hpp whose first program has the dataset-offset field at 0x7FFFF / 0x7FFFE / 0 / 1 (the configurations add that offset in four different places; the light-mode sweep hashes them too); "
                "then a light-mode JIT sweep: 768 (thorough 6000) further inputs x 2 versions through the light classes {JIT, JIT+SECURE} x {soft, hard AES} on 16 threads (alternating between the default and the JIT cache), each digest compared with one fast-mode VM's digest; "
                "non-trivial = at least 12 configurations compared (8 in the fast sweep, 2 in the light sweep); distinct by hash of the triple",
        "assumptions": ["agreement says nothing about correctness (C02 ties the common value to the specification)", "large-page VM classes run with ordinary pages (no hugetlb pages in the sandbox)"],
        "level_text": "Every explored triple is hashed by 36 (quick) to 100+ (thorough) differently configured VM objects over separately prepared caches and datasets and all digests are compared. Keys and inputs are sampled: exploration.",
        "level_note": "Quick explores one key with 6 inputs x 2 versions on the full matrix plus 64 inputs x 2 versions on the eight fast-mode classes and 768 inputs x 2 versions on the four light JIT classes; thorough 6 keys x 40 inputs incl. the 100 000-byte input and both dataset initialisers.",
    },
    "C03": {
        "level": "exploration",
        "technique": "history generator over the API contract + fresh-object oracle, under a hostile allocator (LIFO address reuse, PROT_NONE freed blocks, poisoned/quarantined small objects), under ASan, and under valgrind memcheck (definedness of results)",
        "jobs": lambda tier: [
            {"variant": "opt", "sub": "c03", "shards": 16, "cases": T(tier, 4, 110), "args": {"ops": T(tier, 25, 60)}, "env": {"MALLOC_PERTURB_": "165"}, "timeout": T(tier, 1800, 10800)},
            {"variant": "opt", "sub": "c03", "shards": T(tier, 0, 2), "cases": 40, "args": {"ops": 60, "datasets": 1, "model_crosscheck": 0}, "timeout": 10800, "weight": 8},
            {"variant": "asan", "sub": "c03", "shards": T(tier, 8, 16), "cases": T(tier, 2, 16), "args": {"ops": T(tier, 14, 40), "model_crosscheck": 0}, "timeout": T(tier, 1800, 10800)},
            # program-level histories: long-lived VMs execute chains of generated programs, each step repeated on a VM created for it
            {"variant": "opt", "sub": "c03p", "shards": 16, "cases": T(tier, 30, 1500), "timeout": T(tier, 1800, 10800)},
            {"variant": "asan", "sub": "c03p", "shards": T(tier, 4, 8), "cases": T(tier, 12, 200), "timeout": T(tier, 1800, 10800)},
            # definedness: the lifecycle of every light class under valgrind memcheck (uninitialised heap AND stack bytes reaching a result)
            {"variant": "opt", "sub": "c03v", "shards": 2, "valgrind": True, "timeout": T(tier, 2400, 10800), "weight": 2},
        ],
        "rule": "a case is one API history over up to 3 caches, 4 VMs (any light class incl. SECURE/LARGE_PAGES; fast classes with 2 datasets in the thorough tier), 4 keys (one empty, two differing only beyond byte 60) and 6 inputs (lengths 0/1/76/200/64/129): every second history starts from one of eleven scenario templates "
                "(release+realloc same key, re-key+re-bind, re-key there and back, two caches with equal key, batch/re-key/batch, version switches between all operations, destroy/create VM on another cache, redundant init, release+realloc other key, re-bind to another object then re-key that object to a key the VM was bound with before - in both orders) instantiated per light VM class, followed by weighted random enabled operations "
                "(hash, batch of 1-6 with other objects operated on in between, set_cache same/other object x same/other key, init same/other key, alloc/release incl. release while a VM is still bound, create/destroy, setFlagV2/clearFlagV2, set_dataset); scratchpad and tempHash are poisoned between operations; "
                "every digest is compared with the digest of a fresh cache + fresh VM; non-trivial = contains a re-bind followed by a hash; distinct by hash of the operation sequence. "
                "Program level (c03p): one long-lived VM per class ({interpreter, JIT, JIT+SECURE} x {soft, hard AES} x {light, full memory over a fake dataset}) executes chains of 2-4 generated programs (directed rare encodings, one-type, maximal-length, random, mutated real, branch-dense) with version switches (setFlagV2 / clearFlagV2), scratchpad kinds, entry rounding modes and 1-64 iterations; "
                "each step is repeated on a VM created for that step alone (allocator hands out garbage-filled memory): register file, scratchpad, exit rounding mode must be equal; non-trivial = the long-lived VM executed a different program immediately before. Definedness (c03v, under valgrind memcheck with the guard allocator off): two caches (JIT / default or LARGE_PAGES), dataset items by both initialisers for counts 1..13, every light class x soft / hard AES: single and batched hashes in both versions, re-key + re-bind, commitment; cache samples, items, digests and the register file are checked with VALGRIND_CHECK_MEM_IS_DEFINED, and every memcheck error with a repository or generated-code frame is a violation",
        "assumptions": ["fresh digests are computed per shard with newly allocated objects used for one (key, version) each; two entries are tied to the reference model, the rest by C01/C02", "contract: no hash on a VM whose cache was released or re-keyed without re-binding; batches are atomic per VM"],
        "level_text": "Digests returned inside thousands of contract-respecting histories are compared with fresh-object digests while the allocator maximises address reuse and makes any stale access fault (or trip ASan). Histories are finite and sampled: exploration.",
        "level_note": "Found and fixed: dangling cache pointer after release + re-allocation at the same address (known_findings.txt).",
    },
    "C08": {
        "level": "exploration",
        "technique": "three-way differential (dataset bytes vs light-mode item vs reference-model item) + canary pattern + write-set log of the dataset-init routine + ASan",
        "jobs": lambda tier: [
            {"variant": "opt", "sub": "c08", "shards": 16, "cases": T(tier, 40, 1500), "args": {"model_items": T(tier, 600, 20000)}, "timeout": T(tier, 1800, 10800)},
            {"variant": "asan", "sub": "c08", "shards": T(tier, 4, 8), "cases": T(tier, 4, 60), "args": {"model_items": 50, "full": 0}, "timeout": T(tier, 1800, 10800)},
        ],
        "parallel": 12,
        "rule": "a case is one partition of a window of the dataset into consecutive randomx_init_dataset calls handed to 1-16 threads: windows start at 0, end at the last item or lie anywhere; counts are 0..9, 4k, 4k+1..3, up to 5000, 1..3 (stack-buffer branch) or 'the rest'; one large single call per cache on the first shards (count 65537..135536 resp. 131073..201072 at an interior start: items at the head, around every multiple of 65536, at the tail and 300 random ones compared); both the interpreter initialiser (default cache) and the compiled one (JIT cache) are used, on odd shards through the LARGE_PAGES variants of the cache objects and on shards 2, 3, 6, 7, ... into a LARGE_PAGES dataset (huge-page requests served by ordinary pages through the interposed mmap); "
                "before the calls the window +- 8 items is filled with a pattern, afterwards the margins must still hold it, every item of the window must equal initDatasetItem and sampled items the model's item; the cache's dataset-init function pointer is wrapped to log (thread, destination, start, end) and the log is checked for containment in the calling thread's request and "
                "pairwise disjointness across threads; thorough adds the complete dataset by both initialisers on 16 threads (all 34 078 719 items compared, 200 000 against the model); distinct by hash of the partition",
        "assumptions": MODEL_ASSUMPTIONS[:1] + ["the dataset buffer is guard-allocated and lazily committed, only touched windows cost memory"],
        "level_text": "Every initialised item in every explored call pattern is compared with the light-mode derivation (and a sample with the specification model), writes outside the request are caught by canaries and guard pages, and the compiled initialiser's writes (invisible to sanitizers) are turned into an event log. Partitions are sampled: exploration.",
        "level_note": "Trusted base for the third leg: model SuperscalarHash + dataset item construction.",
    },
    "C14": {
        "level": "exploration",
        "technique": "ThreadSanitizer build under concurrent stress workloads with injected yields/sleeps between API calls + per-thread result comparison with the sequential run + write-set log for the compiled dataset initialiser",
        "jobs": lambda tier: [
            {"variant": "tsan", "sub": "c14", "shards": T(tier, 3, 8), "cases": T(tier, 1, 6), "args": {"nhashes": 2}, "timeout": T(tier, 2400, 14400), "weight": 5},
            {"variant": "opt", "sub": "c14", "shards": T(tier, 2, 6), "cases": T(tier, 2, 10), "args": {"nhashes": T(tier, 3, 6), "dataset": 1}, "timeout": T(tier, 2400, 14400), "weight": 8},
            {"variant": "tsan", "sub": "c14", "shards": T(tier, 0, 1), "cases": 2, "args": {"nhashes": 2, "dataset": 1}, "timeout": 14400, "weight": 16},
            # the generic (non-SSE2) code paths keep their own per-thread state (fenv rounding mode): same workload on the portable build
            {"variant": "port", "sub": "c14", "shards": T(tier, 2, 4), "cases": T(tier, 1, 6), "args": {"nhashes": 3}, "timeout": T(tier, 2400, 14400), "weight": 8},
        ],
        "parallel": 5,
        "rule": "a case is one concurrent round with 2-8 (thorough: up to 16) threads released together: W1 threads create / hash x n / destroy their own VM of a random class (interpreter, JIT, secure JIT, secure interpreter x soft/hard AES x v1/v2) over one shared cache, W2 the same over one shared dataset (opt build; TSan build in thorough), W1 again on the forced-portable build (fenv rounding mode, generic AES/mulh), "
                "W4 every fourth thread only touches private objects (own cache alloc / init / re-key / release, randomx_get_flags), then W3: the threads initialise disjoint dataset ranges with odd boundaries concurrently, once with the interpreter initialiser (instrumented) and once with the compiled one (write-set log); yields and short sleeps are injected between API calls; "
                "digests and dataset items are compared with the sequential result; each distinct TSan report whose stacks lie in the repository sources is a violation; the evidence lists which pairs of API calls actually overlapped in time (call/return timestamps from one monotonic clock)",
        "assumptions": ["TSan sees all C/C++ of the library but not generated machine code: a race whose both sides are inside generated code cannot be reported; generated code only reads shared memory except the compiled dataset initialiser, which is covered by the write-set log", "races that need a weaker memory model than x86-TSO are not provoked on this host"],
        "level_text": "Happens-before race detection over the interleavings the stress workloads actually produced (reported as overlap counts per pair of API-call kinds), repeated because reports are schedule dependent, plus functional equality with the sequential results. A clean run is 'no race in what was executed', not absence of races.",
        "level_note": "Found and fixed: data race on randomx::aesDummy in VmBase::allocate (known_findings.txt).",
    },
    "C15": {
        "level": "fault_enumeration",
        "technique": "allocation fault enumeration through link-time interposition (k-th posix_memalign / mmap / operator new inside the creating call fails) + address-keyed conservation of heap blocks and mappings + LeakSanitizer on fault-free cycles",
        "jobs": lambda tier: [
            {"variant": "opt", "sub": "c15", "shards": 16, "args": {"cycles": T(tier, 24, 1200)}, "timeout": T(tier, 1800, 10800)},
            {"variant": "asan", "sub": "c15", "shards": T(tier, 2, 8), "args": {"inject": 0, "cycles": T(tier, 16, 300)}, "timeout": T(tier, 1800, 10800)},
        ],
        "exhaustive": True,
        "rule": "creating calls x flag sets: randomx_alloc_cache x {JIT, LARGE_PAGES, ARGON2 ref/SSSE3/AVX2}, randomx_alloc_dataset x {LARGE_PAGES}, randomx_create_vm x all 64 combinations of {LARGE_PAGES, HARD_AES, FULL_MEM, JIT, SECURE, V2} with short and long (heap-allocated std::string) cache keys, each with large-page mappings succeeding (flag stripped by the interposed mmap) and failing; "
                "a fault-free run records the N allocation requests issued inside the call, then request k fails for every k = 1..N (complete enumeration of single faults; thorough: also all pairs k1<k2); required: NULL result, no fatal signal, live heap blocks and mapped bytes (keyed by address) equal before and after, munmap length equal to mmap length, and a following fault-free create_vm (+ hash compared with a reference digest) succeeds; "
                "plus NULL cache/dataset arguments, and fault-free create/use/destroy cycles with per-cycle balance and bounded RSS growth; distinct by hash of (call, fault)",
        "assumptions": ["only allocation requests are failed (posix_memalign, mmap incl. large pages, operator new); mprotect failures are not allocation requests and are outside the property", "operator new faults are injected in the opt build only (ASan owns operator new in the asan build)"],
        "level_text": "The space 'creating call x flag combination x index of the failing request' is finite and is enumerated completely for single faults in both tiers (exhaustive: true for that space), double faults in the thorough tier; outcomes are judged by return value, survival, conservation over the interposition event log and a follow-up use of the library.",
        "level_note": "Large pages do not exist in the sandbox: 'succeeds' is simulated by stripping MAP_HUGETLB.",
    },
    "C16": {
        "level": "exploration",
        "technique": "online monitor over interposed mmap/mprotect requests with a per-mapping shadow protection map + /proc/self/maps snapshots at API boundaries",
        "jobs": lambda tier: [
            {"variant": "opt", "sub": "c16", "shards": 14, "cases": T(tier, 3, 125), "args": {"ops": T(tier, 40, 60)}, "timeout": T(tier, 1800, 10800)},
            {"variant": "opt", "sub": "c16", "shards": T(tier, 1, 3), "cases": T(tier, 6, 125), "args": {"ops": T(tier, 40, 60), "dataset": 1}, "timeout": T(tier, 1800, 10800), "weight": 8},
        ],
        "rule": "a case is one API history (every third one on 2-4 threads) using only secure VMs ({JIT+SECURE, SECURE without JIT} x soft/hard AES x LARGE_PAGES x v1/v2; some shards build a real dataset so that the FULL_MEM secure classes take part as well) and any caches (JIT and non-JIT, with and without LARGE_PAGES): cache alloc/init/re-key/release, VM creation, single and pipelined hashes, re-binding, version switches, destruction; "
                "every mmap/mprotect the library issues is attributed to the mapping's owner (tag set by the creating API call) and must never carry WRITE and EXEC together for secure-VM-owned and cache-owned mappings; after every API call /proc/self/maps must contain no rwx line; a self-test first shows that the monitor does see the RWX request of a non-secure JIT VM; non-trivial = the history produced protection events; distinct by hash of the history",
        "assumptions": ["the harness binary is linked with a non-executable stack (-z noexecstack) so that /proc/self/maps snapshots are meaningful; librandomx's .S file lacks a .note.GNU-stack section, which would otherwise make the process stack executable - not a code buffer owned by the library, not judged"],
        "level_text": "Every protection request of every explored history is checked online against the W^X rule with the kernel's own view as a second reading. Histories are sampled: exploration.",
        "level_note": "The cache clause is unconditional: the same online checker also judges cache-owned mappings in every other check that runs through the interposition layer.",
    },
    "C17": {
        "level": "exploration",
        "technique": "cross-build differential: the same seed-derived case stream executed by the default x86-64 build and by a build forced onto the generic C++ fallbacks, results joined by case id",
        "jobs": lambda tier: [
            {"variant": "opt", "sub": "c17", "shards": 8, "cases": T(tier, 60, 3000), "args": {"nhashes": T(tier, 2, 8)}, "timeout": T(tier, 1800, 10800)},
            {"variant": "port", "sub": "c17", "shards": 8, "cases": T(tier, 60, 3000), "args": {"nhashes": T(tier, 2, 8)}, "timeout": T(tier, 1800, 10800)},
        ],
        "post": c17_post,
        "rule": "the portable build compiles every source with -U__SSE2__ -U__SSE__ -U__SSE3__ -U__SSSE3__ -U__AES__ -U__SIZEOF_INT128__ (struct-based rx_vec_*, fenv-based rounding, 32x32 mulh/smulh, shift-based rotates, table AES); both builds run: mulh/smulh/rotr/rotl on an edge grid and on random operand pairs (running hashes emitted every 65536 pairs), reciprocals, "
                "program buffers from the six C04 generators through the interpreter (256-byte register file, scratchpad hash, exit rounding mode), whole hashes on interpreter VMs under each of the four fenv rounding modes (mode must be preserved) and dataset items; records with the same id must be identical; distinct by hash of the program buffer",
        "assumptions": ["this is the generic fallback as compiled by gcc for x86-64, not another architecture's compiler or FPU: double arithmetic still executes on SSE scalar instructions; endianness-dependent branches are not reached", "the JIT is identical in both builds and is not part of this check"],
        "level_text": "Every observable the property names (digests, per-program results, dataset items, preserved rounding mode) is compared between two differently configured builds of the same tree on thousands of cases. Sampling: exploration.",
        "level_note": "Both builds are rebuilt from /repo's working tree on every run.",
    },
    "C19": {
        "level": "exploration",
        "technique": "emulated execution monitor: the emitted AArch64 machine code is executed in an instruction-subset emulator and compared with the real interpreter (differential), with bounds-checked emulated memory",
        "jobs": lambda tier: [
            {"variant": "xjit", "sub": "c19", "shards": 16, "cases": T(tier, 120, 6000), "args": {"ranges": T(tier, 4, 40)}, "timeout": T(tier, 1800, 10800)},
            {"variant": "xjit_asan", "sub": "c19", "shards": T(tier, 4, 8), "cases": T(tier, 30, 400), "args": {"ranges": 2, "coverage_floor": 0}, "timeout": T(tier, 1800, 10800)},
        ],
        "rule": 'the real emitter source (src/jit_compiler_a64.cpp, unmodified) is compiled for this host and its hand-written runtime is cross-assembled by clang for the real target and embedded as data; for each case the emitter compiles a program buffer from the six C04 generators (random, one-type, directed rare encodings, maximal-length, mutated real programs, branch-dense; random/extreme configuration blocks; five scratchpad kinds; entry rounding mode 0-3; v1/v2 x soft/hard AES; light mode over a real cache and full mode over an arbitrary dataset; a quarter on a fresh emitter, the rest on a persistent one so that code-buffer contents carry over) and the emitted code is executed by the instruction-subset emulator for 1-64 iterations (every 24th program: 2048); register file (256 bytes), whole scratchpad and exit rounding mode are compared with the real interpreter on the same buffer; dataset items produced by the emitted SuperscalarHash + dataset-init code for ranges at item 0, at the last item and in between are compared with initDatasetItem; every emulated load/store is checked against the registered regions (code buffer, scratchpad, dataset/cache, register file, AES tables, stack); non-trivial = at least one CBRANCH was taken; distinct by hash of the program buffer',
        "assumptions": ["trust base: the instruction-subset emulator under /verif/emu/a64 (50 encoding classes; floating point through the model's software FP, AES from FIPS-197 tables; decoder cross-checked against llvm-objdump / clang-assembled directed tests; validated by agreement with the interpreter on tens of thousands of programs and by 15 one-token mutants of emitter and runtime, all detected)",
                        "an encoding outside the modelled subset makes the run inconclusive (exit 2), never a violation", "no instruction-cache or W^X model: a missing cache flush cannot be detected", "FPCR.FZ is 0 as in a Linux process; a subnormal operand or result would be reported as unmodelled"],
        "level_text": "There is no AArch64 CPU or emulator in the sandbox; the only observable execution of the back-end's output is inside an emulator written for this purpose, which is also the observation point the property names. Programs are sampled with the same directed generators as for the x86 JIT: exploration.",
        "level_note": "Found and fixed: ISUB_R with src == dst and imm32 = 0x80000000 subtracted 2^31 instead of adding it (known_findings.txt). The emitter C++ also runs under ASan/UBSan in the xjit_asan job.",
    },
    "C20": {
        "level": "exploration",
        "technique": "emulated execution monitor: the emitted RV64GC machine code is executed in an instruction-subset emulator and compared with the real interpreter (differential), with bounds-checked emulated memory",
        "jobs": lambda tier: [
            {"variant": "xjit", "sub": "c20", "shards": 16, "cases": T(tier, 120, 6000), "args": {"ranges": T(tier, 4, 40)}, "timeout": T(tier, 1800, 10800)},
            {"variant": "xjit_asan", "sub": "c20", "shards": T(tier, 4, 8), "cases": T(tier, 30, 400), "args": {"ranges": 2, "coverage_floor": 0}, "timeout": T(tier, 1800, 10800)},
        ],
        "rule": 'the real emitter source (src/jit_compiler_rv64.cpp, unmodified) is compiled for this host and its hand-written runtime is cross-assembled by clang for the real target and embedded as data; for each case the emitter compiles a program buffer from the six C04 generators (random, one-type, directed rare encodings, maximal-length, mutated real programs, branch-dense; random/extreme configuration blocks; five scratchpad kinds; entry rounding mode 0-3; v1/v2; light mode over a real cache and full mode over an arbitrary dataset; a quarter on a fresh emitter, the rest on a persistent one so that code-buffer contents carry over) and the emitted code is executed by the instruction-subset emulator for 1-64 iterations (every 24th program: 2048); register file (256 bytes), whole scratchpad and exit rounding mode are compared with the real interpreter on the same buffer; dataset items produced by the emitted SuperscalarHash + dataset-init code for ranges at item 0, at the last item and in between are compared with initDatasetItem; every emulated load/store is checked against the registered regions (code buffer, scratchpad, dataset/cache, register file, AES tables, stack); non-trivial = at least one CBRANCH was taken; distinct by hash of the program buffer',
        "assumptions": ["trust base: the instruction-subset emulator under /verif/emu/rv64 (129 encodings of RV64IMD + Zicsr + C; floating point through the model's software FP, AES from FIPS-197 tables; decoder cross-checked against llvm-objdump / clang-assembled directed tests; validated by agreement with the interpreter on tens of thousands of programs and by 15 one-token mutants of emitter and runtime, all detected)",
                        "an encoding outside the modelled subset makes the run inconclusive (exit 2), never a violation", "no instruction-cache or W^X model: a missing cache flush cannot be detected", "the runtime is assembled by clang with -march=rv64gc -mno-relax; GNU as might choose different compressed encodings", "UBSan's shift check is off for the unmodified emitter translation unit (negative left shifts, well defined with gcc)"],
        "level_text": "There is no RV64GC CPU or emulator in the sandbox; the only observable execution of the back-end's output is inside an emulator written for this purpose, which is also the observation point the property names. Programs are sampled with the same directed generators as for the x86 JIT: exploration.",
        "level_note": "Found and fixed: ISUB_R with src == dst and imm32 = 0x80000000 subtracted 2^31 instead of adding it (known_findings.txt). The emitter C++ also runs under ASan/UBSan in the xjit_asan job.",
    },
}
