#!/usr/bin/env python3
"""Applies a seeded change to /repo, runs the given checks (quick tier unless --tier), undoes the change.
Usage: lib/try_seeded.py <seeded-id-or-patch> <Cxx> [<Cxx> ...] [--tier quick|thorough] [--seed N]
Prints one line per check: exit code and VIOLATION keys. Never leaves /repo modified."""
import fcntl
import os
import subprocess
import sys

VERIF = os.path.dirname(os.path.dirname(os.path.abspath(__file__)))
REPO = "/repo"


def main():
    args = sys.argv[1:]
    tier, seed = "quick", "1"
    if "--tier" in args:
        i = args.index("--tier"); tier = args[i + 1]; del args[i:i + 2]
    if "--seed" in args:
        i = args.index("--seed"); seed = args[i + 1]; del args[i:i + 2]
    patch = args[0]
    if not os.path.exists(patch):
        patch = os.path.join(VERIF, "seeded", args[0], "patch.diff")
    checks = args[1:]
    lock = open(os.path.join(VERIF, ".build", ".repo-mutation.lock"), "w")
    fcntl.flock(lock, fcntl.LOCK_EX)
    if subprocess.run(["git", "-C", REPO, "status", "--porcelain", "--untracked-files=no"], stdout=subprocess.PIPE, text=True).stdout.strip():
        print("refusing: /repo has uncommitted changes"); return 2
    rc = subprocess.run(["git", "-C", REPO, "apply", os.path.abspath(patch)]).returncode
    if rc != 0:
        print("patch does not apply"); return 2
    results = {}
    try:
        for c in checks:
            env = dict(os.environ, VERIF_SEED=seed, VERIF_TIER=tier)
            r = subprocess.run([os.path.join(VERIF, "check"), c, "--tier", tier], cwd=VERIF, env=env, stdout=subprocess.PIPE, stderr=subprocess.STDOUT, text=True)
            keys = [l.strip() for l in r.stdout.splitlines() if l.strip().startswith("key:") or l.startswith("VIOLATION") or l.startswith("KNOWN")]
            results[c] = (r.returncode, keys)
            print("%s exit=%d %s" % (c, r.returncode, "DETECTED" if r.returncode == 1 else ("inconclusive" if r.returncode == 2 else "missed")))
            for k in keys[:6]:
                print("    " + k[:300])
            if r.returncode == 2:
                print("    " + r.stdout[-600:].replace("\n", "\n    "))
    finally:
        subprocess.run(["git", "-C", REPO, "checkout", "--", "."])
    return 0


if __name__ == "__main__":
    sys.exit(main())
