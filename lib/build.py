"""Build orchestration: one cmake/ninja tree per variant under /verif/.build/<variant>.

Every variant compiles /repo's *current working tree* (through /repo's own CMakeLists.txt, pulled in
with add_subdirectory) with -DRANDOMX_VERIF, plus the harness. ninja's dependency tracking makes the
rebuild incremental and picks up any edit under /repo. A flock per variant serialises concurrent checks.
"""
import fcntl
import os
import subprocess
import sys
import time

VERIF = os.path.dirname(os.path.dirname(os.path.abspath(__file__)))
REPO = os.environ.get("RXV_REPO", "/repo")
BUILD_ROOT = os.path.join(VERIF, ".build")
GUARD = "-DRANDOMX_VERIF"

PORT_FLAGS = "-U__SSE2__ -U__SSE__ -U__AES__ -U__SIZEOF_INT128__ -U__SSE3__ -U__SSSE3__ -DHAVE_POSIX_MEMALIGN"

VARIANTS = {
    # name: (c/c++ flags, cmake options)
    "opt": ("-O2 -g -DNDEBUG " + GUARD, {"RXV_REPLACE_NEW": "ON"}),
    "asan": ("-O1 -g -fno-omit-frame-pointer -fsanitize=address,undefined -fno-sanitize-recover=all " + GUARD, {}),
    "tsan": ("-O1 -g -fno-omit-frame-pointer -fsanitize=thread -DNDEBUG " + GUARD, {}),
    "port": ("-O2 -g -DNDEBUG " + GUARD + " " + PORT_FLAGS, {"RXV_REPLACE_NEW": "ON", "RXV_PORTABLE": "ON"}),
    # host-compiled a64 / rv64 emitters + emulators (C19, C20), plain and sanitised
    "xjit": ("-O2 -g -DNDEBUG " + GUARD, {"RXV_XJIT": "ON"}),
    # line-coverage build (lib/coverage_report.py; not used by any registered check)
    "cov": ("-O0 -g --coverage -DNDEBUG " + GUARD, {"RXV_REPLACE_NEW": "ON"}),
    "xjit_asan": ("-O1 -g -fno-omit-frame-pointer -fsanitize=address,undefined -fno-sanitize-recover=all -DNDEBUG " + GUARD, {"RXV_XJIT": "ON"}),
}


class BuildError(Exception):
    pass


def build(variant, quiet=True):
    """Builds (incrementally) and returns the path of the rxv binary for `variant`."""
    flags, opts = VARIANTS[variant]
    bdir = os.path.join(BUILD_ROOT, variant)
    os.makedirs(bdir, exist_ok=True)
    lock = open(os.path.join(bdir, ".lock"), "w")
    fcntl.flock(lock, fcntl.LOCK_EX)
    try:
        t0 = time.time()
        stamp = os.path.join(bdir, ".configured")
        want = flags + repr(sorted(opts.items())) + REPO
        have = open(stamp).read() if os.path.exists(stamp) else None
        if have != want or not os.path.exists(os.path.join(bdir, "build.ninja")):
            cmd = ["cmake", "-G", "Ninja", "-S", os.path.join(VERIF, "harness"), "-B", bdir,
                   "-DCMAKE_BUILD_TYPE=Custom", "-DCMAKE_C_FLAGS=" + flags, "-DCMAKE_CXX_FLAGS=" + flags,
                   "-DRXV_REPO=" + REPO, "-DCMAKE_EXPORT_COMPILE_COMMANDS=ON"]
            for k in ("RXV_REPLACE_NEW", "RXV_PORTABLE", "RXV_XJIT"):
                cmd.append("-D%s=%s" % (k, opts.get(k, "OFF")))
            r = subprocess.run(cmd, stdout=subprocess.PIPE, stderr=subprocess.STDOUT, text=True)
            if r.returncode != 0:
                raise BuildError("cmake configure failed for %s:\n%s" % (variant, r.stdout[-4000:]))
            open(stamp, "w").write(want)
        r = subprocess.run(["ninja", "-C", bdir, "rxv"], stdout=subprocess.PIPE, stderr=subprocess.STDOUT, text=True)
        if r.returncode != 0:
            raise BuildError("build failed for %s:\n%s" % (variant, r.stdout[-6000:]))
        if not quiet:
            sys.stderr.write("[build] %s ready in %.1fs\n" % (variant, time.time() - t0))
        return os.path.join(bdir, "rxv")
    finally:
        fcntl.flock(lock, fcntl.LOCK_UN)
        lock.close()


if __name__ == "__main__":
    for v in (sys.argv[1:] or list(VARIANTS)):
        print(v, build(v, quiet=False))
