#!/usr/bin/env python3
"""Regression over /verif/seeded: every stored change must still be detected by the quick tier of the check of the property
it breaks (meta.json: breaks_property; for the C19 / C20 directories the property is taken from the directory name).

  lib/regress_seeded.py [--lanes N] [--only <substring>]

Works in scratch copies (git worktree of /repo + copy of /verif per lane under /tmp/rxv-regress, removed afterwards); /repo and
/verif/evidence are not touched. Writes seeded/REGRESSION.md and exits 1 if a change is no longer detected."""
import argparse
import json
import os
import shutil
import subprocess
import sys
import threading
import time

VERIF = os.path.dirname(os.path.dirname(os.path.abspath(__file__)))
REPO = "/repo"


def sh(cmd, cwd=None, env=None, timeout=None):
    try:
        r = subprocess.run(cmd, cwd=cwd, env=env, stdout=subprocess.PIPE, stderr=subprocess.STDOUT, text=True, timeout=timeout)
        return r.returncode, r.stdout
    except subprocess.TimeoutExpired:
        return 124, ""


def prop_of(d):
    mp = os.path.join(VERIF, "seeded", d, "meta.json")
    if os.path.exists(mp):
        try:
            m = json.load(open(mp))
            return m.get("regression_check") or m.get("breaks_property")  # regression_check: the check that owns the observable
        except Exception:
            pass
    return d.split("-")[0][:3]


def main():
    ap = argparse.ArgumentParser()
    ap.add_argument("--lanes", type=int, default=2)
    ap.add_argument("--only", default="")
    a = ap.parse_args()
    items = [d for d in sorted(os.listdir(os.path.join(VERIF, "seeded"))) if os.path.exists(os.path.join(VERIF, "seeded", d, "patch.diff")) and a.only in d]
    queue = list(items)
    results = {}
    lock = threading.Lock()
    scratch = "/tmp/rxv-regress"
    shutil.rmtree(scratch, ignore_errors=True)

    def lane(idx):
        root = os.path.join(scratch, "lane%d" % idx)
        repo, verif = os.path.join(root, "repo"), os.path.join(root, "verif")
        os.makedirs(root)
        rc, out = sh(["git", "-C", REPO, "worktree", "add", "-q", "--detach", repo, "HEAD"])
        os.makedirs(verif)
        sh(["sh", "-c", "git -C %s ls-files -z | (cd %s && xargs -0 cp --parents -t %s)" % (VERIF, VERIF, verif)])
        env = dict(os.environ, RXV_REPO=repo, VERIF_SEED="1", VERIF_TIER="quick")
        while True:
            with lock:
                if not queue:
                    break
                d = queue.pop(0)
            prop = prop_of(d)
            sh(["git", "-C", repo, "checkout", "--", "."])
            rc, out = sh(["git", "-C", repo, "apply", os.path.join(VERIF, "seeded", d, "patch.diff")])
            if rc != 0:
                with lock:
                    results[d] = (prop, "patch does not apply", [])
                continue
            t0 = time.time()
            rc, out = sh([os.path.join(verif, "check"), prop], cwd=verif, env=env, timeout=3600)
            keys = [l.strip()[5:].strip() for l in out.splitlines() if l.strip().startswith("key:")][:3]
            verdict = "detected" if rc == 1 else ("NOT DETECTED" if rc == 0 else "no verdict (exit %d)" % rc)
            with lock:
                results[d] = (prop, verdict, keys)
                sys.stderr.write("[lane %d] %s -> %s %s (%.0fs)\n" % (idx, d, prop, verdict, time.time() - t0))
        sh(["git", "-C", REPO, "worktree", "remove", "--force", repo])

    th = [threading.Thread(target=lane, args=(i,)) for i in range(a.lanes)]
    for t in th:
        t.start()
    for t in th:
        t.join()
    shutil.rmtree(scratch, ignore_errors=True)
    sh(["git", "-C", REPO, "worktree", "prune"])
    lines = ["# Regression of the stored seeded changes against the current checks", "",
             "`lib/regress_seeded.py`: each change applied to a scratch copy of /repo, quick tier of the check of the property it breaks.", "",
             "| seeded change | check | result | first keys |", "|---|---|---|---|"]
    bad = 0
    for d in items:
        prop, verdict, keys = results.get(d, ("?", "not run", []))
        if verdict != "detected":
            bad += 1
        lines.append("| %s | %s | %s | %s |" % (d, prop, verdict, "; ".join(k[:90] for k in keys)))
    lines.append("")
    lines.append("%d of %d detected." % (len(items) - bad, len(items)))
    if not a.only:
        open(os.path.join(VERIF, "seeded", "REGRESSION.md"), "w").write("\n".join(lines) + "\n")
    print("\n".join(lines[-3:]))
    return 1 if bad else 0


if __name__ == "__main__":
    sys.exit(main())
