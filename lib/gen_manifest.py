#!/usr/bin/env python3
"""Regenerates /verif/MANIFEST.json from lib/checks.py (single source of truth)."""
import json
import os
import sys

sys.path.insert(0, os.path.dirname(os.path.dirname(os.path.abspath(__file__))))
from lib import checks  # noqa: E402

VERIF = os.path.dirname(os.path.dirname(os.path.abspath(__file__)))
props = [json.loads(l)["id"] for l in open(os.path.join(VERIF, "properties.jsonl"))]

m = {
    "version": 1,
    "setup_cmd": "./setup.sh",
    "hooks": {
        "guard": "RANDOMX_VERIF",
        "enable": "lib/build.py configures one cmake/ninja tree per variant under /verif/.build/<variant> from /repo's current working tree with -DRANDOMX_VERIF in CMAKE_C_FLAGS/CMAKE_CXX_FLAGS (variants: opt, asan, tsan, port, xjit, xjit_asan; cov is a diagnostic build used by no check)",
        "baseline_off_cmd": "lib/baseline_off.sh",
        "source_commits": checks.HOOK_COMMITS,
        "add_only": True,
    },
    "engines": [
        {"name": "rxv", "path": "harness/", "serves_properties": sorted(checks.CHECKS), "kind_free_text": "C++ workload + monitor harness linked against the hooked library, link-time interposition of posix_memalign/free/mmap/munmap/mprotect, guard-page allocator, fault injection, sanitizer builds (gcc ASan+UBSan, TSan)"},
        {"name": "model", "path": "model/", "serves_properties": checks.MODEL_PROPERTIES, "kind_free_text": "independent executable reference model (Blake2b, AES rounds, Argon2d, SuperscalarHash, RandomX VM with software floating point) used as a runtime oracle next to the real code"},
    ],
    "checks": [],
    "not_applicable": [],
    "notes": "All checks are runtime monitors over executions of the real code rebuilt from /repo's working tree; see DESIGN.md. Exit 0 held / 1 violation / 2 inconclusive or harness failure.",
}
for p in props:
    if p in checks.CHECKS:
        c = checks.CHECKS[p]
        m["checks"].append({
            "property_id": p,
            "quick_cmd": "./check %s --tier quick" % p,
            "thorough_cmd": "./check %s --tier thorough" % p,
            "evidence_file": "evidence/%s.json" % p,
            "replay_cmd_template": "./check %s --replay {path}" % p,
            "engine": "rxv",
            "level_claimed": {"category": c["level"], "text": c["level_text"], "design_ref": c.get("design_ref", "DESIGN.md section 4, " + p)},
            "level_note": c["level_note"],
            "technique": c["technique"],
        })
    else:
        m["not_applicable"].append({"property_id": p, "reason": checks.NOT_CLAIMED.get(p, "check not built yet in this round; no verdict is claimed")})
json.dump(m, open(os.path.join(VERIF, "MANIFEST.json"), "w"), indent=1)
print("MANIFEST.json: %d checks, %d not claimed" % (len(m["checks"]), len(m["not_applicable"])))
