"""Check driver: builds the variants a property needs, fans out harness shards, collects their JSON-lines
output and sanitizer logs, matches violation keys against known_findings.txt, writes the evidence file and
prints VIOLATION / KNOWN-FINDING lines.  Exit: 0 held, 1 violation, 2 harness failure / inconclusive."""
import hashlib
import json
import os
import re
import shutil
import struct
import subprocess
import sys
import time
from concurrent.futures import ThreadPoolExecutor

from . import build as B

VERIF = B.VERIF
RUN_ROOT = os.path.join(B.BUILD_ROOT, "run")
EVIDENCE = os.environ.get("RXV_EVIDENCE_DIR") or os.path.join(VERIF, "evidence")  # the override is used by lib/coverage_report.py only
REPLAYS = os.path.join(VERIF, "replays")
FINDINGS = os.path.join(VERIF, "known_findings.txt")
NCPU = os.cpu_count() or 16


class Inconclusive(Exception):
    pass


def load_findings(prop):
    open_keys = {}
    if os.path.exists(FINDINGS):
        for line in open(FINDINGS):
            line = line.strip()
            m = re.match(r"open:\s+property=(\S+)\s+key=(\S+)\s*(.*)", line)
            if m and m.group(1) == prop:
                open_keys[m.group(2)] = m.group(3)
    return open_keys


SAN_ENV = {
    "asan": {"ASAN_OPTIONS": "abort_on_error=1:detect_leaks=1:allocator_may_return_null=1:log_path={log}.asan:handle_abort=1",
             "UBSAN_OPTIONS": "print_stacktrace=1:halt_on_error=1:log_path={log}.ubsan",
             "LSAN_OPTIONS": "log_path={log}.lsan"},
    "xjit_asan": {"ASAN_OPTIONS": "abort_on_error=1:detect_leaks=0:allocator_may_return_null=1:log_path={log}.asan:handle_abort=1",
                  "UBSAN_OPTIONS": "print_stacktrace=1:halt_on_error=1:log_path={log}.ubsan"},
    "tsan": {"TSAN_OPTIONS": "halt_on_error=0:log_path={log}.tsan:second_deadlock_stack=1:history_size=4"},
}

FRAME_RE = re.compile(r"^\s+#\d+\s+(?:0x[0-9a-f]+\s+)?(?:in\s+)?(.+?)\s+(/[^\s:]+):(\d+)")


def _frames(block_lines):
    """Returns [(function, file)] for frames whose source lies under the repo."""
    out = []
    for ln in block_lines:
        m = FRAME_RE.match(ln)
        if not m:
            continue
        fn, path = m.group(1), m.group(2)
        fn = re.sub(r"\(.*$", "", fn)          # drop argument list
        fn = re.sub(r"<.*>", "<>", fn)          # drop template arguments
        if path.startswith(B.REPO.rstrip("/") + "/src/") or (os.environ.get("VP_RUN_REPO") and path.startswith(os.environ["VP_RUN_REPO"].rstrip("/") + "/src/")):
            out.append((fn, os.path.basename(path)))
    return out


def parse_sanitizer_text(tool, text):
    """Returns [(key, text, in_repo)] for the reports found in one sanitizer log (or a stderr capture)."""
    reports = []
    if tool == "tsan":
        blocks = re.split(r"(?m)^={18}\n", text)
        for blk in blocks:
            m = re.search(r"WARNING: ThreadSanitizer: ([^\n(]+)", blk)
            if not m:
                continue
            kind = m.group(1).strip().replace(" ", "-")
            # split into the stacks of the two accesses; innermost repo frame of each
            parts = re.split(r"(?m)^\s*(?:Previous|Write|Read|Atomic)[^\n]*\n", blk)
            inner = []
            for p in parts:
                fr = _frames(p.splitlines())
                if fr:
                    inner.append(fr[0][0])
            inner = sorted(set(inner[:2])) if inner else ["no-repo-frame"]
            loc = re.search(r"Location is global '([^']+)'", blk)
            key = "tsan:%s:%s%s" % (kind, "|".join(inner), (":" + loc.group(1)) if loc else "")
            in_repo = inner != ["no-repo-frame"]
            reports.append((key, blk[:6000], in_repo))
        return reports
    lines = text.splitlines()
    m = re.search(r"ERROR: (?:AddressSanitizer|LeakSanitizer): ([^\n]+)", text)
    if m:
        kind = m.group(1).split(" on ")[0].split(":")[0].strip().replace(" ", "-")
        if kind.startswith("detected-memory-leaks"):
            kind = "memory-leak"
    else:
        m2 = re.search(r"runtime error: ([^\n]+)", text)
        if not m2:
            if "DEADLYSIGNAL" in text:
                kind = "deadly-signal"
            else:
                return reports
        else:
            kind = "ubsan-" + re.sub(r"[^a-z]+", "-", m2.group(1).lower())[:60].strip("-")
    fr = _frames(lines)
    site = "|".join(f[0] for f in fr[:2]) if fr else "no-repo-frame"
    if not fr:
        m3 = re.search(r"(/\S+/src/(\S+?)):(\d+):(\d+): runtime error", text)
        if m3:
            site = m3.group(2)
    loc = re.search(r"(?m)^(/\S+?):\d+:\d+: runtime error", text)
    in_repo = bool(fr) or (loc is not None and loc.group(1).startswith(B.REPO.rstrip("/") + "/"))
    reports.append(("%s:%s:%s" % (tool, kind, site), text[:8000], in_repo))
    return reports


def parse_sanitizer_logs(prefix):
    """Returns a list of (key, text, in_repo) for every distinct report found in files starting with `prefix`."""
    d = os.path.dirname(prefix)
    base = os.path.basename(prefix)
    reports = []
    for fn in sorted(os.listdir(d)):
        if not fn.startswith(base + "."):
            continue
        tool = fn[len(base) + 1:].split(".")[0]
        if tool not in ("asan", "ubsan", "lsan", "tsan"):
            continue
        if tool == "lsan":
            tool = "asan"  # gcc's runtimes share the log_path flag: ASan reports may land in the file named for LSan
        reports += parse_sanitizer_text(tool, open(os.path.join(d, fn), errors="replace").read())
    return reports


_DEMANGLE_CACHE = {}


def demangle(sym):
    """Function name without arguments / template arguments, for stable violation keys."""
    if sym not in _DEMANGLE_CACHE:
        name = sym
        try:
            name = subprocess.run(["c++filt", sym], stdout=subprocess.PIPE, text=True, timeout=10).stdout.strip() or sym
        except Exception:
            pass
        name = re.sub(r"\(.*$", "", name)
        name = re.sub(r"<[^<>]*>", "<>", name)
        name = re.sub(r"<[^<>]*>", "<>", name)
        _DEMANGLE_CACHE[sym] = name.split(" ")[-1]
    return _DEMANGLE_CACHE[sym]


def run_shard(cmd, env, timeout):
    t0 = time.time()
    try:
        r = subprocess.run(cmd, env=env, stdout=subprocess.PIPE, stderr=subprocess.PIPE, text=True, timeout=timeout, errors="replace")
        return r.returncode, r.stdout, r.stderr, time.time() - t0, False
    except subprocess.TimeoutExpired as e:
        return -999, "", "timeout", time.time() - t0, True


def read_jsonl(path):
    recs = []
    if not os.path.exists(path):
        return recs
    with open(path, errors="replace") as f:
        for line in f:
            line = line.strip()
            if not line:
                continue
            try:
                recs.append(json.loads(line))
            except ValueError:
                recs.append({"type": "garbled", "line": line[:200]})
    return recs


def merge_summary(agg, s):
    agg["evaluations"] += s.get("evaluations", 0)
    for k, v in s.get("counters", {}).items():
        agg["counters"][k] = agg["counters"].get(k, 0) + v
    for k, v in s.get("maxima", {}).items():
        agg["maxima"][k] = max(agg["maxima"].get(k, 0), v)
    for k, v in s.get("minima", {}).items():
        agg["minima"][k] = min(agg["minima"].get(k, v), v)
    for k, v in s.get("notes", {}).items():
        agg["notes"].setdefault(k, v)
    for k in s.get("floors", []):
        agg["floors"].add(k)
    for smp in s.get("samples", []):
        if len(agg["samples"]) < 8:
            agg["samples"].append(smp)


def run_check(prop, cfg, tier, seed, replay=None):
    t_start = time.time()
    known = load_findings(prop)
    rundir = os.path.join(RUN_ROOT, prop)
    shutil.rmtree(rundir, ignore_errors=True)
    os.makedirs(rundir)
    os.makedirs(EVIDENCE, exist_ok=True)

    jobs = cfg["jobs"](tier) if callable(cfg["jobs"]) else cfg["jobs"]
    variants = []
    for j in jobs:
        if j["variant"] not in variants:
            variants.append(j["variant"])
    bins = {}
    try:
        for v in variants:
            bins[v] = B.build(v)
    except B.BuildError as e:
        sys.stderr.write(str(e) + "\n")
        raise Inconclusive("build failed")

    # hook neutrality (published test vectors) on the first non-tsan variant
    for v in variants:
        if v != "tsan":
            rc, out, err, _, _ = run_shard([bins[v], "sanity", "--out", os.path.join(rundir, "sanity.jsonl")], dict(os.environ), 600)
            if rc != 0:
                sys.stderr.write(err[-2000:] + "\n")
                raise Inconclusive("sanity (published test vectors with idle hooks) failed for variant %s" % v)
            break

    agg = {"evaluations": 0, "counters": {}, "maxima": {}, "minima": {}, "notes": {}, "floors": set(), "samples": []}
    nontrivial = set()
    violations = []   # (key, replay-dict)
    failures = []
    job_summaries = []
    extra_records = []

    tasks = []
    override = os.environ.get("RXV_VARIANT_OVERRIDE")  # coverage measurement only: run the opt / asan / tsan jobs on another build
    if override:
        jobs = [dict(j, variant=override) for j in jobs if j["variant"] in ("opt", "asan", "tsan") and not j.get("valgrind")]
        for v in set(j["variant"] for j in jobs):
            if v not in bins:
                bins[v] = B.build(v)
    for ji, j in enumerate(jobs):
        n = j.get("shards", 1)
        if n <= 0:
            continue
        for s in range(n):
            out = os.path.join(rundir, "j%d-s%d.jsonl" % (ji, s))
            hashes = os.path.join(rundir, "j%d-s%d.hashes" % (ji, s))
            log = os.path.join(rundir, "j%d-s%d" % (ji, s))
            cmd = [bins[j["variant"]], j["sub"], "--seed", str(seed), "--shard", str(s), "--nshards", str(n), "--tier", tier,
                   "--out", out, "--hashes", hashes]
            if j.get("valgrind"):
                # valgrind memcheck translates generated (JIT) code too: a second opinion on its memory accesses. Values computed
                # under valgrind are not judged (its FP rounding emulation differs); only memcheck errors are.
                cmd = ["valgrind", "--tool=memcheck", "--error-exitcode=9", "--smc-check=all-non-file", "--num-callers=12",
                       "--log-file=" + log + ".valgrind"] + cmd
            if "cases" in j:
                cmd += ["--cases", str(j["cases"])]
            for k, v in j.get("args", {}).items():
                cmd += ["--" + k, str(v)]
            env = dict(os.environ)
            for k, v in SAN_ENV.get(j["variant"], {}).items():
                env[k] = v.format(log=log)
            for k, v in j.get("env", {}).items():
                env[k] = v
            tasks.append({"job": ji, "shard": s, "cmd": cmd, "env": env, "out": out, "hashes": hashes, "log": log,
                          "timeout": j.get("timeout", 3600), "variant": j["variant"], "weight": j.get("weight", 1)})

    # run with bounded parallelism (weight = how many cores / how much memory a shard needs)
    par = cfg.get("parallel", NCPU)

    def runner(t):
        rc, out, err, wall, timed_out = run_shard(t["cmd"], t["env"], t["timeout"])
        if timed_out:  # watchdog: re-run once alone-ish before calling it inconclusive
            rc, out, err, wall, timed_out = run_shard(t["cmd"], t["env"], t["timeout"])
        return t, rc, out, err, wall, timed_out

    with ThreadPoolExecutor(max_workers=max(1, par)) as ex:
        results = list(ex.map(runner, tasks))

    for t, rc, out, err, wall, timed_out in results:
        recs = read_jsonl(t["out"])
        summ = None
        shard_viol = 0
        case_hint = None
        for r in recs:
            ty = r.get("type")
            if ty == "violation":
                shard_viol += 1
                rp = r.get("replay") or {}
                if r.get("key", "").startswith("crash:") and isinstance(rp, dict) and rp.get("pc_symbol"):
                    r["key"] = r["key"] + ":" + demangle(rp["pc_symbol"])
                rp["_cmd"] = t["cmd"]
                rp["_variant"] = t["variant"]
                violations.append((r.get("key", "?"), rp))
            elif ty == "harness_failure":
                failures.append("job %d shard %d: %s" % (t["job"], t["shard"], r.get("why")))
            elif ty == "summary":
                summ = r
            elif ty == "sanitizer_case":
                case_hint = r.get("case")
            elif ty not in ("start",):
                r["_variant"] = t["variant"]
                r["_job"] = t["job"]
                extra_records.append(r)
        # sanitizer logs
        san_found = False
        if t["variant"] in SAN_ENV:
            found = parse_sanitizer_logs(t["log"])
            if not found and err and t["variant"] != "tsan" and ("runtime error:" in err or "ERROR: AddressSanitizer" in err):
                # gcc's UBSan ignores log_path when it shares the process with ASan: the report is on stderr
                found = parse_sanitizer_text("asan" if "ERROR: AddressSanitizer" in err else "ubsan", err)
            for key, text, in_repo in found:
                san_found = True
                if in_repo:
                    violations.append((key, {"sanitizer_log": text, "case": case_hint, "_cmd": t["cmd"], "_variant": t["variant"]}))
                else:
                    failures.append("job %d shard %d: sanitizer report outside the repository sources: %s" % (t["job"], t["shard"], key))
        vg = t["log"] + ".valgrind"
        if os.path.exists(vg):
            text = open(vg, errors="replace").read()
            blocks = re.split(r"(?m)^==\d+== \n", text)
            for blk in blocks:
                m = re.search(r"==\d+== (Invalid (?:read|write) of size \d+|Conditional jump or move depends on uninitialised value|Use of uninitialised value of size \d+|Invalid free|Mismatched free|Syscall param [^\n]*uninitialised|Source and destination overlap)", blk)
                if not m:
                    continue
                san_found = True
                kind = re.sub(r"\s+", "-", m.group(1).lower())[:60]
                fr = re.findall(r"(?:at|by) 0x[0-9A-F]+: (\S+)", blk)
                repo_fr = [f for f in fr if f.startswith("randomx") or f == "???"]
                site = repo_fr[0] if repo_fr else (fr[0] if fr else "?")
                site = re.sub(r"\(.*$", "", site)
                in_harness_only = bool(fr) and all(("rxv::" in f or f.startswith("sub_") or f in ("main", "memcpy", "memset", "memcmp")) for f in fr[:3]) and not repo_fr
                if in_harness_only:
                    failures.append("job %d shard %d: valgrind error in harness code: %s" % (t["job"], t["shard"], kind))
                else:
                    violations.append(("valgrind:%s:%s" % (kind, "generated-code" if site == "???" else site), {"valgrind_log": blk[:4000], "case": case_hint, "_cmd": t["cmd"], "_variant": t["variant"]}))
        if timed_out:
            failures.append("job %d shard %d: watchdog fired twice (%ds)" % (t["job"], t["shard"], t["timeout"]))
        elif summ is None and shard_viol == 0 and not san_found:
            failures.append("job %d shard %d: exited with status %s without a summary; stderr tail: %s" % (t["job"], t["shard"], rc, err[-800:].replace("\n", " | ")))
        elif rc == 2:
            failures.append("job %d shard %d: harness failure (exit 2); stderr tail: %s" % (t["job"], t["shard"], err[-800:].replace("\n", " | ")))
        if summ:
            merge_summary(agg, summ)
            if summ.get("violations", 0) > shard_viol:
                pass  # records beyond the per-file cap are counted only
        if os.path.exists(t["hashes"]):
            data = open(t["hashes"], "rb").read()
            nontrivial.update(struct.unpack("<%dQ" % (len(data) // 8), data[:len(data) // 8 * 8]))
        job_summaries.append({"job": t["job"], "shard": t["shard"], "variant": t["variant"], "sub": t["cmd"][1], "exit": rc,
                              "wall_s": round(wall, 2), "evaluations": (summ or {}).get("evaluations", 0)})

    post = cfg.get("post")
    if post:
        post(agg, extra_records, violations, failures, tier)

    # classify violations
    new_keys, known_hits = {}, {}
    for key, rp in violations:
        if key in known:
            known_hits.setdefault(key, rp)
        else:
            new_keys.setdefault(key, rp)

    # coverage floors
    missing = [k for k in sorted(agg["floors"]) if agg["counters"].get(k, 0) == 0 and agg["maxima"].get(k, 0) == 0]
    for k in cfg.get("floors", []):
        if agg["counters"].get(k, 0) == 0 and agg["maxima"].get(k, 0) == 0 and k not in missing:
            missing.append(k)

    replay_paths = {}
    if new_keys:
        os.makedirs(REPLAYS, exist_ok=True)
        for key, rp in new_keys.items():
            h = hashlib.sha1(key.encode()).hexdigest()[:10]
            path = os.path.join(REPLAYS, "%s-%s.json" % (prop, h))
            with open(path, "w") as f:
                json.dump({"property": prop, "key": key, "tier": tier, "seed": seed, "replay": rp}, f, indent=1, default=str)
            replay_paths[key] = path

    cov = {
        "evaluations": int(agg["evaluations"]),
        "distinct_nontrivial": len(nontrivial),
        "rule": cfg["rule"],
        "samples": agg["samples"][:8] if agg["samples"] else [],
        "counters": agg["counters"],
        "maxima": agg["maxima"],
        "minima": agg["minima"],
        "notes": agg["notes"],
        "floors_required": sorted(set(list(agg["floors"]) + cfg.get("floors", []))),
        "floors_missing": missing,
        "shards": job_summaries,
        "violation_keys": sorted(new_keys),
        "known_finding_keys": sorted(known_hits),
        "harness_failures": failures[:20],
    }
    if cfg.get("exhaustive") and not failures and not missing:
        cov["exhaustive"] = True
    for k, v in cfg.get("coverage_extra", {}).items():
        cov[k] = v
    ev = {
        "property_id": prop, "tier": tier, "seed": int(seed), "level": cfg["level"], "coverage": cov,
        "assumptions": cfg.get("assumptions", []), "wall_s": round(time.time() - t_start, 2), "violations": len(new_keys),
    }
    with open(os.path.join(EVIDENCE, prop + ".json"), "w") as f:
        json.dump(ev, f, indent=1, default=str)
        f.write("\n")

    for key, desc in known_hits.items():
        print("KNOWN-FINDING: property=%s %s" % (prop, key))
    if new_keys:
        for key in sorted(new_keys):
            print("VIOLATION property=%s replay=%s" % (prop, replay_paths[key]))
            print("  key: %s" % key)
        return 1
    if failures:
        for fmsg in failures[:10]:
            sys.stderr.write("harness: %s\n" % fmsg)
        return 2
    if missing:
        sys.stderr.write("inconclusive: coverage floor not reached: %s\n" % ", ".join(missing))
        return 2
    if not cov["samples"]:
        sys.stderr.write("inconclusive: the run recorded no sample cases\n")
        return 2
    if cov["evaluations"] < 1 or cov["distinct_nontrivial"] < 2:
        sys.stderr.write("inconclusive: too few cases observed (evaluations=%d, distinct_nontrivial=%d)\n" % (cov["evaluations"], cov["distinct_nontrivial"]))
        return 2
    print("%s %s held on %d evaluations (%d distinct non-trivial cases), %.1fs" % (prop, tier, cov["evaluations"], cov["distinct_nontrivial"], ev["wall_s"]))
    return 0


def replay(prop, cfg, path):
    rec = json.load(open(path))
    rp = rec.get("replay", {})
    cmd = rp.get("_cmd")
    if not cmd:
        sys.stderr.write("replay file has no command\n")
        return 2
    variant = rp.get("_variant", "opt")
    binp = B.build(variant)
    cmd = [binp] + cmd[1:]
    rundir = os.path.join(RUN_ROOT, prop + "-replay")
    shutil.rmtree(rundir, ignore_errors=True)
    os.makedirs(rundir)
    out = os.path.join(rundir, "replay.jsonl")
    cmd = [c for c in cmd]
    for i, c in enumerate(cmd):
        if c == "--out":
            cmd[i + 1] = out
        if c == "--hashes":
            cmd[i + 1] = os.path.join(rundir, "replay.hashes")
    env = dict(os.environ)
    log = os.path.join(rundir, "replay")
    for k, v in SAN_ENV.get(variant, {}).items():
        env[k] = v.format(log=log)
    rc, o, e, wall, to = run_shard(cmd, env, 7200)
    keys = [r.get("key") for r in read_jsonl(out) if r.get("type") == "violation"]
    if variant in SAN_ENV:
        keys += [k for k, _, _ in parse_sanitizer_logs(log)]
    if rec["key"] in keys:
        print("VIOLATION property=%s replay=%s" % (prop, path))
        print("  key: %s (reproduced)" % rec["key"])
        return 1
    print("not reproduced: %s (keys seen: %s)" % (rec["key"], keys[:5]))
    return 0
