#!/usr/bin/env python3
"""Which lines of /repo/src do the quick tiers of all checks execute?  (diagnostic, not a registered check)

  lib/coverage_report.py run      builds the `cov` variant (-O0 --coverage), clears its counters and runs the opt / asan / tsan
                                  jobs of every check's quick tier on it (evidence goes to a scratch directory)
  lib/coverage_report.py report   runs gcov over the counters and prints, per repository source file, the share of executed
                                  lines and the ranges never executed; writes coverage/uncovered.txt

Only the x86 host build is measured (the a64 / rv64 emitters and the portable build have their own binaries)."""
import glob
import os
import re
import shutil
import subprocess
import sys

VERIF = os.path.dirname(os.path.dirname(os.path.abspath(__file__)))
sys.path.insert(0, VERIF)
from lib import build as B, checks  # noqa: E402

COVDIR = os.path.join(B.BUILD_ROOT, "cov")


def run():
    B.build("cov", quiet=False)
    for f in glob.glob(os.path.join(COVDIR, "**", "*.gcda"), recursive=True):
        os.remove(f)
    scratch_ev = os.path.join(B.BUILD_ROOT, "cov-evidence")
    shutil.rmtree(scratch_ev, ignore_errors=True)
    os.makedirs(scratch_ev)
    env = dict(os.environ, RXV_VARIANT_OVERRIDE="cov", RXV_EVIDENCE_DIR=scratch_ev, VERIF_SEED="1", VERIF_TIER="quick")
    for c in sorted(checks.CHECKS):
        if c in ("C19", "C20", "C17"):
            continue
        r = subprocess.run([os.path.join(VERIF, "check"), c], cwd=VERIF, env=env, stdout=subprocess.PIPE, stderr=subprocess.STDOUT, text=True)
        print(c, "exit", r.returncode, r.stdout.strip().splitlines()[-1][:160] if r.stdout.strip() else "")
    return 0


def report():
    work = os.path.join(B.BUILD_ROOT, "cov-gcov")
    shutil.rmtree(work, ignore_errors=True)
    os.makedirs(work)
    gcdas = [f for f in glob.glob(os.path.join(COVDIR, "**", "*.gcda"), recursive=True)]
    per_file = {}
    for g in gcdas:
        r = subprocess.run(["gcov", "-p", "-l", "-o", os.path.dirname(g), g], cwd=work, stdout=subprocess.PIPE, stderr=subprocess.STDOUT, text=True)
    for gc in glob.glob(os.path.join(work, "*.gcov")):
        src = None
        lines = {}
        for ln in open(gc, errors="replace"):
            m = re.match(r"\s*([^:]+):\s*(\d+):(.*)$", ln)
            if not m:
                continue
            cnt, no, text = m.group(1).strip(), int(m.group(2)), m.group(3)
            if no == 0:
                if text.startswith("Source:"):
                    src = os.path.normpath(text[7:].strip())
                continue
            if cnt == "-":
                continue
            hit = not cnt.startswith("#") and not cnt.startswith("=")
            lines[no] = lines.get(no, False) or hit
        if not src or not src.startswith(B.REPO.rstrip("/") + "/src/"):
            continue
        d = per_file.setdefault(src, {})
        for no, hit in lines.items():
            d[no] = d.get(no, False) or hit
    out = []
    tot_l = tot_h = 0
    for src in sorted(per_file):
        d = per_file[src]
        n, h = len(d), sum(1 for v in d.values() if v)
        tot_l += n; tot_h += h
        miss = sorted(no for no, v in d.items() if not v)
        ranges = []
        for no in miss:
            if ranges and no <= ranges[-1][1] + 2:
                ranges[-1][1] = no
            else:
                ranges.append([no, no])
        out.append("%-46s %5d / %5d lines executed (%.1f%%)" % (os.path.relpath(src, B.REPO), h, n, 100.0 * h / max(n, 1)))
        if ranges:
            out.append("      never executed: " + ", ".join("%d" % a if a == b else "%d-%d" % (a, b) for a, b in ranges))
    out.append("TOTAL %d / %d lines of %d repository files (%.1f%%)" % (tot_h, tot_l, len(per_file), 100.0 * tot_h / max(tot_l, 1)))
    os.makedirs(os.path.join(VERIF, "coverage"), exist_ok=True)
    open(os.path.join(VERIF, "coverage", "uncovered.txt"), "w").write("\n".join(out) + "\n")
    print("\n".join(out))
    return 0


if __name__ == "__main__":
    sys.exit(run() if sys.argv[1:] == ["run"] else report())
