#!/bin/sh
# Builds /repo with its own default flags (hook guard RANDOMX_VERIF *off*) in a throw-away directory,
# runs the repository's test suite, prints its per-test lines and removes the directory.
set -e
REPO=${RXV_REPO:-/repo}
D=$(mktemp -d /tmp/rxv-baseline-off.XXXXXX)
trap 'rm -rf "$D"' EXIT
cmake -G Ninja -S "$REPO" -B "$D" -DCMAKE_BUILD_TYPE=RelWithDebInfo >"$D/configure.log" 2>&1 || { cat "$D/configure.log"; exit 2; }
ninja -C "$D" randomx-tests >"$D/build.log" 2>&1 || { tail -50 "$D/build.log"; exit 2; }
if grep -rq "RANDOMX_VERIF" "$D/compile_commands.json" 2>/dev/null; then echo "guard unexpectedly on"; exit 2; fi
"$D/randomx-tests"
