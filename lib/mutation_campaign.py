#!/usr/bin/env python3
"""Automated one-token mutation campaign: how many small source changes that survive the repository's own
105 tests are caught by the quick tier of the checks responsible for the mutated file?

  lib/mutation_campaign.py --group <name> [--count N] [--seed S] [--lanes L] [--out mutation/<name>.jsonl]

Each lane owns a scratch git worktree of /repo and a scratch copy of /verif under --scratch (default /tmp/rxv-mut),
both removed at the end. /repo itself and /verif/evidence are never touched. One JSON line per mutant:
{file, line, operator, before, after, tests: passed|failed|timeout|build-failed|skipped, checks: {Cxx: exit}, verdict}.
verdict: killed-by-tests | detected | survived | inconclusive. Survivors need manual triage (many are equivalent)."""
import argparse
import json
import os
import random
import re
import shutil
import subprocess
import sys
import threading
import time

VERIF = os.path.dirname(os.path.dirname(os.path.abspath(__file__)))
REPO = "/repo"

GROUPS = {
    # group: (files, checks in the order they are tried, run the repository tests first?)
    "x86jit": (["src/jit_compiler_x86.cpp"], ["C04", "C07", "C06", "C09", "C08", "C16"], True),
    "x86asm": (["src/asm/program_prologue_linux.inc", "src/asm/program_loop_load.inc", "src/asm/program_loop_store.inc", "src/asm/program_loop_store_hard_aes.inc",
                "src/asm/program_loop_store_soft_aes.inc", "src/asm/program_read_dataset.inc", "src/asm/program_read_dataset_v2.inc", "src/asm/program_read_dataset_sshash_init.inc",
                "src/asm/program_read_dataset_sshash_fin.inc", "src/asm/program_epilogue_linux.inc", "src/asm/program_epilogue_store.inc", "src/asm/program_sshash_prefetch.inc",
                "src/asm/program_sshash_constants.inc", "src/asm/program_xmm_constants.inc", "src/asm/program_sshash_avx2_loop_begin.inc", "src/asm/program_sshash_avx2_loop_end.inc"],
               ["C04", "C01", "C08", "C13"], True),
    "interp": (["src/bytecode_machine.cpp", "src/bytecode_machine.hpp", "src/vm_interpreted.cpp", "src/vm_interpreted_light.cpp", "src/instruction.hpp"], ["C05", "C04", "C07", "C02"], True),
    "vmcore": (["src/virtual_machine.cpp", "src/vm_compiled.cpp", "src/vm_compiled_light.cpp", "src/randomx.cpp", "src/blake2_generator.cpp"], ["C02", "C03", "C01", "C13", "C04", "C16", "C15", "C14", "C08", "C11"], True),
    "dataset": (["src/dataset.cpp", "src/superscalar.cpp", "src/reciprocal.c"], ["C09", "C08", "C10", "C18", "C02", "C03"], True),
    "hashes": (["src/aes_hash.cpp", "src/soft_aes.cpp", "src/blake2/blake2b.c", "src/argon2_core.c", "src/argon2_ref.c", "src/argon2_ssse3.c", "src/argon2_avx2.c"], ["C12", "C11", "C10", "C02", "C03"], True),
    "memory": (["src/allocator.cpp", "src/virtual_memory.c"], ["C15", "C16", "C06", "C01"], True),
    "portable": (["src/instructions_portable.cpp", "src/intrin_portable.h"], ["C17", "C05", "C13"], True),
    "a64": (["src/jit_compiler_a64.cpp", "src/jit_compiler_a64_static.S"], ["C19"], False),
    "rv64": (["src/jit_compiler_rv64.cpp", "src/jit_compiler_rv64_static.S"], ["C20"], False),
}

ASM_SWAPS = [("add", "sub"), ("shl", "shr"), ("ror", "rol"), ("and", "or"), ("xor", "or"), ("lsl", "lsr"), ("eor", "orr"), ("sll", "srl"), ("slli", "srli"), ("andi", "ori"),
             ("addi", "xori"), ("addw", "subw"), ("mulh", "mulhu"), ("umulh", "smulh"), ("rorv", "lslv"), ("addpd", "subpd"), ("mulpd", "divpd"), ("paddq", "psubq")]


def code_sites(path, text):
    """Yields (line_no, operator, mutated_line) candidates for one file."""
    asm = path.endswith(".S") or path.endswith(".inc")
    out = []
    guard_depth = 0
    in_block_comment = False
    for no, line in enumerate(text.split("\n")):
        s = line.strip()
        if "RANDOMX_VERIF" in s and s.startswith("#if"):
            guard_depth = 1; continue
        if guard_depth:
            if s.startswith("#if"): guard_depth += 1
            elif s.startswith("#endif"): guard_depth -= 1
            continue
        if in_block_comment:
            if "*/" in s: in_block_comment = False
            continue
        if s.startswith("/*") and "*/" not in s:
            in_block_comment = True; continue
        if not s or s.startswith("//") or s.startswith("#") or s.startswith("*") or s.startswith(";") or s.startswith("/*"):
            continue
        code = line
        comment = ""
        for marker in ([";#", "//", "#"] if asm else ["//"]):
            k = code.find(marker)
            if k >= 0 and not (marker == "#" and not asm):
                comment = code[k:] + comment; code = code[:k]
        if not code.strip():
            continue

        def emit(op, new_code):
            if new_code != code:
                out.append((no, op, new_code + comment))

        # integer literals +-1
        for m in re.finditer(r"(?<![\w.])(0x[0-9a-fA-F]+|\d+)(?![\w.])", code):
            lit = m.group(1)
            try:
                v = int(lit, 16) if lit.lower().startswith("0x") else int(lit, 10)
            except ValueError:
                continue
            if lit.startswith("0") and len(lit) > 1 and not lit.lower().startswith("0x"):
                continue
            for d in (1, -1):
                nv = v + d
                if nv < 0: continue
                ns = ("0x%x" % nv) if lit.lower().startswith("0x") else str(nv)
                emit("literal%+d" % d, code[:m.start(1)] + ns + code[m.end(1):])
        if asm:
            m = re.match(r"^(\s*)([a-z][a-z0-9.]*)(\s+.*)$", code)
            if m:
                for a, b in ASM_SWAPS:
                    if m.group(2) == a: emit("mnemonic:%s->%s" % (a, b), m.group(1) + b + m.group(3))
                    if m.group(2) == b: emit("mnemonic:%s->%s" % (b, a), m.group(1) + a + m.group(3))
            continue
        for a, b in ((" + ", " - "), (" - ", " + "), (" << ", " >> "), (" >> ", " << "), (" == ", " != "), (" != ", " == "), (" && ", " || "), (" || ", " && "),
                     (" & ", " | "), (" | ", " & "), (" += ", " -= "), (" -= ", " += "), (" ^ ", " | "), (" ^= ", " |= "), (" * ", " + ")):
            start = 0
            while True:
                k = code.find(a, start)
                if k < 0: break
                emit("op:%s->%s" % (a.strip(), b.strip()), code[:k] + b + code[k + len(a):])
                start = k + len(a)
        if re.search(r"\b(if|while|for)\s*\(", code):
            for a, b in ((" < ", " <= "), (" <= ", " < "), (" > ", " >= "), (" >= ", " > ")):
                k = code.find(a)
                if k >= 0: emit("rel:%s->%s" % (a.strip(), b.strip()), code[:k] + b + code[k + len(a):])
        for a, b in (("true", "false"), ("false", "true")):
            m = re.search(r"\b%s\b" % a, code)
            if m: emit("bool:%s->%s" % (a, b), code[:m.start()] + b + code[m.end():])
        if re.match(r"^\s*[A-Za-z_][\w:.\[\]]*(->[\w]+)*\s*\(.*\);\s*$", code) and not re.match(r"^\s*(return|if|while|for|switch|else|throw|static_assert|assert)\b", code):
            emit("delete-call-statement", re.match(r"^\s*", code).group(0) + ";")
        m = re.match(r"^(\s*)([\w.\[\]>-]+(?:\[[^\]]*\])?)\s*=\s*[^=].*;\s*$", code)
        if m and not re.match(r"^\s*(const|auto|int|uint\w*|size_t|unsigned|bool|static|constexpr)\b", code) and "(" not in m.group(2):
            emit("delete-assignment", m.group(1) + ";")
    return out


def sh(cmd, cwd=None, env=None, timeout=None):
    try:
        r = subprocess.run(cmd, cwd=cwd, env=env, stdout=subprocess.PIPE, stderr=subprocess.STDOUT, text=True, timeout=timeout)
        return r.returncode, r.stdout
    except subprocess.TimeoutExpired as e:
        return 124, (e.stdout or "") if isinstance(e.stdout, str) else ""


class Lane(threading.Thread):
    def __init__(self, idx, scratch, queue, lock, outf, checks, run_tests, check_timeout):
        super().__init__()
        self.idx, self.queue, self.lock, self.outf, self.checks, self.run_tests, self.check_timeout = idx, queue, lock, outf, checks, run_tests, check_timeout
        self.root = os.path.join(scratch, "lane%d" % idx)
        self.repo = os.path.join(self.root, "repo")
        self.verif = os.path.join(self.root, "verif")

    def setup(self):
        os.makedirs(self.root, exist_ok=True)
        rc, out = sh(["git", "-C", REPO, "worktree", "add", "-q", "--detach", self.repo, "HEAD"])
        if rc: raise RuntimeError(out)
        os.makedirs(self.verif)
        rc, out = sh("git -C %s archive HEAD | tar -x -C %s" % (VERIF, self.verif) if False else ["sh", "-c", "git -C %s ls-files -z | (cd %s && xargs -0 cp --parents -t %s)" % (VERIF, VERIF, self.verif)])
        if rc: raise RuntimeError(out)
        if self.run_tests:
            rc, out = sh(["cmake", "-G", "Ninja", "-S", self.repo, "-B", os.path.join(self.repo, "_build"), "-DCMAKE_BUILD_TYPE=RelWithDebInfo"])
            if rc: raise RuntimeError(out)
            rc, out = sh(["ninja", "-C", os.path.join(self.repo, "_build"), "randomx-tests"])
            if rc: raise RuntimeError(out[-2000:])

    def run(self):
        while True:
            with self.lock:
                if not self.queue: return
                mut = self.queue.pop(0)
            rec = dict(mut); rec["lane"] = self.idx
            t0 = time.time()
            path = os.path.join(self.repo, mut["file"])
            sh(["git", "-C", self.repo, "checkout", "--", "."])
            lines = open(path).read().split("\n")
            assert lines[mut["line"]] == mut["before"], (mut, lines[mut["line"]])
            lines[mut["line"]] = mut["after"]
            open(path, "w").write("\n".join(lines))
            rec["tests"] = "skipped"
            if self.run_tests:
                rc, out = sh(["ninja", "-C", os.path.join(self.repo, "_build"), "randomx-tests"], timeout=900)
                if rc:
                    rec["tests"] = "build-failed"
                else:
                    rc, out = sh([os.path.join(self.repo, "_build", "randomx-tests")], timeout=600)
                    rec["tests"] = "passed" if rc == 0 and "All tests PASSED" in out else ("timeout" if rc == 124 else "failed")
            rec["checks"] = {}; rec["keys"] = []
            verdict = "killed-by-tests" if rec["tests"] in ("failed", "timeout") else ("does-not-compile" if rec["tests"] == "build-failed" else None)
            if verdict is None:
                env = dict(os.environ, RXV_REPO=self.repo, VERIF_SEED="1", VERIF_TIER="quick")
                verdict = "survived"
                for c in self.checks:
                    rc, out = sh([os.path.join(self.verif, "check"), c], cwd=self.verif, env=env, timeout=self.check_timeout)
                    rec["checks"][c] = rc
                    if rc == 1:
                        rec["keys"] = [l.strip()[5:].strip() for l in out.splitlines() if l.strip().startswith("key:")][:4]
                        verdict = "detected"; break
                    if rc != 0:
                        rec.setdefault("inconclusive_tail", {})[c] = out[-400:]
                if verdict == "survived" and any(v not in (0, 1) for v in rec["checks"].values()):
                    verdict = "does-not-compile" if any("build failed" in t for t in rec.get("inconclusive_tail", {}).values()) else "inconclusive"
            rec["verdict"] = verdict; rec["seconds"] = round(time.time() - t0, 1)
            with self.lock:
                self.outf.write(json.dumps(rec) + "\n"); self.outf.flush()
                sys.stderr.write("[lane %d] %s:%d %s -> %s (%s) %.0fs\n" % (self.idx, mut["file"], mut["line"] + 1, mut["operator"], verdict, ",".join("%s=%s" % kv for kv in rec["checks"].items()), rec["seconds"]))

    def teardown(self):
        sh(["git", "-C", REPO, "worktree", "remove", "--force", self.repo])
        shutil.rmtree(self.root, ignore_errors=True)


def main():
    ap = argparse.ArgumentParser()
    ap.add_argument("--group", required=True, choices=sorted(GROUPS))
    ap.add_argument("--count", type=int, default=40)
    ap.add_argument("--seed", type=int, default=1)
    ap.add_argument("--lanes", type=int, default=3)
    ap.add_argument("--scratch", default="/tmp/rxv-mut")
    ap.add_argument("--out")
    ap.add_argument("--check-timeout", type=int, default=2400)
    ap.add_argument("--list", action="store_true")
    a = ap.parse_args()
    files, checks, run_tests = GROUPS[a.group]
    sites = []
    for f in files:
        p = os.path.join(REPO, f)
        if not os.path.exists(p): continue
        text = subprocess.run(["git", "-C", REPO, "show", "HEAD:" + f], stdout=subprocess.PIPE, text=True).stdout
        lines = text.split("\n")
        for no, op, new in code_sites(f, text):
            sites.append({"file": f, "line": no, "operator": op, "before": lines[no], "after": new})
    rnd = random.Random(a.seed * 1000003 + sum(map(ord, a.group)))
    rnd.shuffle(sites)
    # at most one mutant per source line, so the sample spreads over the file
    seen, chosen = set(), []
    for s in sites:
        k = (s["file"], s["line"])
        if k in seen: continue
        seen.add(k); chosen.append(s)
        if len(chosen) >= a.count: break
    if a.list:
        for s in chosen: print("%s:%d %s\n   - %s\n   + %s" % (s["file"], s["line"] + 1, s["operator"], s["before"].strip(), s["after"].strip()))
        print("%d candidate sites on %d lines; %d chosen" % (len(sites), len(set((s['file'], s['line']) for s in sites)), len(chosen)))
        return 0
    out = a.out or os.path.join(VERIF, "mutation", "%s-seed%d.jsonl" % (a.group, a.seed))
    os.makedirs(os.path.dirname(out), exist_ok=True)
    scratch = os.path.join(a.scratch, a.group)
    shutil.rmtree(scratch, ignore_errors=True)
    lock = threading.Lock()
    with open(out, "w") as outf:
        lanes = [Lane(i, scratch, chosen, lock, outf, checks, run_tests, a.check_timeout) for i in range(a.lanes)]
        try:
            for l in lanes: l.setup()
            for l in lanes: l.start()
            for l in lanes: l.join()
        finally:
            for l in lanes: l.teardown()
            shutil.rmtree(scratch, ignore_errors=True)
            sh(["git", "-C", REPO, "worktree", "prune"])
    recs = [json.loads(l) for l in open(out)]
    tally = {}
    for r in recs: tally[r["verdict"]] = tally.get(r["verdict"], 0) + 1
    print(json.dumps({"group": a.group, "mutants": len(recs), "tally": tally}))
    return 0


if __name__ == "__main__":
    sys.exit(main())
