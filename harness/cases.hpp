// Shared case generators: keys and inputs with the boundary lengths the properties name.
#pragma once
#include "rxv.hpp"
#include <vector>

namespace rxv { namespace cases {

// a valid pointer even for an empty buffer (std::vector::data() may be null then)
inline const uint8_t* nn(const std::vector<uint8_t>& v) { static const uint8_t z = 0; return v.empty() ? &z : v.data(); }

// index selects a structured case first, then random ones
inline std::vector<uint8_t> makeKey(Rng& rng, uint64_t index) {
	static const size_t lens[] = { 32, 0, 1, 12, 59, 60, 61, 64, 200, 8, 55, 56, 63, 65, 127, 128, 129, 500 };
	size_t n = index < sizeof lens / sizeof lens[0] ? lens[index] : (rng.chance(1, 4) ? rng.below(300) : rng.below(61));
	std::vector<uint8_t> k(n);
	switch (rng.below(4)) {
	case 0: for (auto& b : k) b = (uint8_t)rng.below(2); break;            // low entropy
	case 1: for (size_t i = 0; i < n; ++i) k[i] = (uint8_t)('a' + i % 26); if (n) k[rng.below(n)] ^= (uint8_t)(1 + rng.below(255)); break;
	default: rng.fill(k.data(), n); break;
	}
	return k;
}

inline std::vector<uint8_t> makeInput(Rng& rng, uint64_t index) {
	static const size_t lens[] = { 76, 0, 1, 63, 64, 65, 127, 128, 129, 1000, 100000, 200, 255, 256, 257 };
	size_t n = index < sizeof lens / sizeof lens[0] ? lens[index] : (rng.chance(1, 8) ? rng.below(5000) : rng.below(300));
	std::vector<uint8_t> v(n);
	if (rng.chance(1, 4)) { for (size_t i = 0; i < n; ++i) v[i] = (uint8_t)i; if (n) v[n - 1] ^= (uint8_t)rng.below(256); }
	else rng.fill(v.data(), n);
	return v;
}

}} // namespace
