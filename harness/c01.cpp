// C01: all VM configurations compute the same hash (differential execution across the configuration matrix).
#include "rxv.hpp"
#include "api.hpp"
#include "vmutil.hpp"
#include "cases.hpp"
#include "dataset.hpp"
#include "directed_inputs.hpp"
#include <thread>
#include <mutex>
#include <array>
#include <atomic>

using namespace rxv;

namespace {
typedef std::array<uint8_t, 32> Digest;
struct VmCfg {
	int flags;            // JIT / SECURE / HARD_AES / FULL_MEM / LARGE_PAGES
	int cacheIdx;         // light mode: which cache
	int datasetIdx;       // fast mode: which dataset
	bool createdV2;       // created with RANDOMX_FLAG_V2 (v1 runs use clearFlagV2) or without (v2 runs use setFlagV2)
	bool batch;           // digests obtained through first/next/last
	std::string name;
	randomx_vm* vm = nullptr;
	std::vector<Digest> out[2]; // [v2][input]
};

// Items whose value depends on how the index range was split (around every cut point) plus a random sample must equal
// the light-mode item: a fast-mode VM reading a wrong item disagrees with every light-mode VM for the inputs that touch it.
uint64_t checkDatasetAgainstLight(randomx_dataset* ds, randomx_cache* c, const std::vector<unsigned long>& cut, Rng& rng, const std::string& keyHex, const char* how) {
	const uint8_t* mem = (const uint8_t*)randomx_get_dataset_memory(ds);
	const unsigned long total = randomx_dataset_item_count();
	std::vector<unsigned long> items;
	for (unsigned long cp : cut) for (long d = -8; d < 8; ++d) { long it = (long)cp + d; if (it >= 0 && (unsigned long)it < total) items.push_back((unsigned long)it); }
	for (int i = 0; i < 4000; ++i) items.push_back((unsigned long)rng.below(total));
	uint64_t n = 0;
	for (unsigned long it : items) {
		uint8_t light[64]; { ip::Api s("initDatasetItem"); randomx::initDatasetItem(c, light, it); }
		++n;
		if (memcmp(light, mem + it * 64, 64)) { R.violation(std::string("C01:differential:fast-mode-dataset-item-differs-from-light-mode-item:") + how, "{\"key\":\"" + keyHex + "\",\"item\":" + std::to_string(it) + "}"); break; }
	}
	return n;
}

std::vector<unsigned long> initDatasetThreaded(randomx_dataset* ds, randomx_cache* c, unsigned threads, Rng& rng) {
	const unsigned long total = randomx_dataset_item_count();
	std::vector<std::thread> th;
	// uneven split with odd boundaries (count % 4 != 0) - the ranges the property quantifies over
	std::vector<unsigned long> cut = { 0 };
	for (unsigned i = 1; i < threads; ++i) cut.push_back(total * i / threads + (unsigned long)rng.below(7) - 3);
	cut.push_back(total);
	for (unsigned i = 0; i < threads; ++i) th.emplace_back([=] { api::initDataset(ds, c, cut[i], cut[i + 1] - cut[i]); });
	for (auto& t : th) t.join();
	return cut;
}
}

RXV_SUBCOMMAND(c01) {
	Rng rng(args.seed, 0xc01, args.shard);
	const bool thorough = args.thorough();
	const uint64_t nKeys = args.cases ? args.cases : 1;
	const uint64_t nInputs = args.num("inputs", thorough ? 40 : 6);
	const unsigned threads = (unsigned)args.num("threads", 16);
	ip::enableGuards(true);
	ip::setGarbageSeed(args.seed * 13 + 5);
	ip::setHugePages(1); // LARGE_PAGES requests succeed with ordinary pages (there are no huge pages here)
	const randomx_flags hw = api::getFlags();
	for (const char* f : { "triples_compared", "configs_per_triple_min", "light_vms", "fast_vms", "caches", "datasets_compiled_init", "batch_digests", "v2_switched_with_setFlagV2", "v2_created_with_flag", "secure_without_jit", "large_page_vms", "dataset_items_checked_against_light_mode", "fast_sweep_triples", "light_sweep_digests" }) R.floorKey(f);
	if (thorough) R.floorKey("datasets_interpreter_init");

	for (uint64_t ki = 0; ki < nKeys; ++ki) {
		std::vector<uint8_t> key = cases::makeKey(rng, args.shard + args.nshards * ki);
		const std::string keyHex = hex(key.data(), key.size());
		R.setCase("{\"key\":\"" + keyHex + "\",\"stage\":\"setup\"}");
		// ---- caches: {default, JIT} x {ref, SSSE3, AVX2}
		struct CacheCfg { int flags; std::string name; randomx_cache* c; };
		std::vector<CacheCfg> caches;
		for (int jit = 0; jit < 2; ++jit) for (int a = 0; a < 3; ++a) {
			int af = a == 0 ? 0 : a == 1 ? RANDOMX_FLAG_ARGON2_SSSE3 : RANDOMX_FLAG_ARGON2_AVX2;
			if (af && !(hw & af)) continue;
			caches.push_back({ (jit ? RANDOMX_FLAG_JIT : 0) | af, std::string(jit ? "jit" : "default") + (a == 0 ? "+ref" : a == 1 ? "+ssse3" : "+avx2"), nullptr });
		}
		{
			std::vector<std::thread> th;
			for (auto& cc : caches) th.emplace_back([&cc, &key] { cc.c = api::allocCache((randomx_flags)cc.flags); if (cc.c) api::initCache(cc.c, cases::nn(key), key.size()); });
			for (auto& t : th) t.join();
		}
		for (auto& cc : caches) if (!cc.c) R.harnessFail("alloc_cache " + cc.name);
		R.count("caches", caches.size());
		// cache memories must agree (a difference is C10's finding; C01 then continues with each cache separately)
		for (size_t i = 1; i < caches.size(); ++i) if (memcmp(randomx_get_cache_memory(caches[0].c), randomx_get_cache_memory(caches[i].c), 268435456)) R.violation("C01:differential:cache-memory:" + caches[0].name + "-vs-" + caches[i].name, "{\"key\":\"" + keyHex + "\"}");
		// ---- datasets: (a) compiled initialiser from a JIT cache, (b) interpreter initialiser from a default cache (thorough)
		std::vector<randomx_dataset*> datasets; std::vector<std::string> dsNames;
		int jitCache = -1, defCache = -1;
		for (size_t i = 0; i < caches.size(); ++i) { if ((caches[i].flags & RANDOMX_FLAG_JIT) && jitCache < 0) jitCache = (int)i; if (!(caches[i].flags & RANDOMX_FLAG_JIT)) defCache = (int)i; }
		{
			randomx_dataset* d = api::allocDataset(RANDOMX_FLAG_DEFAULT); if (!d) R.harnessFail("alloc_dataset");
			std::vector<unsigned long> cut = initDatasetThreaded(d, caches[jitCache].c, threads, rng);
			R.count("dataset_items_checked_against_light_mode", checkDatasetAgainstLight(d, caches[defCache].c, cut, rng, keyHex, "compiled-init"));
			datasets.push_back(d); dsNames.push_back("compiled-init"); R.count("datasets_compiled_init");
		}
		if (thorough) {
			randomx_dataset* d = api::allocDataset(RANDOMX_FLAG_LARGE_PAGES); if (!d) R.harnessFail("alloc_dataset large pages");
			std::vector<unsigned long> cut = initDatasetThreaded(d, caches[defCache].c, threads, rng);
			R.count("dataset_items_checked_against_light_mode", checkDatasetAgainstLight(d, caches[defCache].c, cut, rng, keyHex, "interpreter-init"));
			datasets.push_back(d); dsNames.push_back("interpreter-init"); R.count("datasets_interpreter_init");
			if (memcmp(randomx_get_dataset_memory(datasets[0]), randomx_get_dataset_memory(d), kDatasetBytes)) R.violation("C01:differential:dataset-compiled-vs-interpreter-init", "{\"key\":\"" + keyHex + "\"}");
		}
		// ---- VM matrix
		std::vector<VmCfg> vms;
		const int engine[4] = { 0, RANDOMX_FLAG_JIT, RANDOMX_FLAG_JIT | RANDOMX_FLAG_SECURE, RANDOMX_FLAG_SECURE };
		int n = 0;
		for (int e = 0; e < 4; ++e) for (int aes = 0; aes < 2; ++aes) {
			if (aes && !(hw & RANDOMX_FLAG_HARD_AES)) continue;
			const int f = engine[e] | (aes ? RANDOMX_FLAG_HARD_AES : 0);
			for (size_t ci = 0; ci < caches.size(); ++ci) {
				// the slow interpreted classes: one cache each in the quick tier, all caches in thorough
				if (!(f & RANDOMX_FLAG_JIT) && !thorough && (int)ci != ((e + aes) % (int)caches.size())) continue;
				VmCfg v; v.flags = f | ((n % 11 == 10) ? RANDOMX_FLAG_LARGE_PAGES : 0); v.cacheIdx = (int)ci; v.datasetIdx = -1; v.createdV2 = (n % 3 == 1); v.batch = (n % 3 == 2);
				v.name = flagsName(v.flags) + "/light:" + caches[ci].name + (v.createdV2 ? "/created-v2" : "") + (v.batch ? "/batch" : ""); ++n;
				vms.push_back(v);
			}
			for (size_t di = 0; di < datasets.size(); ++di) {
				VmCfg v; v.flags = f | RANDOMX_FLAG_FULL_MEM | ((n % 5 == 4) ? RANDOMX_FLAG_LARGE_PAGES : 0); v.cacheIdx = -1; v.datasetIdx = (int)di; v.createdV2 = (n % 3 == 1); v.batch = (n % 3 == 2);
				v.name = flagsName(v.flags) + "/fast:" + dsNames[di] + (v.createdV2 ? "/created-v2" : "") + (v.batch ? "/batch" : ""); ++n;
				vms.push_back(v);
			}
		}
		// ---- inputs
		std::vector<std::vector<uint8_t>> inputs;
		for (uint64_t i = 0; i < nInputs; ++i) inputs.push_back(cases::makeInput(rng, (i * 5 + ki) % 15 < 15 && i < 15 ? (i + ki * 3) % 15 : 100 + i));
		// ---- run: VMs are spread over the threads; each thread creates, uses and destroys its own VMs
		std::atomic<size_t> next{ 0 };
		std::mutex mu; std::string failure;
		auto worker = [&](unsigned tid) {
			api::threadIndex() = tid;
			for (;;) {
				size_t i = next.fetch_add(1); if (i >= vms.size()) return;
				VmCfg& v = vms[i];
				v.vm = api::createVm((randomx_flags)(v.flags | (v.createdV2 ? RANDOMX_FLAG_V2 : 0)), v.cacheIdx >= 0 ? caches[v.cacheIdx].c : nullptr, v.datasetIdx >= 0 ? datasets[v.datasetIdx] : nullptr);
				if (!v.vm) { std::lock_guard<std::mutex> l(mu); failure = "create_vm " + v.name; return; }
				for (int v2 = 0; v2 < 2; ++v2) {
					// version selection: creation flag or the setFlagV2 / clearFlagV2 methods
					{ ip::Api s("setFlagV2"); if (v2) v.vm->setFlagV2(); else v.vm->clearFlagV2(); }
					v.out[v2].resize(inputs.size());
					if (!v.batch) for (size_t k = 0; k < inputs.size(); ++k) api::hash(v.vm, inputs[k].data(), inputs[k].size(), v.out[v2][k].data());
					else {
						api::hashFirst(v.vm, inputs[0].data(), inputs[0].size());
						for (size_t k = 1; k < inputs.size(); ++k) api::hashNext(v.vm, inputs[k].data(), inputs[k].size(), v.out[v2][k - 1].data());
						api::hashLast(v.vm, v.out[v2][inputs.size() - 1].data());
					}
				}
				api::destroyVm(v.vm); v.vm = nullptr;
			}
		};
		R.setCase("{\"key\":\"" + keyHex + "\",\"stage\":\"hashing\",\"vms\":" + std::to_string(vms.size()) + "}");
		{ std::vector<std::thread> th; for (unsigned t = 0; t < threads; ++t) th.emplace_back(worker, t); for (auto& t : th) t.join(); }
		if (!failure.empty()) R.harnessFail(failure);
		// ---- compare
		for (int v2 = 0; v2 < 2; ++v2) for (size_t k = 0; k < inputs.size(); ++k) {
			size_t compared = 0;
			for (size_t i = 1; i < vms.size(); ++i) {
				++compared;
				if (vms[i].out[v2][k] != vms[0].out[v2][k]) {
					R.violation("C01:differential:digest:" + vms[0].name + "-vs-" + vms[i].name, "{\"key\":\"" + keyHex + "\",\"input\":\"" + hex(inputs[k].data(), inputs[k].size() > 200 ? 200 : inputs[k].size()) + "\",\"input_len\":" + std::to_string(inputs[k].size()) +
						",\"v2\":" + std::to_string(v2) + ",\"a\":\"" + hex(vms[0].out[v2][k].data(), 32) + "\",\"b\":\"" + hex(vms[i].out[v2][k].data(), 32) + "\"}");
				}
			}
			R.count("triples_compared"); R.evaluation();
			R.minv("configs_per_triple_min", compared + 1); R.count("configs_per_triple_min"); // counter mirrors the minimum for the floor check
			if (compared + 1 >= 12) R.nontrivial(fnv1a(inputs[k].data(), inputs[k].size(), fnv1a(key.data(), key.size()) ^ v2));
			if (k < 2 && v2 == 0) R.sample("{\"key\":\"" + keyHex + "\",\"input_len\":" + std::to_string(inputs[k].size()) + ",\"v2\":0,\"digest\":\"" + hex(vms[0].out[0][k].data(), 32) + "\",\"configurations\":" + std::to_string(vms.size()) + "}");
		}
		for (auto& v : vms) {
			R.count(v.datasetIdx >= 0 ? "fast_vms" : "light_vms");
			if (v.batch) R.count("batch_digests", 2 * inputs.size());
			R.count(v.createdV2 ? "v2_created_with_flag" : "v2_switched_with_setFlagV2");
			if ((v.flags & RANDOMX_FLAG_SECURE) && !(v.flags & RANDOMX_FLAG_JIT)) R.count("secure_without_jit");
			if (v.flags & RANDOMX_FLAG_LARGE_PAGES) R.count("large_page_vms");
		}
		// ---- fast-mode sweep: many more inputs through the eight fast-mode classes only (a hash costs milliseconds there), so that
		// input-dependent divergences that need a particular scratchpad-address coincidence (about 4 inputs in 10) cannot slip through
		// the handful of inputs above
		{
			const uint64_t nSweep = args.num("sweep", thorough ? 600 : 64);
			std::vector<std::vector<uint8_t>> sin;
			for (uint64_t i = 0; i < nSweep; ++i) sin.push_back(cases::makeInput(rng, 100 + i));
			// committed inputs whose first program has the dataset-offset field at / next to an end of its range (2^-19 per program
			// otherwise; see directed_inputs.hpp): the configurations add that offset in four different places
			for (const FixedDirected& fd : kFixedDirected) { sin.emplace_back((const uint8_t*)fd.input, (const uint8_t*)fd.input + strlen(fd.input)); R.count("fast_sweep_directed_inputs"); }
			std::vector<VmCfg> fv;
			for (int e = 0; e < 4; ++e) for (int aes = 0; aes < 2; ++aes) {
				if (aes && !(hw & RANDOMX_FLAG_HARD_AES)) continue;
				VmCfg v; v.flags = engine[e] | (aes ? RANDOMX_FLAG_HARD_AES : 0) | RANDOMX_FLAG_FULL_MEM; v.cacheIdx = -1; v.datasetIdx = 0; v.createdV2 = false; v.batch = ((e + aes) % 2 == 1);
				v.name = flagsName(v.flags) + "/fast:" + dsNames[0] + "/sweep" + (v.batch ? "/batch" : "");
				fv.push_back(v);
			}
			std::string sweepFailure;
			auto sweepWorker = [&](size_t i) {
				api::threadIndex() = (unsigned)i;
				VmCfg& v = fv[i];
				v.vm = api::createVm((randomx_flags)v.flags, nullptr, datasets[0]);
				if (!v.vm) { std::lock_guard<std::mutex> l(mu); sweepFailure = "create_vm " + v.name; return; }
				for (int v2 = 0; v2 < 2; ++v2) {
					{ ip::Api s("setFlagV2"); if (v2) v.vm->setFlagV2(); else v.vm->clearFlagV2(); }
					v.out[v2].resize(sin.size());
					if (!v.batch) for (size_t k = 0; k < sin.size(); ++k) api::hash(v.vm, sin[k].data(), sin[k].size(), v.out[v2][k].data());
					else {
						api::hashFirst(v.vm, sin[0].data(), sin[0].size());
						for (size_t k = 1; k < sin.size(); ++k) api::hashNext(v.vm, sin[k].data(), sin[k].size(), v.out[v2][k - 1].data());
						api::hashLast(v.vm, v.out[v2][sin.size() - 1].data());
					}
				}
				api::destroyVm(v.vm); v.vm = nullptr;
			};
			R.setCase("{\"key\":\"" + keyHex + "\",\"stage\":\"fast-mode sweep\",\"vms\":" + std::to_string(fv.size()) + "}");
			{ std::vector<std::thread> th; for (size_t i = 0; i < fv.size(); ++i) th.emplace_back(sweepWorker, i); for (auto& t : th) t.join(); }
			if (!sweepFailure.empty()) R.harnessFail(sweepFailure);
			for (int v2 = 0; v2 < 2; ++v2) for (size_t k = 0; k < sin.size(); ++k) {
				for (size_t i = 1; i < fv.size(); ++i) if (fv[i].out[v2][k] != fv[0].out[v2][k])
					R.violation("C01:differential:digest:" + fv[0].name + "-vs-" + fv[i].name, "{\"key\":\"" + keyHex + "\",\"input\":\"" + hex(sin[k].data(), sin[k].size() > 200 ? 200 : sin[k].size()) + "\",\"input_len\":" + std::to_string(sin[k].size()) +
						",\"v2\":" + std::to_string(v2) + ",\"a\":\"" + hex(fv[0].out[v2][k].data(), 32) + "\",\"b\":\"" + hex(fv[i].out[v2][k].data(), 32) + "\"}");
				R.count("fast_sweep_triples"); R.evaluation();
				R.nontrivial(fnv1a(sin[k].data(), sin[k].size(), fnv1a(key.data(), key.size()) ^ v2 ^ 0x5eeb));
			}
			R.count("fast_sweep_vms", fv.size());
		}
		// ---- light-mode JIT sweep: the generated light-mode dataset read depends on per-program configuration values (dataset offset)
		// that single inputs hit with probability far below 1 %: many inputs through the four light JIT classes, each compared with
		// the digest of one fast-mode VM (milliseconds per hash), work spread over all threads
		{
			const uint64_t nLight = args.num("lightsweep", thorough ? 6000 : 768);
			std::vector<std::vector<uint8_t>> lin;
			for (uint64_t i = 0; i < nLight; ++i) lin.push_back(cases::makeInput(rng, 100 + i));
			for (const FixedDirected& fd : kFixedDirected) { lin.emplace_back((const uint8_t*)fd.input, (const uint8_t*)fd.input + strlen(fd.input)); R.count("light_sweep_directed_inputs"); }
			std::vector<std::array<uint8_t, 32>> ref[2]; ref[0].resize(lin.size()); ref[1].resize(lin.size());
			R.setCase("{\"key\":\"" + keyHex + "\",\"stage\":\"light-mode sweep: reference\"}");
			{
				const int rf = RANDOMX_FLAG_FULL_MEM | RANDOMX_FLAG_JIT | ((hw & RANDOMX_FLAG_HARD_AES) ? RANDOMX_FLAG_HARD_AES : 0);
				randomx_vm* rv = api::createVm((randomx_flags)rf, nullptr, datasets[0]); if (!rv) R.harnessFail("light sweep reference vm");
				for (int v2 = 0; v2 < 2; ++v2) {
					{ ip::Api sc("setFlagV2"); if (v2) rv->setFlagV2(); else rv->clearFlagV2(); }
					for (size_t k = 0; k < lin.size(); ++k) api::hash(rv, lin[k].data(), lin[k].size(), ref[v2][k].data());
				}
				api::destroyVm(rv);
			}
			std::vector<int> lcls;
			for (int sec = 0; sec < 2; ++sec) for (int aes = 0; aes < 2; ++aes) { if (aes && !(hw & RANDOMX_FLAG_HARD_AES)) continue; lcls.push_back(RANDOMX_FLAG_JIT | (sec ? RANDOMX_FLAG_SECURE : 0) | (aes ? RANDOMX_FLAG_HARD_AES : 0)); }
			const size_t chunk = 32, nChunks = (lin.size() + chunk - 1) / chunk;
			std::atomic<size_t> nextItem{ 0 };
			std::string lfail; std::atomic<uint64_t> compared{ 0 };
			auto lworker = [&](unsigned tid) {
				api::threadIndex() = tid;
				for (;;) {
					const size_t it = nextItem.fetch_add(1); if (it >= nChunks * lcls.size()) return;
					const int cls = lcls[it % lcls.size()]; const size_t c0 = (it / lcls.size()) * chunk, c1 = std::min(lin.size(), c0 + chunk);
					// alternate between the default and the JIT cache (interpreted vs compiled SuperscalarHash is not involved in a JIT VM, but the cache object differs)
					randomx_vm* v = api::createVm((randomx_flags)cls, caches[(it & 1) ? jitCache : defCache].c, nullptr);
					if (!v) { std::lock_guard<std::mutex> l(mu); lfail = "create_vm light sweep"; return; }
					for (int v2 = 0; v2 < 2; ++v2) {
						{ ip::Api sc("setFlagV2"); if (v2) v->setFlagV2(); else v->clearFlagV2(); }
						for (size_t k = c0; k < c1; ++k) {
							std::array<uint8_t, 32> d; api::hash(v, lin[k].data(), lin[k].size(), d.data());
							if (d != ref[v2][k]) {
								std::lock_guard<std::mutex> l(mu);
								R.violation("C01:differential:digest:" + flagsName(cls) + "/light/sweep-vs-fast-mode-reference", "{\"key\":\"" + keyHex + "\",\"input\":\"" + hex(lin[k].data(), lin[k].size() > 200 ? 200 : lin[k].size()) + "\",\"input_len\":" + std::to_string(lin[k].size()) +
									",\"v2\":" + std::to_string(v2) + ",\"a\":\"" + hex(ref[v2][k].data(), 32) + "\",\"b\":\"" + hex(d.data(), 32) + "\"}");
							}
							++compared;
						}
					}
					api::destroyVm(v);
				}
			};
			R.setCase("{\"key\":\"" + keyHex + "\",\"stage\":\"light-mode sweep\",\"inputs\":" + std::to_string(lin.size()) + "}");
			{ std::vector<std::thread> th; for (unsigned t = 0; t < threads; ++t) th.emplace_back(lworker, t); for (auto& t : th) t.join(); }
			if (!lfail.empty()) R.harnessFail(lfail);
			R.count("light_sweep_digests", compared.load());
			for (int v2 = 0; v2 < 2; ++v2) for (size_t k = 0; k < lin.size(); ++k) { R.evaluation(); R.nontrivial(fnv1a(lin[k].data(), lin[k].size(), fnv1a(key.data(), key.size()) ^ v2 ^ 0x11647)); }
		}
		{ std::string names; for (size_t i = 0; i < vms.size() && i < 80; ++i) names += (i ? "," : "") + jsonStr(vms[i].name); R.note("configuration_matrix", "[" + names + "]"); }
		for (auto* d : datasets) api::releaseDataset(d);
		for (auto& cc : caches) api::releaseCache(cc.c);
		R.clearCase();
	}
	return 0;
}
