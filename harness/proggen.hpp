// Program-buffer generators shared by C04, C05, C06, C07 (and C17, C19, C20): 3200-byte buffers =
// 128-byte configuration block + 384 instruction words. Five generators (DESIGN.md C04):
//   1 uniform random bytes, 2 one instruction type per program, 3 directed rare encodings,
//   4 maximal-length encodings in every slot, 5 "real" programs (AesGenerator4R output) byte-mutated,
//   6 branch-dense programs (C07).
// Opcode bytes come from the model's table (specs.md frequencies), not from the tree under test.
#pragma once
#include "rxv.hpp"
#include "model/vm.hpp"
#include <string>

namespace rxv { namespace pg {

static const size_t PROG_BYTES = 3200;
enum Gen { G_RANDOM = 1, G_ONE_TYPE = 2, G_DIRECTED = 3, G_MAXLEN = 4, G_REAL_MUTATED = 5, G_BRANCH_DENSE = 6, G_COUNT = 7 };
static const char* const genNames[] = { "", "random", "one-type", "directed", "maxlen", "real-mutated", "branch-dense" };

inline bool isPow2(uint32_t x) { return (x & (x - 1)) == 0; }
struct Ins { uint8_t opcode, dst, src, mod; uint32_t imm; };
inline void put(uint8_t* prog, int slot, const Ins& in) { uint8_t* p = prog + 128 + 8 * slot; p[0] = in.opcode; p[1] = in.dst; p[2] = in.src; p[3] = in.mod; memcpy(p + 4, &in.imm, 4); }
inline uint8_t opc(int type, Rng& rng) { const mdl::OpTable& T = mdl::opTable(); return (uint8_t)(T.first[type] + rng.below(mdl::opFreq[type])); }
inline uint8_t opcEdge(int type, bool last) { const mdl::OpTable& T = mdl::opTable(); return (uint8_t)(T.first[type] + (last ? mdl::opFreq[type] - 1 : 0)); }

inline uint32_t interestingImm(Rng& rng) {
	static const uint32_t v[] = { 0, 1, 0xffffffffu, 0x7fffffffu, 0x80000000u, 2, 3, 0x3ff8, 0x4000, 0x3fff8, 0x40000, 0x1ffff8, 0x200000, 0x1fffc0, 0xffffc000u, 0xfffc0000u, 0xffe00000u, 13, 64 + 13, 0x7fffffc0u, 0xfffffff8u, 8, 7 };
	switch (rng.below(4)) {
	case 0: return v[rng.below(sizeof v / sizeof v[0])];
	case 1: return 1u << rng.below(32);
	case 2: { uint32_t p = 1u << rng.below(32); return rng.chance(1, 2) ? p + 1 : p - 1; }
	default: return rng.u32();
	}
}
inline uint8_t regField(Rng& rng) { // any byte; the low 3 bits select the register; favour r4 (x86 r12: SIB) and r5 (x86 r13: displacement)
	uint8_t r = (uint8_t)rng.below(8); if (rng.chance(1, 3)) r = rng.chance(1, 2) ? 4 : 5;
	return (uint8_t)(r | (rng.below(32) << 3));
}

// ---- configuration block
inline void genConfig(Rng& rng, uint8_t* prog, bool extreme) {
	rng.fill(prog, 128);
	if (!extreme) return;
	auto setq = [&](int q, uint64_t v) { memcpy(prog + 8 * q, &v, 8); };
	for (int i = 0; i < 8; ++i) if (rng.chance(1, 3)) { // group A: exponent 0 / 31, fraction 0 / all ones
		uint64_t ex = rng.chance(1, 2) ? 0 : 31, fr = rng.chance(1, 2) ? 0 : ((1ULL << 52) - 1);
		setq(i, (ex << 59) | fr | ((rng.next() & 0x7f) << 52));
	}
	static const uint64_t mems[] = { 0, 0x7fffffc0ULL, 0xffffffffULL, 0xffffffc0ULL, 0x80000000ULL, 0x3f, 0x40 };
	if (rng.chance(1, 2)) setq(8, mems[rng.below(7)] | (rng.next() << 32));
	if (rng.chance(1, 2)) setq(10, mems[rng.below(7)] | (rng.next() << 32));
	setq(12, rng.below(16) | (rng.next() << 4));                       // every address-register selection
	switch (rng.below(4)) {                                            // dataset offset 0 / maximal / around the modulus
	case 0: setq(13, 0); break;
	case 1: setq(13, mdl::DATASET_EXTRA / 64); break;
	case 2: setq(13, mdl::DATASET_EXTRA / 64 + 1 + rng.below(3)); break;
	default: break;
	}
	for (int i = 14; i < 16; ++i) if (rng.chance(1, 2)) {              // E masks: exponent mask 0 / 15, fraction mask 0 / all ones
		uint64_t ex = rng.chance(1, 2) ? 0 : 15, fr = rng.chance(1, 2) ? 0 : ((1ULL << 22) - 1);
		setq(i, (ex << 60) | fr | (rng.next() & 0x0fffffffffc00000ULL));
	}
}

// ---- one directed instruction
inline Ins directedInstr(Rng& rng) {
	using namespace mdl;
	Ins in; in.dst = regField(rng); in.src = regField(rng); in.mod = (uint8_t)rng.below(256); in.imm = interestingImm(rng);
	static const int intRR[] = { IADD_RS, ISUB_R, IMUL_R, IMULH_R, ISMULH_R, IXOR_R, IROR_R, IROL_R, ISWAP_R };
	static const int intRM[] = { IADD_M, ISUB_M, IMUL_M, IMULH_M, ISMULH_M, IXOR_M };
	static const int fpM[] = { FADD_M, FSUB_M, FDIV_M };
	static const int fpR[] = { FSWAP_R, FADD_R, FSUB_R, FSCAL_R, FMUL_R, FSQRT_R };
	switch (rng.below(12)) {
	case 0: in.opcode = opc(IMUL_RCP, rng); { uint32_t k = (uint32_t)rng.below(32); static const int d[] = { 0, 1, -1 }; in.imm = rng.chance(1, 8) ? 0 : (1u << k) + (uint32_t)d[rng.below(3)]; } break;
	case 1: in.opcode = opc(CFROUND, rng); in.imm = rng.chance(1, 3) ? (13u | (rng.u32() & ~63u)) : rng.u32(); break;
	case 2: in.opcode = opc(intRR[rng.below(9)], rng); in.src = (uint8_t)((in.dst & 7) | (rng.below(32) << 3)); break;            // src == dst
	case 3: in.opcode = opc(intRM[rng.below(6)], rng); in.src = (uint8_t)((in.dst & 7) | (rng.below(32) << 3)); break;            // L3 form
	case 4: in.opcode = opc(intRM[rng.below(6)], rng); in.src = rng.chance(1, 2) ? 4 : 5; break;                                  // r12 / r13 as address register
	case 5: in.opcode = opc(ISTORE, rng); in.mod = (uint8_t)(((13 + rng.below(3)) << 4) | rng.below(16)); if (rng.chance(1, 2)) in.dst = rng.chance(1, 2) ? 4 : 5; break;
	case 6: in.opcode = opc(CBRANCH, rng); break;
	case 7: in.opcode = opc(fpM[rng.below(3)], rng); if (rng.chance(1, 2)) in.src = rng.chance(1, 2) ? 4 : 5; break;
	case 8: in.opcode = opc(IADD_RS, rng); in.dst = rng.chance(1, 2) ? 5 : in.dst; in.mod = (uint8_t)rng.below(256); break;      // r5: immediate form
	case 9: in.opcode = opc(rng.chance(1, 2) ? IROR_R : IROL_R, rng); in.src = (uint8_t)(in.dst & 7); in.imm = rng.chance(1, 3) ? (rng.u32() & ~63u) : rng.u32(); break; // immediate count, incl. 0
	case 10: in.opcode = opc(fpR[rng.below(6)], rng); break;
	default: in.opcode = (uint8_t)rng.below(256); if (rng.chance(1, 2)) in.opcode = opcEdge((int)rng.below(OP_COUNT), rng.chance(1, 2)); break;       // first / last opcode of a range
	}
	return in;
}

struct Meta { int gen; int oneType; std::string what; };

inline void genProgram(Rng& rng, int gen, uint8_t* prog, Meta* meta = nullptr) {
	using namespace mdl;
	Meta m; m.gen = gen; m.oneType = -1;
	genConfig(rng, prog, gen != G_RANDOM && rng.chance(2, 3));
	switch (gen) {
	case G_RANDOM: rng.fill(prog + 128, 8 * 384); break;
	case G_ONE_TYPE: {
		const int type = (int)rng.below(OP_COUNT); m.oneType = type; m.what = opNames[type];
		for (int i = 0; i < 384; ++i) put(prog, i, { opc(type, rng), (uint8_t)rng.below(256), (uint8_t)rng.below(256), (uint8_t)rng.below(256), rng.chance(1, 3) ? interestingImm(rng) : rng.u32() });
		// a sprinkle of integer instructions so that registers take non-trivial values
		if (rng.chance(1, 2)) for (int k = 0; k < 24; ++k) put(prog, (int)rng.below(384), { opc((int)rng.below(17), rng), (uint8_t)rng.below(256), (uint8_t)rng.below(256), (uint8_t)rng.below(256), rng.u32() });
	} break;
	case G_DIRECTED: {
		rng.fill(prog + 128, 8 * 384);
		const unsigned density = 1 + (unsigned)rng.below(4); // every slot .. every 4th slot directed
		for (int i = 0; i < 384; ++i) if (i % density == 0) put(prog, i, directedInstr(rng));
		if (rng.chance(1, 2)) put(prog, 0, { opc(CBRANCH, rng), regField(rng), 0, (uint8_t)rng.below(256), interestingImm(rng) });              // CBRANCH as first instruction
		if (rng.chance(1, 2)) { int s = 1 + (int)rng.below(380); uint8_t r = (uint8_t)rng.below(8);                                                 // CBRANCH on a register last touched by ISWAP src / IMUL_RCP no-op
			put(prog, s, rng.chance(1, 2) ? Ins{ opc(ISWAP_R, rng), (uint8_t)((r + 1) & 7), r, 0, 0 } : Ins{ opc(IMUL_RCP, rng), r, 0, 0, 1u << rng.below(32) });
			put(prog, s + 1, { opc(CBRANCH, rng), r, 0, (uint8_t)rng.below(256), rng.u32() });
			put(prog, s + 2, { opc(CBRANCH, rng), (uint8_t)rng.below(8), 0, (uint8_t)rng.below(256), rng.u32() }); }                               // back-to-back
	} break;
	case G_MAXLEN: {
		// the longest x86 encodings: FDIV_M with r12 as address register (SIB byte), CFROUND (v2: + test/jnz), CBRANCH, IMULH_M / ISMULH_M
		static const int longTypes[] = { FDIV_M, FDIV_M, FDIV_M, CFROUND, CBRANCH, IMULH_M, ISMULH_M, FADD_M, FSUB_M, IMUL_RCP };
		const int mode = (int)rng.below(4);
		for (int i = 0; i < 384; ++i) {
			int type = mode == 0 ? FDIV_M : mode == 1 ? CFROUND : longTypes[rng.below(10)];
			Ins in = { opc(type, rng), (uint8_t)rng.below(256), (uint8_t)(4 | (rng.below(32) << 3)), (uint8_t)rng.below(256), rng.u32() };
			if (type == CFROUND) in.imm = (rng.u32() & ~63u) | (uint32_t)((13 + 1 + rng.below(62)) & 63); // rotate != 0
			if (type == IMUL_RCP && isPow2(in.imm)) in.imm = 3;
			if ((type == IMULH_M || type == ISMULH_M) && (in.dst & 7) == 4) in.dst ^= 1;
			put(prog, i, in);
		}
		m.what = mode == 0 ? "all FDIV_M via r12" : mode == 1 ? "all CFROUND" : "mixed long encodings";
	} break;
	case G_REAL_MUTATED: {
		uint8_t st[64]; rng.fill(st, 64);
		mdl::aesGenerator4R(st, prog, PROG_BYTES);
		const unsigned muts = (unsigned)rng.below(40);
		for (unsigned k = 0; k < muts; ++k) prog[rng.below(PROG_BYTES)] ^= (uint8_t)(1u << rng.below(8));
		m.what = "mutations=" + std::to_string(muts);
	} break;
	case G_BRANCH_DENSE: {
		const int mode = (int)rng.below(3);
		static const int writers[] = { IADD_RS, IADD_M, ISUB_R, ISUB_M, IMUL_R, IMUL_M, IMULH_R, IMULH_M, ISMULH_R, ISMULH_M, IMUL_RCP, INEG_R, IXOR_R, IXOR_M, IROR_R, IROL_R, ISWAP_R };
		for (int i = 0; i < 384; ++i) {
			if (mode == 0 || (mode == 1 && (i & 1)) || (mode == 2 && rng.chance(1, 3)))
				put(prog, i, { opc(CBRANCH, rng), (uint8_t)rng.below(8), 0, (uint8_t)rng.below(256), rng.chance(1, 2) ? interestingImm(rng) : rng.u32() });
			else {
				Ins in = { opc(writers[rng.below(17)], rng), (uint8_t)rng.below(8), (uint8_t)rng.below(8), (uint8_t)rng.below(256), rng.u32() };
				if (in.opcode >= mdl::opTable().first[IMUL_RCP] && in.opcode < mdl::opTable().first[INEG_R] && rng.chance(1, 2)) in.imm = 1u << rng.below(32);
				put(prog, i, in);
			}
		}
		m.what = mode == 0 ? "all CBRANCH" : mode == 1 ? "CBRANCH after each writer" : "CBRANCH every ~3rd slot";
	} break;
	}
	if (meta) *meta = m;
}

// ---- scratchpad contents
enum SpKind { SP_RANDOM, SP_ZERO, SP_ONES, SP_INT_EXTREMES, SP_SMALL_INTS, SP_COUNT };
static const char* const spNames[] = { "random", "zero", "ones", "int32-extremes", "small-ints" };
inline void genScratchpad(Rng& rng, int kind, uint8_t* sp, size_t n = 2097152) {
	switch (kind) {
	case SP_ZERO: memset(sp, 0, n); break;
	case SP_ONES: memset(sp, 0xff, n); break;
	case SP_INT_EXTREMES: { static const uint32_t v[] = { 0x7fffffffu, 0x80000000u, 0, 1, 0xffffffffu, 0x80000001u }; uint32_t* w = (uint32_t*)sp; uint64_t x = rng.next(); for (size_t i = 0; i < n / 4; ++i) { x = x * 6364136223846793005ULL + 1442695040888963407ULL; w[i] = v[(x >> 33) % 6]; } } break;
	case SP_SMALL_INTS: { uint32_t* w = (uint32_t*)sp; uint64_t x = rng.next(); for (size_t i = 0; i < n / 4; ++i) { x = x * 6364136223846793005ULL + 1442695040888963407ULL; w[i] = (uint32_t)((int32_t)((x >> 40) & 0xff) - 128); } } break;
	default: rng.fill(sp, n); break;
	}
}

// ---- coverage: instruction type x operand form counters from the model's decoder (Appendix B of DESIGN.md)
inline void countCoverage(const uint8_t* prog, bool v2, std::map<std::string, uint64_t>& cov) {
	std::vector<mdl::Decoded> code; mdl::decodeProgram(prog, v2, code);
	static const char* formNames[] = { "plain", "src_eq_dst", "L1", "L2", "L3" };
	for (size_t i = 0; i < code.size(); ++i) {
		const mdl::Decoded& d = code[i];
		std::string k = std::string("cov:") + mdl::opNames[d.op] + ":" + formNames[d.form];
		cov[k]++;
		const uint8_t* w = prog + 128 + 8 * i;
		const int dstR = w[1] & 7, srcR = w[2] & 7;
		if (d.op <= mdl::ISWAP_R || d.op == mdl::ISTORE || d.op == mdl::CBRANCH) { if (dstR == 4) cov[std::string("cov:") + mdl::opNames[d.op] + ":dst_r4"]++; if (dstR == 5) cov[std::string("cov:") + mdl::opNames[d.op] + ":dst_r5"]++; }
		if (d.op == mdl::IADD_M || d.op == mdl::ISUB_M || d.op == mdl::IMUL_M || d.op == mdl::IMULH_M || d.op == mdl::ISMULH_M || d.op == mdl::IXOR_M || d.op == mdl::FADD_M || d.op == mdl::FSUB_M || d.op == mdl::FDIV_M || d.op == mdl::CFROUND) {
			if (srcR == 4) cov[std::string("cov:") + mdl::opNames[d.op] + ":src_r4"]++; if (srcR == 5) cov[std::string("cov:") + mdl::opNames[d.op] + ":src_r5"]++; }
		if (d.op == mdl::IMUL_RCP) cov[d.imm32 == 0 ? "cov:IMUL_RCP:imm0" : d.nop ? "cov:IMUL_RCP:pow2" : "cov:IMUL_RCP:real"]++;
		if (d.op == mdl::CFROUND) cov[(d.imm32 & 63) == 13 ? "cov:CFROUND:rotate0" : "cov:CFROUND:rotate_nonzero"]++;
		if (d.op == mdl::CBRANCH) { cov[d.target == 0 ? "cov:CBRANCH:target_start" : "cov:CBRANCH:target_after_writer"]++; cov["cov:CBRANCH:cond" + std::to_string(d.mod >> 4)]++; if (i == 0) cov["cov:CBRANCH:first_instruction"]++; }
		if (d.op == mdl::ISTORE) cov["cov:ISTORE:cond" + std::string((d.mod >> 4) >= 14 ? "_ge14" : "_lt14")]++;
		if (d.op == mdl::IADD_RS) cov["cov:IADD_RS:shift" + std::to_string((d.mod >> 2) & 3)]++;
		if ((d.op == mdl::IROR_R || d.op == mdl::IROL_R) && d.srcIsDst) cov[std::string("cov:") + mdl::opNames[d.op] + ((d.imm32 & 63) ? ":imm_nonzero" : ":imm_zero")]++;
		if (d.op == mdl::FSWAP_R) cov[d.dst < 4 ? "cov:FSWAP_R:F" : "cov:FSWAP_R:E"]++;
	}
}

// the minimum set of cells every run must have hit (a monitor that saw nothing must not pass)
inline std::vector<std::string> coverageFloor() {
	std::vector<std::string> f;
	using namespace mdl;
	for (int t : { IADD_RS, ISUB_R, IMUL_R, IMULH_R, ISMULH_R, IXOR_R, IROR_R, IROL_R }) { f.push_back(std::string("cov:") + opNames[t] + ":plain"); f.push_back(std::string("cov:") + opNames[t] + ":src_eq_dst"); }
	for (int t : { IADD_M, ISUB_M, IMUL_M, IMULH_M, ISMULH_M, IXOR_M }) for (const char* l : { "L1", "L2", "L3" }) f.push_back(std::string("cov:") + opNames[t] + ":" + l);
	for (int t : { IADD_M, ISUB_M, IMUL_M, IMULH_M, ISMULH_M, IXOR_M, FADD_M, FSUB_M, FDIV_M }) { f.push_back(std::string("cov:") + opNames[t] + ":src_r4"); f.push_back(std::string("cov:") + opNames[t] + ":src_r5"); }
	for (int t : { FADD_M, FSUB_M, FDIV_M }) for (const char* l : { "L1", "L2" }) f.push_back(std::string("cov:") + opNames[t] + ":" + l);
	for (int t : { INEG_R, ISWAP_R, FSWAP_R, FADD_R, FSUB_R, FSCAL_R, FMUL_R, FSQRT_R, CFROUND, CBRANCH }) f.push_back(std::string("cov:") + opNames[t] + ":plain");
	for (const char* k : { "cov:ISWAP_R:src_eq_dst", "cov:IMUL_RCP:imm0", "cov:IMUL_RCP:pow2", "cov:IMUL_RCP:real", "cov:CFROUND:rotate0", "cov:CFROUND:rotate_nonzero", "cov:CBRANCH:target_start", "cov:CBRANCH:target_after_writer",
		"cov:CBRANCH:first_instruction", "cov:ISTORE:L1", "cov:ISTORE:L2", "cov:ISTORE:L3", "cov:ISTORE:dst_r4", "cov:ISTORE:dst_r5", "cov:IADD_RS:dst_r5", "cov:IADD_RS:dst_r4", "cov:IROR_R:imm_zero", "cov:IROL_R:imm_zero",
		"cov:IROR_R:imm_nonzero", "cov:IROL_R:imm_nonzero", "cov:FSWAP_R:F", "cov:FSWAP_R:E" }) f.push_back(k);
	for (int c = 0; c < 16; ++c) f.push_back("cov:CBRANCH:cond" + std::to_string(c));
	for (int s = 0; s < 4; ++s) f.push_back("cov:IADD_RS:shift" + std::to_string(s));
	return f;
}

}} // namespace
