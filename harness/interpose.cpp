// Link-time interposition layer: __wrap_{posix_memalign,free,mmap,munmap,mprotect} and (optionally)
// replaced operator new/delete. Active on a thread only while it is inside an rxv::ip::Api scope,
// i.e. while a library call made by the harness is in progress.
//
// Provides: event log, address-keyed live-allocation accounting, guard-page placement of the
// buffers the properties name (scratchpad / cache / dataset / JIT code buffer) with LIFO address
// reuse, allocation fault injection, and an online W^X monitor over library-owned mappings.
#include "rxv.hpp"
#include <atomic>
#include <cerrno>
#include <cstdio>
#include <cstdlib>
#include <new>
#include <sys/mman.h>
#include <unistd.h>
#include <pthread.h>

extern "C" {
int __real_posix_memalign(void** memptr, size_t alignment, size_t size);
void __real_free(void* p);
void* __real_mmap(void* addr, size_t len, int prot, int flags, int fd, off_t off);
int __real_munmap(void* addr, size_t len);
int __real_mprotect(void* addr, size_t len, int prot);
}

namespace rxv { namespace ip {

static const size_t kScratchpad = 2097152;
static const size_t kCache = 268435456;
static const size_t kDataset = 2147483648ULL + 33554368ULL;
static const size_t kPage = 4096;
static const size_t kTail = 1ULL << 32; // PROT_NONE tail: any 32-bit offset error lands here

struct Spin {
	std::atomic_flag f = ATOMIC_FLAG_INIT;
	void lock() { while (f.test_and_set(std::memory_order_acquire)) { } }
	void unlock() { f.clear(std::memory_order_release); }
};
struct Lock { Spin& s; explicit Lock(Spin& s_) : s(s_) { s.lock(); } ~Lock() { s.unlock(); } };

static thread_local int tl_depth = 0;
static thread_local uint32_t tl_api = 0;
static thread_local unsigned tl_failAt = 0, tl_failAt2 = 0, tl_requests = 0, tl_firedCount = 0;
static thread_local bool tl_fired = false;
static thread_local int tl_tag = 0;
static thread_local bool tl_busy = false; // re-entrancy guard
static std::atomic<uint32_t> g_apiCounter{ 0 };
static std::atomic<uint32_t> g_tidCounter{ 0 };
static thread_local uint32_t tl_tid = 0;

static bool g_guards = false;
static uint64_t g_garbage = 0;
static int g_huge = 0;

static uint32_t tid() { if (!tl_tid) tl_tid = ++g_tidCounter; return tl_tid; }

bool insideApi() { return tl_depth > 0; }
uint32_t currentApi() { return tl_api; }

Api::Api(const char*) { if (tl_depth++ == 0) tl_api = ++g_apiCounter; id = tl_api; }
Api::~Api() { --tl_depth; }

void enableGuards(bool on) { g_guards = on; }
void setGarbageSeed(uint64_t s) { g_garbage = s; }
void setHugePages(int m) { g_huge = m; }
void armFault(unsigned k) { tl_failAt = k; tl_failAt2 = 0; tl_requests = 0; tl_fired = false; tl_firedCount = 0; }
void armFault2(unsigned k1, unsigned k2) { tl_failAt = k1; tl_failAt2 = k2; tl_requests = 0; tl_fired = false; tl_firedCount = 0; }
unsigned faultsFired() { return tl_firedCount; }
unsigned requestsSeen() { return tl_requests; }
bool faultFired() { return tl_fired; }
void tagNextMappings(int tag) { tl_tag = tag; }

// ------------------------------------------------------------------ event log
static const size_t kMaxEvents = 1u << 20;
static Event g_events[kMaxEvents];
static std::atomic<size_t> g_nEvents{ 0 };
static std::atomic<uint64_t> g_seq{ 0 };

static void logEvent(uint8_t kind, uintptr_t addr, size_t len, int prot, int flags, int result, bool injected, bool huge = false) {
	size_t i = g_nEvents.fetch_add(1);
	if (i >= kMaxEvents) { g_nEvents.store(kMaxEvents); return; }
	Event& e = g_events[i];
	e.seq = ++g_seq; e.tid = tid(); e.api = tl_api; e.kind = kind; e.injected = injected; e.hugeReq = huge;
	e.prot = prot; e.flags = flags; e.addr = addr; e.len = len; e.result = result;
}
size_t eventCount() { size_t n = g_nEvents.load(); return n > kMaxEvents ? kMaxEvents : n; }
Event eventAt(size_t i) { return g_events[i]; }
void clearEvents() { g_nEvents.store(0); }

// ------------------------------------------------------------------ live allocation table (by address)
struct LiveEnt { uintptr_t addr; size_t len; uint8_t kind; }; // kind: 1 heap, 2 mapping
static const size_t kLiveCap = 1u << 14;
static LiveEnt g_live[kLiveCap];
static Spin g_liveLock;
static size_t g_liveHeap = 0, g_liveMapBytes = 0;

static void liveAdd(uintptr_t a, size_t len, uint8_t kind) {
	Lock l(g_liveLock);
	size_t h = (a >> 4) * 0x9e3779b97f4a7c15ULL >> 50;
	for (size_t i = 0; i < kLiveCap; ++i) {
		LiveEnt& e = g_live[(h + i) & (kLiveCap - 1)];
		if (e.addr == 0 || e.addr == 1) { e.addr = a; e.len = len; e.kind = kind; if (kind == 1) ++g_liveHeap; else g_liveMapBytes += len; return; }
	}
}
// returns kind (0 if unknown) and length
static uint8_t liveDel(uintptr_t a, size_t* lenOut) {
	Lock l(g_liveLock);
	size_t h = (a >> 4) * 0x9e3779b97f4a7c15ULL >> 50;
	for (size_t i = 0; i < kLiveCap; ++i) {
		LiveEnt& e = g_live[(h + i) & (kLiveCap - 1)];
		if (e.addr == 0) return 0;
		if (e.addr == a) { uint8_t k = e.kind; if (lenOut) *lenOut = e.len; e.addr = 1; if (k == 1) --g_liveHeap; else g_liveMapBytes -= e.len; return k; }
	}
	return 0;
}
size_t liveHeapBlocks() { Lock l(g_liveLock); return g_liveHeap; }
size_t liveMappedBytes() { Lock l(g_liveLock); return g_liveMapBytes; }
std::string liveSummary() {
	Lock l(g_liveLock);
	std::string s = "[";
	int n = 0;
	for (size_t i = 0; i < kLiveCap && n < 16; ++i) if (g_live[i].addr > 1) {
		char b[96]; snprintf(b, sizeof b, "%s{\"addr\":\"0x%zx\",\"len\":%zu,\"kind\":%d}", n ? "," : "", (size_t)g_live[i].addr, g_live[i].len, g_live[i].kind);
		s += b; ++n;
	}
	return s + "]";
}

// ------------------------------------------------------------------ guard blocks
struct GuardBlk { uintptr_t base; size_t len; uint8_t state; /*0 unused, 1 live, 2 freed(recyclable)*/ uint8_t viaMmap; };
static const size_t kGuardCap = 4096;
static GuardBlk g_guard[kGuardCap];
static std::atomic<size_t> g_nGuard{ 0 };
static Spin g_guardLock;

// blocks whose length is not a page multiple (the dataset: 64 bytes short) are placed so that their END is on a
// page boundary: the overflow guard starts exactly at the last byte + 1, the underflow side has (page - len%page) slack
static size_t roundPage(size_t n) { return (n + kPage - 1) & ~(kPage - 1); }
static const char* kindName(size_t len) { return len == kScratchpad ? "scratchpad" : len == kCache ? "cache" : len == kDataset ? "dataset" : "block"; }
static bool guardedSize(size_t n) { return n == kScratchpad || n == kCache || n == kDataset; }

static void garbageFill(uint8_t* p, size_t n, uint64_t seed) {
	uint64_t x = seed * 0x9e3779b97f4a7c15ULL + (uintptr_t)p;
	uint64_t* q = (uint64_t*)p;
	for (size_t i = 0; i < n / 8; ++i) { x ^= x << 13; x ^= x >> 7; x ^= x << 17; q[i] = x; }
}

static void* guardAlloc(size_t len, bool viaMmap) {
	{
		Lock l(g_guardLock);
		size_t n = g_nGuard.load();
		// LIFO: newest freed block of the same size first
		for (size_t i = n; i-- > 0;) {
			GuardBlk& b = g_guard[i];
			if (b.state == 2 && b.len == len) {
				if (__real_mprotect((void*)(b.base & ~(kPage - 1)), roundPage(len), PROT_READ | PROT_WRITE) != 0) return nullptr;
				b.state = 1; b.viaMmap = viaMmap;
				return (void*)b.base; // old bytes are deliberately kept
			}
		}
	}
	size_t total = kPage + roundPage(len) + kTail;
	uint8_t* m = (uint8_t*)__real_mmap(nullptr, total, PROT_NONE, MAP_PRIVATE | MAP_ANONYMOUS | MAP_NORESERVE, -1, 0);
	if (m == MAP_FAILED) return nullptr;
	uint8_t* blk = m + kPage + (roundPage(len) - len);
	if (__real_mprotect(m + kPage, roundPage(len), PROT_READ | PROT_WRITE) != 0) { __real_munmap(m, total); return nullptr; }
	if (g_garbage && len != kDataset) garbageFill(blk, len, g_garbage);
	Lock l(g_guardLock);
	size_t i = g_nGuard.load();
	if (i >= kGuardCap) { __real_munmap(m, total); return nullptr; }
	g_guard[i].base = (uintptr_t)blk; g_guard[i].len = len; g_guard[i].state = 1; g_guard[i].viaMmap = viaMmap;
	g_nGuard.store(i + 1);
	return blk;
}

// returns true if p was a live guard block (now released)
static bool guardFree(void* p, size_t* lenOut) {
	Lock l(g_guardLock);
	size_t n = g_nGuard.load();
	for (size_t i = 0; i < n; ++i) {
		GuardBlk& b = g_guard[i];
		if (b.base == (uintptr_t)p && b.state == 1) {
			if (b.len == kDataset) madvise((void*)(b.base & ~(kPage - 1)), roundPage(b.len), MADV_DONTNEED); // do not keep 2 GiB resident
			__real_mprotect((void*)(b.base & ~(kPage - 1)), roundPage(b.len), PROT_NONE);
			b.state = 2;
			if (lenOut) *lenOut = b.len;
			return true;
		}
	}
	return false;
}

// ------------------------------------------------------------------ library-owned mappings (code buffers etc.) + W^X monitor
struct MapEnt { uintptr_t addr; size_t len; int prot; int tag; uint8_t live; uint8_t guarded; };
static const size_t kMapCap = 8192;
static MapEnt g_maps[kMapCap];
static std::atomic<size_t> g_nMaps{ 0 };
static Spin g_mapLock;
static WxStat g_wx[4];
static char g_wxFirst[256];

static void wxViolation(const char* what, uintptr_t addr, size_t len, int prot, int tag) {
	g_wx[tag & 3].wxViolations++;
	if (!g_wxFirst[0]) snprintf(g_wxFirst, sizeof g_wxFirst, "%s addr=0x%zx len=%zu prot=%d owner=%s api=%u", what, (size_t)addr, len, prot,
		tag == TAG_SECURE_VM ? "secure-vm" : tag == TAG_CACHE ? "cache" : "other", tl_api);
}
WxStat wxStats(int tag) { Lock l(g_mapLock); return g_wx[tag & 3]; }
std::string firstWxViolation() { Lock l(g_mapLock); return g_wxFirst; }

static void mapAdd(uintptr_t a, size_t len, int prot, bool guarded) {
	Lock l(g_mapLock);
	size_t n = g_nMaps.load();
	size_t slot = n;
	for (size_t i = 0; i < n; ++i) if (g_maps[i].live == 0 || (g_maps[i].live == 2 && g_maps[i].addr == a)) { slot = i; break; }
	if (slot == n) { if (n >= kMapCap) return; g_nMaps.store(n + 1); }
	g_maps[slot] = { a, len, prot, tl_tag, 1, (uint8_t)guarded };
	if ((prot & PROT_WRITE) && (prot & PROT_EXEC) && (tl_tag == TAG_SECURE_VM || tl_tag == TAG_CACHE)) wxViolation("mmap", a, len, prot, tl_tag);
}
static MapEnt* mapFind(uintptr_t a) {
	size_t n = g_nMaps.load();
	for (size_t i = 0; i < n; ++i) if (g_maps[i].live == 1 && a >= g_maps[i].addr && a < g_maps[i].addr + g_maps[i].len) return &g_maps[i];
	return nullptr;
}

const char* classify(uintptr_t addr, char* buf, size_t buflen) {
	// async-signal-safe: no locks, no allocation
	size_t n = g_nGuard.load();
	for (size_t i = 0; i < n; ++i) {
		const GuardBlk& b = g_guard[i];
		if (!b.base) continue;
		const char* k = kindName(b.len);
		if (addr >= (b.base & ~(kPage - 1)) - kPage && addr < b.base) { snprintf(buf, buflen, "%s-underflow", k); return buf; }
		if (addr >= b.base + b.len && addr < b.base + b.len + kTail) { snprintf(buf, buflen, "%s-overflow", k); return buf; }
		if (addr >= b.base && addr < b.base + b.len) { snprintf(buf, buflen, b.state == 2 ? "freed-%s" : "%s-inside", k); return buf; }
	}
	size_t m = g_nMaps.load();
	for (size_t i = 0; i < m; ++i) {
		const MapEnt& e = g_maps[i];
		if (!e.addr) continue;
		if (e.guarded && addr >= e.addr - kPage && addr < e.addr) { snprintf(buf, buflen, "code-underflow"); return buf; }
		if (e.guarded && addr >= e.addr + e.len && addr < e.addr + e.len + kPage) { snprintf(buf, buflen, "code-overflow"); return buf; }
		if (addr >= e.addr && addr < e.addr + e.len) { snprintf(buf, buflen, e.live == 1 ? "code-inside(prot=%d)" : "freed-code", e.prot); return buf; }
	}
	buf[0] = 0;
	return buf;
}

// one allocation request inside an API call: returns true if it must fail
static bool requestFails() {
	++tl_requests;
	if ((tl_failAt && tl_requests == tl_failAt) || (tl_failAt2 && tl_requests == tl_failAt2)) { tl_fired = true; ++tl_firedCount; return true; }
	return false;
}

}} // namespace

using namespace rxv::ip;

extern "C" {

int __wrap_posix_memalign(void** memptr, size_t alignment, size_t size) {
	if (tl_depth == 0 || tl_busy) return __real_posix_memalign(memptr, alignment, size);
	tl_busy = true;
	int rc;
	if (requestFails()) {
		logEvent(K_MEMALIGN, 0, size, 0, 0, ENOMEM, true);
		rc = ENOMEM;
	} else if (g_guards && guardedSize(size)) {
		void* p = guardAlloc(size, false);
		if (p) { *memptr = p; rc = 0; liveAdd((uintptr_t)p, size, 1); logEvent(K_MEMALIGN, (uintptr_t)p, size, 0, 0, 0, false); }
		else { rc = ENOMEM; logEvent(K_MEMALIGN, 0, size, 0, 0, ENOMEM, false); }
	} else {
		rc = __real_posix_memalign(memptr, alignment, size);
		if (rc == 0) liveAdd((uintptr_t)*memptr, size, 1);
		logEvent(K_MEMALIGN, rc == 0 ? (uintptr_t)*memptr : 0, size, 0, 0, rc, false);
	}
	tl_busy = false;
	return rc;
}

void __wrap_free(void* p) {
	if (tl_depth == 0 || tl_busy || p == nullptr) { __real_free(p); return; }
	tl_busy = true;
	size_t len = 0;
	uint8_t k = liveDel((uintptr_t)p, &len);
	logEvent(K_FREE, (uintptr_t)p, len, 0, 0, k ? 0 : -1, false);
	bool guarded = g_guards && guardFree(p, nullptr);
	tl_busy = false;
	if (!guarded) __real_free(p);
}

void* __wrap_mmap(void* addr, size_t len, int prot, int flags, int fd, off_t off) {
	if (tl_depth == 0 || tl_busy) return __real_mmap(addr, len, prot, flags, fd, off);
	tl_busy = true;
	const bool huge = (flags & MAP_HUGETLB) != 0;
	void* res;
	if (requestFails()) {
		logEvent(K_MMAP, 0, len, prot, flags, ENOMEM, true, huge);
		errno = ENOMEM; res = MAP_FAILED;
	} else if (huge && g_huge == 2) {
		logEvent(K_MMAP, 0, len, prot, flags, ENOMEM, false, huge);
		errno = ENOMEM; res = MAP_FAILED;
	} else {
		int f = flags;
		if (huge && g_huge == 1) f &= ~(MAP_HUGETLB | MAP_POPULATE);
		if (g_guards && guardedSize(len) && !(huge && g_huge == 0)) {
			res = guardAlloc(len, true);
			if (!res) { errno = ENOMEM; res = MAP_FAILED; }
			else if (prot != (PROT_READ | PROT_WRITE)) __real_mprotect(res, len, prot);
		} else if (g_guards && !guardedSize(len) && !(huge && g_huge == 0)) {
			// code buffer (or anything else): one PROT_NONE page on each side
			uint8_t* reuse = nullptr;
			{
				Lock l(g_mapLock);
				size_t n = g_nMaps.load();
				for (size_t i = n; i-- > 0;) if (g_maps[i].live == 2 && g_maps[i].guarded && g_maps[i].len == len) { reuse = (uint8_t*)g_maps[i].addr; g_maps[i].live = 0; g_maps[i].addr = 0; break; }
			}
			if (reuse) { res = reuse; if (__real_mprotect(res, len, prot) != 0) res = MAP_FAILED; }
			else {
				uint8_t* m = (uint8_t*)__real_mmap(nullptr, len + 2 * kPage, PROT_NONE, MAP_PRIVATE | MAP_ANONYMOUS, -1, 0);
				if (m == MAP_FAILED) res = MAP_FAILED;
				else { res = m + kPage; if (__real_mprotect(res, len, prot) != 0) { __real_munmap(m, len + 2 * kPage); res = MAP_FAILED; } }
			}
		} else {
			res = __real_mmap(addr, len, prot, f, fd, off);
		}
		if (res != MAP_FAILED) { liveAdd((uintptr_t)res, len, 2); mapAdd((uintptr_t)res, len, prot, g_guards && !guardedSize(len)); }
		logEvent(K_MMAP, res == MAP_FAILED ? 0 : (uintptr_t)res, len, prot, flags, res == MAP_FAILED ? errno : 0, false, huge);
	}
	tl_busy = false;
	return res;
}

int __wrap_munmap(void* addr, size_t len) {
	if (tl_depth == 0 || tl_busy) return __real_munmap(addr, len);
	tl_busy = true;
	size_t mappedLen = 0;
	uint8_t k = liveDel((uintptr_t)addr, &mappedLen);
	// result field: 0 = matches a live mapping with the same length, -1 unknown address, -2 length mismatch
	int verdict = k == 2 ? (mappedLen == len ? 0 : -2) : -1;
	logEvent(K_MUNMAP, (uintptr_t)addr, len, (int)mappedLen, 0, verdict, false);
	int rc = 0;
	const bool wasGuardBlock = g_guards && guardFree(addr, nullptr);
	bool guardedCode = false;
	{
		// The range must be PROT_NONE *before* the entry becomes recyclable (live = 2): another thread's mmap may pick it up
		// the moment the lock is released, and a late madvise / mprotect would then zap that thread's live code buffer.
		Lock l(g_mapLock);
		MapEnt* e = mapFind((uintptr_t)addr);
		if (e && e->addr == (uintptr_t)addr) {
			guardedCode = e->guarded && !wasGuardBlock;
			if (guardedCode) {
				// keep the range reserved as PROT_NONE so that stale accesses fault and are classified
				madvise(addr, mappedLen ? mappedLen : len, MADV_DONTNEED);
				rc = __real_mprotect(addr, mappedLen ? mappedLen : len, PROT_NONE);
				e->live = 2;
			} else e->live = 0;
		}
	}
	if (wasGuardBlock) rc = 0;
	else if (!guardedCode) rc = __real_munmap(addr, len);
	tl_busy = false;
	return rc;
}

int __wrap_mprotect(void* addr, size_t len, int prot) {
	if (tl_depth == 0 || tl_busy) return __real_mprotect(addr, len, prot);
	tl_busy = true;
	{
		Lock l(g_mapLock);
		MapEnt* e = mapFind((uintptr_t)addr);
		int tag = e ? e->tag : 0;
		WxStat& st = g_wx[tag & 3];
		st.protEvents++;
		if (e) {
			const bool wasW = e->prot & PROT_WRITE, wasX = e->prot & PROT_EXEC, isW = prot & PROT_WRITE, isX = prot & PROT_EXEC;
			if (wasW && !wasX && isX && !isW) st.rwToRx++;
			if (wasX && !wasW && isW && !isX) st.rxToRw++;
			e->prot = prot;
		}
		if ((prot & PROT_WRITE) && (prot & PROT_EXEC) && (tag == TAG_SECURE_VM || tag == TAG_CACHE)) wxViolation("mprotect", (uintptr_t)addr, len, prot, tag);
	}
	int rc = __real_mprotect(addr, len, prot);
	logEvent(K_MPROTECT, (uintptr_t)addr, len, prot, 0, rc == 0 ? 0 : errno, false);
	tl_busy = false;
	return rc;
}

} // extern "C"

#ifdef RXV_REPLACE_NEW
static bool g_poisonFreed = false;
static const size_t kQuar = 1024;
static void* g_quar[kQuar];
static size_t g_quarPos = 0;
static rxv::ip::Spin g_quarLock;
namespace rxv { namespace ip { void setPoisonFreed(bool on) { g_poisonFreed = on; } } }
static void* rxvNew(size_t n) {
	if (tl_depth > 0 && !tl_busy) {
		tl_busy = true;
		if (requestFails()) { logEvent(K_NEW, 0, n, 0, 0, ENOMEM, true); tl_busy = false; throw std::bad_alloc(); }
		void* p = malloc(n ? n : 1);
		if (p) liveAdd((uintptr_t)p, n, 1);
		logEvent(K_NEW, (uintptr_t)p, n, 0, 0, p ? 0 : ENOMEM, false);
		tl_busy = false;
		if (!p) throw std::bad_alloc();
		return p;
	}
	void* p = malloc(n ? n : 1);
	if (!p) throw std::bad_alloc();
	return p;
}
static void rxvDelete(void* p) noexcept {
	if (!p) return;
	if (tl_depth > 0 && !tl_busy) {
		tl_busy = true;
		size_t len = 0;
		uint8_t k = liveDel((uintptr_t)p, &len);
		logEvent(K_DELETE, (uintptr_t)p, len, 0, 0, k ? 0 : -1, false);
		if (k && g_poisonFreed) {
			// hostile heap for small library objects: poison and delay reuse, so that a stale pointer into a released
			// object reads 0xDD.. (and crashes when it is followed) instead of silently finding the old or a look-alike object
			memset(p, 0xDD, len);
			void* old;
			{ Lock l(g_quarLock); old = g_quar[g_quarPos]; g_quar[g_quarPos] = p; g_quarPos = (g_quarPos + 1) % kQuar; }
			tl_busy = false;
			if (old) __real_free(old);
			return;
		}
		tl_busy = false;
	}
	__real_free(p);
}
void* operator new(size_t n) { return rxvNew(n); }
void* operator new[](size_t n) { return rxvNew(n); }
void operator delete(void* p) noexcept { rxvDelete(p); }
void operator delete[](void* p) noexcept { rxvDelete(p); }
void operator delete(void* p, size_t) noexcept { rxvDelete(p); }
void operator delete[](void* p, size_t) noexcept { rxvDelete(p); }
#endif
#ifndef RXV_REPLACE_NEW
namespace rxv { namespace ip { void setPoisonFreed(bool) {} } }
#endif
