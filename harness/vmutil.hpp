// Helpers to execute chosen program buffers through the real VM classes.
#pragma once
#include "rxv.hpp"
#include "api.hpp"
#include "access.hpp"
#include <xmmintrin.h>
#include <sys/mman.h>
#include <unistd.h>
#include <string>
#include <vector>
#include <memory>

namespace rxv {

static const size_t kProgramBytes = sizeof(randomx::Program); // 128 + 8 * 384 = 3200
static const size_t kScratchpadBytes = RANDOMX_SCRATCHPAD_L3;
static const uint64_t kDatasetBytes = (uint64_t)RANDOMX_DATASET_BASE_SIZE + RANDOMX_DATASET_EXTRA_SIZE;

// An "arbitrary dataset D" of full size without 2 GiB of resident memory: a small memfd window of
// PRNG bytes mapped repeatedly over the whole extent, PROT_NONE guard after the end (and before).
struct FakeDataset {
	randomx_dataset ds;
	uint8_t* base = nullptr;
	size_t window = 0;
	bool ok = false;
	// extentBytes: the extent the fake dataset stands for. Default = the size the configuration implies; C06 passes the size the
	// library itself requests in randomx_alloc_dataset (libraryDatasetExtent), so that a read beyond what the library would have
	// allocated lands in the guard page.
	explicit FakeDataset(uint64_t seed, size_t windowBytes = 32u << 20, uint64_t extentBytes = 0) {
		const uint64_t kDatasetBytes = extentBytes ? extentBytes : rxv::kDatasetBytes;
		window = windowBytes;
		int fd = memfd_create("rxv-dataset", 0);
		if (fd < 0 || ftruncate(fd, (off_t)window) != 0) return;
		uint8_t* w = (uint8_t*)mmap(nullptr, window, PROT_READ | PROT_WRITE, MAP_SHARED, fd, 0);
		if (w == MAP_FAILED) return;
		Rng r(seed, 0xda7a, 0); r.fill(w, window);
		munmap(w, window);
		const size_t page = 4096, tail = 1ULL << 32;
		// the dataset size is 64 bytes short of a page multiple: put its END on a page boundary
		const size_t rlen = (size_t)((kDatasetBytes + page - 1) & ~(uint64_t)(page - 1));
		const size_t pad = rlen - (size_t)kDatasetBytes;
		size_t total = page + rlen + tail;
		uint8_t* m = (uint8_t*)mmap(nullptr, total, PROT_NONE, MAP_PRIVATE | MAP_ANONYMOUS | MAP_NORESERVE, -1, 0);
		if (m == MAP_FAILED) return;
		for (size_t off = 0; off < rlen; off += window) {
			size_t n = rlen - off < window ? rlen - off : window;
			if (mmap(m + page + off, n, PROT_READ, MAP_SHARED | MAP_FIXED, fd, 0) == MAP_FAILED) return;
		}
		base = m + page + pad;
		close(fd);
		ds.memory = base;
		ds.dealloc = nullptr;
		ok = true;
	}
	randomx_dataset* get() { return &ds; }
};

// The number of bytes the library itself requests for a dataset: observed through the allocation interposer during one
// randomx_alloc_dataset(RANDOMX_FLAG_DEFAULT) call (untouched pages, released at once). 0 if it cannot be observed.
// Call before ip::enableGuards / setGarbageSeed so that the 2 GiB block is not filled.
inline uint64_t libraryDatasetExtent() {
	const size_t ev0 = ip::eventCount();
	randomx_dataset* d = api::allocDataset(RANDOMX_FLAG_DEFAULT);
	if (!d) return 0;
	const uintptr_t mem = (uintptr_t)randomx_get_dataset_memory(d);
	uint64_t len = 0;
	for (size_t i = ev0; i < ip::eventCount(); ++i) { ip::Event e = ip::eventAt(i); if (e.kind == ip::K_MEMALIGN && e.result == 0 && e.addr == mem) len = e.len; }
	api::releaseDataset(d);
	return len;
}

inline std::string flagsName(int f) {
	std::string s;
	auto add = [&](int bit, const char* n) { if (f & bit) { if (!s.empty()) s += "+"; s += n; } };
	add(RANDOMX_FLAG_LARGE_PAGES, "LARGE_PAGES"); add(RANDOMX_FLAG_HARD_AES, "HARD_AES"); add(RANDOMX_FLAG_FULL_MEM, "FULL_MEM");
	add(RANDOMX_FLAG_JIT, "JIT"); add(RANDOMX_FLAG_SECURE, "SECURE"); add(RANDOMX_FLAG_ARGON2_SSSE3, "ARGON2_SSSE3");
	add(RANDOMX_FLAG_ARGON2_AVX2, "ARGON2_AVX2"); add(RANDOMX_FLAG_V2, "V2");
	return s.empty() ? "DEFAULT" : s;
}

struct ProgResult {
	uint8_t reg[256];
	uint32_t fprc;      // MXCSR rounding bits (0..3) after the run
	uint64_t spHash;    // FNV-1a of the whole scratchpad after the run
};

inline uint32_t getFprc() { return (_mm_getcsr() >> 13) & 3; }
inline void setFprc(uint32_t mode) { _mm_setcsr((_mm_getcsr() & ~0x6000u) | ((mode & 3) << 13)); }

// Runs `program` (3200 bytes) through the real vm->run() with the given initial scratchpad
// (copied into the VM's own scratchpad), entry rounding mode and iteration limit (0 = 2048).
// If spOut != nullptr the whole scratchpad is copied out.
// key of the violation reported when a program run does not return (set by the subcommand; nullptr = no watchdog)
inline const char*& runWatchdogKey() { static const char* k = nullptr; return k; }

inline ProgResult runProgram(randomx_vm* vm, const uint8_t* program, const uint8_t* spInit, uint32_t entryFprc, unsigned iterLimit, uint8_t* spOut = nullptr) {
	using randomx_verif::Access;
	ProgResult res;
	uint8_t* sp = Access::scratchpad(vm);
	if (spInit) memcpy(sp, spInit, kScratchpadBytes);
	alignas(64) uint8_t progCopy[sizeof(randomx::Program)];
	memcpy(progCopy, program, sizeof progCopy); // the JIT reduces src/dst in place: never hand out the caller's buffer
	auto& h = randomx_verif::hooks();
	const void* savedOverride = h.programOverride; unsigned savedLimit = h.iterLimit;
	h.programOverride = progCopy; h.iterLimit = iterLimit;
	alignas(16) uint64_t seed[8] = { 0 };
	const unsigned savedCsr = _mm_getcsr();
	_mm_setcsr(0x9FC0 | ((entryFprc & 3) << 13)); // the state rx_reset_float_state / CFROUND establish, with the chosen rounding mode
	unsigned csrAfter;
	{
		ip::Api scope("vm->run");
		if (runWatchdogKey()) armRunWatchdog(runWatchdogKey(), 240); // a full interpreted run takes ~0.1 s (a few seconds under sanitizers on a loaded machine)
		vm->run(seed);
		csrAfter = _mm_getcsr();
		if (runWatchdogKey()) disarmRunWatchdog();
	}
	_mm_setcsr(savedCsr);
	h.programOverride = savedOverride; h.iterLimit = savedLimit;
	memcpy(res.reg, vm->getRegisterFile(), 256);
	res.fprc = (csrAfter >> 13) & 3;
	res.spHash = fnv1a(sp, kScratchpadBytes);
	if (spOut) memcpy(spOut, sp, kScratchpadBytes);
	return res;
}

struct CacheHolder {
	randomx_cache* c = nullptr;
	CacheHolder(randomx_flags f, const void* key, size_t n) { c = api::allocCache(f); if (c) api::initCache(c, key, n); }
	~CacheHolder() { if (c) api::releaseCache(c); }
	CacheHolder(const CacheHolder&) = delete;
};

struct VmHolder {
	randomx_vm* vm = nullptr;
	VmHolder(randomx_flags f, randomx_cache* c, randomx_dataset* d) { vm = api::createVm(f, c, d); }
	~VmHolder() { if (vm) api::destroyVm(vm); }
	VmHolder(const VmHolder&) = delete;
};

// program builder
struct Instr { uint8_t opcode, dst, src, mod; uint32_t imm; };
inline void putInstr(uint8_t* program, unsigned slot, const Instr& in) {
	uint8_t* p = program + 128 + 8 * slot;
	p[0] = in.opcode; p[1] = in.dst; p[2] = in.src; p[3] = in.mod; memcpy(p + 4, &in.imm, 4);
}
inline Instr getInstr(const uint8_t* program, unsigned slot) {
	const uint8_t* p = program + 128 + 8 * slot; Instr in; in.opcode = p[0]; in.dst = p[1]; in.src = p[2]; in.mod = p[3]; memcpy(&in.imm, p + 4, 4); return in;
}

// first opcode value of each instruction type, derived from the frequency table of the tree under test
struct Opcodes {
	int first[30], count[30];
	Opcodes() {
		const int freq[30] = { RANDOMX_FREQ_IADD_RS, RANDOMX_FREQ_IADD_M, RANDOMX_FREQ_ISUB_R, RANDOMX_FREQ_ISUB_M, RANDOMX_FREQ_IMUL_R, RANDOMX_FREQ_IMUL_M,
			RANDOMX_FREQ_IMULH_R, RANDOMX_FREQ_IMULH_M, RANDOMX_FREQ_ISMULH_R, RANDOMX_FREQ_ISMULH_M, RANDOMX_FREQ_IMUL_RCP, RANDOMX_FREQ_INEG_R,
			RANDOMX_FREQ_IXOR_R, RANDOMX_FREQ_IXOR_M, RANDOMX_FREQ_IROR_R, RANDOMX_FREQ_IROL_R, RANDOMX_FREQ_ISWAP_R, RANDOMX_FREQ_FSWAP_R,
			RANDOMX_FREQ_FADD_R, RANDOMX_FREQ_FADD_M, RANDOMX_FREQ_FSUB_R, RANDOMX_FREQ_FSUB_M, RANDOMX_FREQ_FSCAL_R, RANDOMX_FREQ_FMUL_R,
			RANDOMX_FREQ_FDIV_M, RANDOMX_FREQ_FSQRT_R, RANDOMX_FREQ_CBRANCH, RANDOMX_FREQ_CFROUND, RANDOMX_FREQ_ISTORE, RANDOMX_FREQ_NOP };
		int c = 0;
		for (int i = 0; i < 30; ++i) { first[i] = c; count[i] = freq[i]; c += freq[i]; }
	}
	// an opcode byte of the given type (k-th of its range, wrapped)
	uint8_t of(int type, unsigned k = 0) const { return (uint8_t)(first[type] + (count[type] ? k % count[type] : 0)); }
};
enum IType { T_IADD_RS, T_IADD_M, T_ISUB_R, T_ISUB_M, T_IMUL_R, T_IMUL_M, T_IMULH_R, T_IMULH_M, T_ISMULH_R, T_ISMULH_M, T_IMUL_RCP, T_INEG_R,
	T_IXOR_R, T_IXOR_M, T_IROR_R, T_IROL_R, T_ISWAP_R, T_FSWAP_R, T_FADD_R, T_FADD_M, T_FSUB_R, T_FSUB_M, T_FSCAL_R, T_FMUL_R, T_FDIV_M, T_FSQRT_R,
	T_CBRANCH, T_CFROUND, T_ISTORE, T_NOP, T_COUNT };
static const char* const itypeNames[] = { "IADD_RS", "IADD_M", "ISUB_R", "ISUB_M", "IMUL_R", "IMUL_M", "IMULH_R", "IMULH_M", "ISMULH_R", "ISMULH_M", "IMUL_RCP", "INEG_R",
	"IXOR_R", "IXOR_M", "IROR_R", "IROL_R", "ISWAP_R", "FSWAP_R", "FADD_R", "FADD_M", "FSUB_R", "FSUB_M", "FSCAL_R", "FMUL_R", "FDIV_M", "FSQRT_R",
	"CBRANCH", "CFROUND", "ISTORE", "NOP" };

} // namespace rxv
