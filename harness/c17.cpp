// C17: the portable (non-SIMD) code path computes the same function. Cross-build differential: this subcommand runs
// in the `opt` and in the `port` build (generic rx_vec_* structs, fenv rounding, 32x32 mulh, no __int128, no AES-NI)
// from the same seed-derived case stream and emits one record per case; the driver joins the two streams by id.
// The port build additionally checks that the single-call hash preserves the caller's fenv rounding mode.
#include "progs.hpp"
#include "cases.hpp"
#include <cfenv>
extern "C" {
#include "reciprocal.h"
}
#include <unistd.h>

using namespace rxv;

namespace {
std::string g_lines;
void emit(const std::string& id, const std::string& what, const std::string& value) {
	g_lines += "{\"type\":\"c17\",\"id\":" + jsonStr(id) + ",\"what\":" + jsonStr(what) + ",\"value\":\"" + value + "\"}\n";
	if (g_lines.size() > (1u << 16)) { ssize_t w = write(R.fd, g_lines.data(), g_lines.size()); (void)w; g_lines.clear(); }
}
}

RXV_SUBCOMMAND(c17) {
	runWatchdogKey() = "C17:watchdog:program-execution-did-not-return";
	Rng rng(args.seed, 0xc17, args.shard);
	const bool thorough = args.thorough();
	const uint64_t nProgs = args.cases ? args.cases : 60;
	const uint64_t nArith = args.num("arith", thorough ? 6000000 : 400000);
	const uint64_t nHashes = args.num("nhashes", 2);
#if defined(__SSE2__)
	const bool portable = false;
#else
	const bool portable = true;
#endif
	R.note("build", portable ? "\"portable\"" : "\"optimised\"");
	for (const char* f : { "arith_ops", "programs", "hash_digests", "dataset_items", "reciprocals" }) R.floorKey(f);
	if (portable) R.floorKey("fenv_rounding_checks");
	const std::string sh = "s" + std::to_string(args.shard) + ":";

	// ---- (1) integer helpers: mulh / smulh / rotr / rotl (sign and carry edges + random)
	{
		static const uint64_t edge[] = { 0, 1, 2, 0xffffffffULL, 0x100000000ULL, 0x7fffffffffffffffULL, 0x8000000000000000ULL, 0xffffffffffffffffULL, 0xfffffffffffffffeULL, 0x00000000ffffffffULL, 0xffffffff00000000ULL, 0x8000000080000000ULL, 0x7fffffff7fffffffULL, 0x0000000100000001ULL };
		const int ne = sizeof edge / sizeof edge[0];
		uint64_t acc[4] = { 1, 2, 3, 4 };
		auto mix = [](uint64_t& a, uint64_t v) { a = (a ^ v) * 0x100000001b3ULL; a ^= a >> 29; };
		ip::Api scope("int-helpers");
		for (int i = 0; i < ne; ++i) for (int j = 0; j < ne; ++j) {
			uint64_t a = edge[i], b = edge[j];
			char buf[160]; snprintf(buf, sizeof buf, "%016llx,%016llx,%016llx,%016llx", (unsigned long long)mulh(a, b), (unsigned long long)smulh((int64_t)a, (int64_t)b), (unsigned long long)rotr(a, (unsigned)(b & 63)), (unsigned long long)rotl(a, (unsigned)(b & 63)));
			if (args.shard == 0) emit("arith-edge:" + std::to_string(i) + "," + std::to_string(j), "mulh,smulh,rotr,rotl", buf);
		}
		for (uint64_t q = 0; q < nArith; ++q) {
			uint64_t a = rng.next(), b = rng.next();
			switch (q & 7) { case 1: a = edge[rng.below(ne)]; break; case 2: b = edge[rng.below(ne)]; break; case 3: a &= 0xffffffffULL; break; case 4: b |= 0xffffffff00000000ULL; break; case 5: a = (uint64_t)(int64_t)(int32_t)rng.u32(); break; default: break; }
			mix(acc[0], mulh(a, b)); mix(acc[1], (uint64_t)smulh((int64_t)a, (int64_t)b)); mix(acc[2], rotr(a, (unsigned)(b & 63))); mix(acc[3], rotl(a, (unsigned)(b & 63)));
			if ((q & 0xffff) == 0xffff) emit(sh + "arith-block:" + std::to_string(q >> 16), "running hash of mulh/smulh/rotr/rotl results", hex(acc, 32));
		}
		emit(sh + "arith-final", "running hash of mulh/smulh/rotr/rotl results", hex(acc, 32));
		R.count("arith_ops", 4 * nArith); R.evaluation(nArith);
		// reciprocals
		uint64_t racc = 7;
		for (int i = 0; i < 200000; ++i) { uint32_t d = rng.u32(); if ((d & (d - 1)) == 0) continue; mix(racc, randomx_reciprocal(d)); mix(racc, randomx_reciprocal_fast(d)); }
		emit(sh + "reciprocals", "running hash of 200000 reciprocals", hex(&racc, 8)); R.count("reciprocals", 200000);
	}

	// ---- (2) program buffers through the interpreter (C04/C05 generator streams): register file, scratchpad, rounding mode
	ProgFixture fx(args.seed * 17 + args.shard);
	{
		alignas(64) uint8_t prog[pg::PROG_BYTES];
		for (uint64_t ci = 0; ci < nProgs; ++ci) {
			const int gen = 1 + (int)(ci % 6);
			pg::Meta meta; pg::genProgram(rng, gen, prog, &meta);
			const bool v2 = rng.chance(1, 2), full = rng.chance(1, 2);
			const int spKind = (int)(rng.chance(1, 2) ? pg::SP_RANDOM : rng.below(pg::SP_COUNT));
			const uint32_t fprc = (uint32_t)rng.below(4);
			const unsigned iters = pickIterations(rng, true);
			pg::genScratchpad(rng, spKind, fx.sp0.data());
			R.setCase("{\"program_case\":" + std::to_string(ci) + ",\"generator\":\"" + pg::genNames[gen] + "\",\"program\":\"" + hex(prog, pg::PROG_BYTES) + "\"}");
			ProgResult r = runProgram(fx.vm((v2 ? RANDOMX_FLAG_V2 : 0) | (full ? RANDOMX_FLAG_FULL_MEM : 0)), prog, fx.sp0.data(), fprc, iters, nullptr);
			char tail[64]; snprintf(tail, sizeof tail, ",sp=%016llx,fprc=%u", (unsigned long long)r.spHash, r.fprc);
			emit(sh + "prog:" + std::to_string(ci), std::string(pg::genNames[gen]) + (v2 ? " v2" : " v1") + (full ? " full" : " light") + " iters=" + std::to_string(iters ? iters : 2048) + " program=" + hex(prog, 64) + "...", hex(r.reg, 256) + tail);
			R.count("programs"); R.evaluation();
			R.nontrivial(fnv1a(prog, pg::PROG_BYTES));
			if (ci < 2) R.sample("{\"kind\":\"program\",\"generator\":\"" + std::string(pg::genNames[gen]) + "\",\"v2\":" + std::to_string(v2) + ",\"full_mem\":" + std::to_string(full) + ",\"iterations\":" + std::to_string(iters ? iters : 2048) + ",\"program_head\":\"" + hex(prog, 160) + "\",\"register_file_r\":\"" + hex(r.reg, 64) + "\"}");
			R.clearCase();
		}
	}
	// ---- (3) whole hashes (interpreter classes) and dataset items; (4) fenv rounding mode preserved (port build)
	{
		randomx_cache* cache = fx.cache->c;
		for (uint64_t h = 0; h < nHashes; ++h) for (int v2 = 0; v2 < 2; ++v2) {
			std::vector<uint8_t> in = cases::makeInput(rng, (args.shard * 7 + h) % 15);
			uint8_t out[32];
			randomx_vm* vm = fx.vm(v2 ? RANDOMX_FLAG_V2 : 0);
			const int modes[4] = { FE_TONEAREST, FE_DOWNWARD, FE_UPWARD, FE_TOWARDZERO };
			const int m = modes[(h + v2 + args.shard) & 3];
			R.setCase("{\"hash_case\":" + std::to_string(h) + ",\"v2\":" + std::to_string(v2) + "}");
			fesetround(m);
			api::hash(vm, in.data(), in.size(), out);
			const int after = fegetround();
			fesetround(FE_TONEAREST);
			if (after != m) R.violation(std::string("C17:fenv:rounding-mode-not-preserved:") + (portable ? "portable" : "optimised"), "{\"entry\":" + std::to_string(m) + ",\"exit\":" + std::to_string(after) + "}");
			R.count("fenv_rounding_checks");
			emit(sh + "hash:" + std::to_string(h) + ":" + std::to_string(v2), "digest of input " + hex(in.data(), in.size() > 32 ? 32 : in.size()) + " len " + std::to_string(in.size()), hex(out, 32));
			R.count("hash_digests"); R.evaluation();
			R.clearCase();
		}
		uint64_t iacc = 5; auto mix = [](uint64_t& a, uint64_t v) { a = (a ^ v) * 0x100000001b3ULL; a ^= a >> 29; };
		const unsigned long start = (unsigned long)rng.below(34000000);
		for (unsigned long it = start; it < start + 3000; ++it) { uint64_t item[8]; { ip::Api s("initDatasetItem"); randomx::initDatasetItem(cache, (uint8_t*)item, it); } for (auto x : item) mix(iacc, x); R.count("dataset_items"); }
		emit(sh + "items", "running hash of 3000 dataset items from " + std::to_string(start), hex(&iacc, 8));
	}
	if (!g_lines.empty()) { ssize_t w = write(R.fd, g_lines.data(), g_lines.size()); (void)w; g_lines.clear(); }
	return 0;
}
