// C03, program level: what a VM object executed before (other programs, the other version, other scratchpad contents)
// must not influence the execution of the next program. The API-level histories of c03.cpp only ever run the programs
// that real inputs produce, so state kept inside the VM between programs (bytecode slots, register-usage tables, code
// buffer remains, branch-target tables) is only exercised with ordinary instruction words. Here long-lived VMs of every
// class execute chains of generated programs (rare encodings included) and every step is repeated on a VM created for
// that step alone: register file, scratchpad and exit rounding mode must be identical.
#include "progs.hpp"

using namespace rxv;

RXV_SUBCOMMAND(c03p) {
	runWatchdogKey() = "C03:watchdog:program-execution-did-not-return";
	Rng rng(args.seed, 0xc03b, args.shard);
	const uint64_t nCases = args.cases ? args.cases : 40;
	ip::enableGuards(true);
	ip::setGarbageSeed(args.seed * 104729 + args.shard * 17 + 3); // fresh VM objects start from garbage, not from zero pages
	ProgFixture fx(args.seed * 37 + args.shard);
	for (const char* f : { "program_steps_compared", "steps_after_other_program", "steps_after_version_switch", "class_interpreter", "class_jit", "class_jit_secure", "mode_light", "mode_full", "v1", "v2" }) R.floorKey(f);
	const int engines[3] = { 0, RANDOMX_FLAG_JIT, RANDOMX_FLAG_JIT | RANDOMX_FLAG_SECURE };
	std::map<int, randomx_vm*> used;      // long-lived VM per class: its history grows over the whole run
	std::map<int, int> usedVersion;       // version the long-lived VM is currently switched to (-1: as created)
	std::map<int, uint64_t> prevProgHash;
	std::vector<uint8_t> spU(kScratchpadBytes), spF(kScratchpadBytes);
	alignas(64) uint8_t prog[pg::PROG_BYTES];

	for (uint64_t ci = 0; ci < nCases; ++ci) {
		const int e = (int)((ci + args.shard) % 3);
		const bool hard = (fx.hw & RANDOMX_FLAG_HARD_AES) && rng.chance(1, 2), full = rng.chance(1, 2);
		const int cls = engines[e] | (hard ? RANDOMX_FLAG_HARD_AES : 0) | (full ? RANDOMX_FLAG_FULL_MEM : 0);
		if (!used.count(cls)) {
			randomx_vm* v = api::createVm((randomx_flags)cls, full ? nullptr : fx.cache->c, full ? fx.ds->get() : nullptr);
			if (!v) R.harnessFail("create_vm " + flagsName(cls));
			used[cls] = v; usedVersion[cls] = 0; prevProgHash[cls] = 0;
		}
		randomx_vm* vu = used[cls];
		const unsigned steps = 2 + (unsigned)rng.below(3);
		std::string chain;
		for (unsigned s = 0; s < steps; ++s) {
			// generators: directed / one-type / maxlen carry the rare encodings; random and real-mutated give ordinary neighbours
			static const int gens[] = { pg::G_DIRECTED, pg::G_ONE_TYPE, pg::G_DIRECTED, pg::G_MAXLEN, pg::G_RANDOM, pg::G_REAL_MUTATED, pg::G_BRANCH_DENSE, pg::G_DIRECTED };
			const int gen = gens[rng.below(8)];
			pg::Meta meta; pg::genProgram(rng, gen, prog, &meta);
			const bool v2 = rng.chance(1, 2);
			const int spKind = (int)(rng.chance(1, 2) ? pg::SP_RANDOM : rng.below(pg::SP_COUNT));
			const uint32_t fprc = (uint32_t)rng.below(4);
			const unsigned iters = pickIterations(rng, false);
			pg::genScratchpad(rng, spKind, fx.sp0.data());
			char head[320]; snprintf(head, sizeof head, "{\"class\":\"%s\",\"step\":%u,\"generator\":\"%s\",\"what\":\"%s\",\"v2\":%d,\"scratchpad\":\"%s\",\"entry_fprc\":%u,\"iterations\":%u,\"shard\":%u,\"case\":%llu",
				flagsName(cls).c_str(), s, pg::genNames[gen], meta.what.c_str(), v2, pg::spNames[spKind], fprc, iters, args.shard, (unsigned long long)ci);
			const std::string stepJson = std::string(head) + ",\"program\":\"" + hex(prog, pg::PROG_BYTES) + "\"}";
			chain += (chain.empty() ? "" : ",") + stepJson;
			R.setCase("{\"steps\":[" + chain + "]}");
			const bool switched = usedVersion[cls] != (int)v2;
			{ ip::Api sc("setFlagV2"); if (v2) vu->setFlagV2(); else vu->clearFlagV2(); }
			usedVersion[cls] = v2;
			ProgResult ru = runProgram(vu, prog, fx.sp0.data(), fprc, iters, spU.data());
			// the same step on a VM that has no history at all
			randomx_vm* vf = api::createVm((randomx_flags)(cls | (v2 ? RANDOMX_FLAG_V2 : 0)), full ? nullptr : fx.cache->c, full ? fx.ds->get() : nullptr);
			if (!vf) R.harnessFail("create fresh vm " + flagsName(cls));
			ProgResult rf = runProgram(vf, prog, fx.sp0.data(), fprc, iters, spF.data());
			api::destroyVm(vf);
			std::string diff;
			if (memcmp(ru.reg, rf.reg, 256)) { int off = 0; while (ru.reg[off] == rf.reg[off]) ++off; static const char* grp[] = { "r", "f", "e", "a" }; diff = std::string("register-file:") + grp[off / 64]; }
			else if (memcmp(spU.data(), spF.data(), kScratchpadBytes)) diff = "scratchpad";
			else if (ru.fprc != rf.fprc) diff = "rounding-mode-on-exit";
			if (!diff.empty())
				R.violation(std::string("C03:program-history:used-vm-differs-from-fresh-vm:") + (e == 0 ? "interpreter:" : "jit:") + diff,
					"{\"steps\":[" + chain + "],\"used_reg\":\"" + hex(ru.reg, 256) + "\",\"fresh_reg\":\"" + hex(rf.reg, 256) + "\",\"fprc_used\":" + std::to_string(ru.fprc) + ",\"fprc_fresh\":" + std::to_string(rf.fprc) + "}");
			const uint64_t ph = fnv1a(prog, pg::PROG_BYTES);
			R.count("program_steps_compared"); R.evaluation();
			if (prevProgHash[cls] && prevProgHash[cls] != ph) { R.count("steps_after_other_program"); R.nontrivial(ph ^ (prevProgHash[cls] * 0x9E3779B97F4A7C15ull) ^ (uint64_t)cls); }
			if (switched) R.count("steps_after_version_switch");
			if (ci < 1 && s < 2) R.sample(std::string(head) + ",\"program_head\":\"" + hex(prog, 160) + "\",\"previous_program_hash_on_this_vm\":\"" + std::to_string(prevProgHash[cls]) + "\"}");
			prevProgHash[cls] = ph;
			R.count(e == 0 ? "class_interpreter" : e == 1 ? "class_jit" : "class_jit_secure");
			R.count(full ? "mode_full" : "mode_light"); R.count(v2 ? "v2" : "v1");
			R.count(std::string("gen_") + pg::genNames[gen]);
		}
		R.clearCase();
	}
	for (auto& kv : used) api::destroyVm(kv.second);
	return 0;
}
