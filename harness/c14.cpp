// C14: concurrent hashing and dataset initialisation over shared data are race-free.
// Run in the TSan build (happens-before race detector over all C/C++ of the library) and in the opt build (results
// only). Every thread's digests and every dataset byte are compared with the sequential result; the compiled dataset
// initialiser (invisible to TSan) is covered by the write-set log. Evidence: temporally overlapping pairs of API calls.
#include "rxv.hpp"
#include "api.hpp"
#include "vmutil.hpp"
#include "cases.hpp"
#include <thread>
#include <array>
#include <mutex>
#include <atomic>
#include <algorithm>
#include <sched.h>
#include <unistd.h>

using namespace rxv;

namespace {
typedef std::array<uint8_t, 32> Digest;
void jitter(Rng& r) { switch (r.below(4)) { case 0: sched_yield(); break; case 1: usleep((useconds_t)r.below(300)); break; default: break; } }

struct WriteRec { uint32_t thread; uintptr_t dst; uint32_t start, end; };
std::mutex g_wmu; std::vector<WriteRec> g_writes; randomx::DatasetInitFunc* g_realInit = nullptr;
void recordingInit(randomx_cache* cache, uint8_t* dataset, uint32_t s, uint32_t e) { { std::lock_guard<std::mutex> l(g_wmu); g_writes.push_back({ api::threadIndex(), (uintptr_t)dataset, s, e }); } g_realInit(cache, dataset, s, e); }
}

RXV_SUBCOMMAND(c14) {
	Rng rng(args.seed, 0xc14, args.shard);
	const bool thorough = args.thorough();
	const uint64_t reps = args.cases ? args.cases : 1;
	const unsigned hashesPerThread = (unsigned)args.num("nhashes", 2);
	const bool withDataset = args.num("dataset", 0) != 0;
	const randomx_flags hw = api::getFlags();
	for (const char* f : { "w1_threads_run", "w1_digests_compared", "w3_ranges_initialised", "w3_items_compared", "w4_private_ops", "overlap:create_vm||create_vm", "overlap:hash||hash", "overlap:create_vm||hash", "overlap:init_dataset||init_dataset", "vm_class_hard_aes", "vm_class_jit", "vm_class_secure", "vm_class_interpreter" }) R.floorKey(f);
	if (withDataset) R.floorKey("w2_digests_compared");
	api::callLog().enable();

	std::vector<uint8_t> key = cases::makeKey(rng, 0);
	std::vector<std::vector<uint8_t>> inputs; for (int i = 0; i < 4; ++i) inputs.push_back(cases::makeInput(rng, 40 + i));
	randomx_cache* cache = api::allocCache((randomx_flags)(RANDOMX_FLAG_JIT | (hw & (RANDOMX_FLAG_ARGON2_AVX2 | RANDOMX_FLAG_ARGON2_SSSE3))));
	if (!cache) R.harnessFail("cache");
	api::initCache(cache, cases::nn(key), key.size());
	// sequential reference digests
	Digest ref[2][4];
	for (int v2 = 0; v2 < 2; ++v2) { randomx_vm* vm = api::createVm((randomx_flags)(RANDOMX_FLAG_JIT | (v2 ? RANDOMX_FLAG_V2 : 0)), cache, nullptr); if (!vm) R.harnessFail("vm"); for (int i = 0; i < 4; ++i) api::hash(vm, inputs[i].data(), inputs[i].size(), ref[v2][i].data()); api::destroyVm(vm); }
	randomx_dataset* ds = nullptr;
	if (withDataset) {
		ds = api::allocDataset(RANDOMX_FLAG_DEFAULT); if (!ds) R.harnessFail("dataset");
		std::vector<std::thread> th; const unsigned long total = randomx_dataset_item_count();
		for (unsigned t = 0; t < 16; ++t) th.emplace_back([=] { api::initDataset(ds, cache, total * t / 16, total * (t + 1) / 16 - total * t / 16); });
		for (auto& t : th) t.join();
	}
	auto vmClass = [&](Rng& r) {
		int f = 0;
		switch (r.below(4)) { case 0: break; case 1: f = RANDOMX_FLAG_JIT; break; case 2: f = RANDOMX_FLAG_JIT | RANDOMX_FLAG_SECURE; break; default: f = r.chance(1, 2) ? RANDOMX_FLAG_SECURE : RANDOMX_FLAG_JIT; break; }
		if ((hw & RANDOMX_FLAG_HARD_AES) && r.chance(2, 3)) f |= RANDOMX_FLAG_HARD_AES;
		if (r.chance(1, 2)) f |= RANDOMX_FLAG_V2;
		return f;
	};

	for (uint64_t rep = 0; rep < reps; ++rep) {
		const unsigned threads = 2 + (unsigned)rng.below(thorough ? 15 : 7);
		// ================= W1 (+W2): own VMs over one shared cache / dataset, W4: private-object threads next to them
		{
			std::atomic<int> bad{ 0 }; std::mutex mu; std::string firstBad;
			std::atomic<uint64_t> digests{ 0 }, digests2{ 0 }, privOps{ 0 };
			std::atomic<uint64_t> cls[4]; for (auto& c : cls) c = 0;
			std::vector<std::thread> th;
			std::atomic<bool> go{ false };
			for (unsigned t = 0; t < threads; ++t) th.emplace_back([&, t] {
				api::threadIndex() = t + 1; Rng r(args.seed, 0xc14000 + rep * 64 + t, args.shard);
				while (!go.load()) { }
				if (t % 4 == 3) {
					// W4: objects no other thread uses
					for (int k = 0; k < 2; ++k) {
						api::getFlags();
						randomx_cache* c = api::allocCache((randomx_flags)(r.chance(1, 2) ? RANDOMX_FLAG_JIT : 0)); if (!c) { ++bad; return; }
						std::vector<uint8_t> k1 = cases::makeKey(r, 60 + t), k2 = cases::makeKey(r, 70 + t);
						api::initCache(c, cases::nn(k1), k1.size()); jitter(r);
						if (k == 0) api::initCache(c, cases::nn(k2), k2.size());
						api::releaseCache(c); privOps += 4;
					}
					return;
				}
				for (unsigned round = 0; round < 2; ++round) {
					const int f = vmClass(r); const bool full = ds && r.chance(1, 2);
					cls[(f & RANDOMX_FLAG_HARD_AES) ? 0 : 3]++; if (f & RANDOMX_FLAG_JIT) cls[1]++; if (f & RANDOMX_FLAG_SECURE) cls[2]++; if (!(f & RANDOMX_FLAG_JIT)) cls[3]++;
					jitter(r);
					randomx_vm* vm = api::createVm((randomx_flags)(f | (full ? RANDOMX_FLAG_FULL_MEM : 0)), full ? nullptr : cache, full ? ds : nullptr);
					if (!vm) { ++bad; std::lock_guard<std::mutex> l(mu); if (firstBad.empty()) firstBad = "create_vm returned NULL: " + flagsName(f); return; }
					for (unsigned h = 0; h < hashesPerThread; ++h) {
						const int in = (int)r.below(4); Digest d; jitter(r);
						api::hash(vm, inputs[in].data(), inputs[in].size(), d.data());
						if (d != ref[(f & RANDOMX_FLAG_V2) ? 1 : 0][in]) { ++bad; std::lock_guard<std::mutex> l(mu); if (firstBad.empty()) firstBad = "digest differs from sequential result: " + flagsName(f) + (full ? " fast" : " light") + " input " + std::to_string(in); }
						if (full) ++digests2; else ++digests;
					}
					jitter(r);
					api::destroyVm(vm);
				}
			});
			go = true;
			for (auto& t : th) t.join();
			if (bad) R.violation("C14:results:concurrent-result-differs-from-sequential", "{\"threads\":" + std::to_string(threads) + ",\"first\":" + jsonStr(firstBad) + "}");
			R.count("w1_threads_run", threads); R.count("w1_digests_compared", digests); R.count("w2_digests_compared", digests2); R.count("w4_private_ops", privOps);
			R.count("vm_class_hard_aes", cls[0]); R.count("vm_class_jit", cls[1]); R.count("vm_class_secure", cls[2]); R.count("vm_class_interpreter", cls[3]);
			R.evaluation(); R.nontrivial(fnv1a(&rep, 8) ^ threads ^ (args.shard << 20));
			R.sample("{\"workload\":\"W1/W4\",\"threads\":" + std::to_string(threads) + ",\"digests\":" + std::to_string(digests.load() + digests2.load()) + "}");
		}
		// ================= W3: concurrent init_dataset on disjoint ranges with odd boundaries, both initialisers
		for (int jit = 0; jit < 2; ++jit) {
			randomx_cache* c = jit ? cache : nullptr;
			if (!jit) { c = api::allocCache(RANDOMX_FLAG_DEFAULT); if (!c) R.harnessFail("cache"); api::initCache(c, cases::nn(key), key.size()); }
			randomx_dataset* d = api::allocDataset(RANDOMX_FLAG_DEFAULT); if (!d) R.harnessFail("dataset");
			uint8_t* mem = (uint8_t*)randomx_get_dataset_memory(d);
			const unsigned long total = randomx_dataset_item_count();
			const unsigned long wlen = jit ? 60000 : (thorough ? 20000 : 3000);
			const unsigned long wstart = rng.chance(1, 3) ? total - wlen : (unsigned long)rng.below(total - wlen);
			std::vector<unsigned long> cut = { wstart };
			for (unsigned t = 1; t < threads; ++t) cut.push_back(wstart + wlen * t / threads + (unsigned long)rng.below(3));
			cut.push_back(wstart + wlen);
			for (unsigned t = 0; t + 1 < cut.size(); ++t) if (cut[t + 1] < cut[t]) cut[t + 1] = cut[t];
			if (jit) { g_realInit = c->datasetInit; c->datasetInit = &recordingInit; std::lock_guard<std::mutex> l(g_wmu); g_writes.clear(); }
			{
				std::vector<std::thread> th; std::atomic<bool> go{ false };
				for (unsigned t = 0; t < threads; ++t) th.emplace_back([&, t] { api::threadIndex() = t + 1; Rng r(args.seed, 0xc14300 + t, rep); while (!go.load()) { }
					// each thread splits its range once more at an odd point (count % 4 != 0, count < 4 at the end)
					unsigned long a = cut[t], b = cut[t + 1]; if (b - a > 8) { unsigned long m = b - 1 - r.below(3); jitter(r); api::initDataset(d, c, a, m - a); jitter(r); api::initDataset(d, c, m, b - m); } else if (b > a) api::initDataset(d, c, a, b - a); });
				go = true; for (auto& t : th) t.join();
			}
			if (jit) {
				c->datasetInit = g_realInit;
				std::lock_guard<std::mutex> l(g_wmu);
				struct Iv { uintptr_t a, b; unsigned t; }; std::vector<Iv> iv;
				for (auto& w : g_writes) { uintptr_t a = w.dst, b = w.dst + (uintptr_t)(w.end - w.start) * 64; if (a >= (uintptr_t)mem && a < (uintptr_t)mem + kDatasetBytes) iv.push_back({ a, b, w.thread }); }
				std::sort(iv.begin(), iv.end(), [](const Iv& x, const Iv& y) { return x.a < y.a; });
				uintptr_t maxEnd = 0; unsigned mt = 0;
				for (auto& x : iv) { if (x.a < maxEnd && x.t != mt) { R.violation("C14:writeset:overlapping-writes-from-different-threads", "{\"initialiser\":\"compiled\"}"); break; } if (x.b > maxEnd) { maxEnd = x.b; mt = x.t; } }
				R.count("w3_write_records", g_writes.size());
			}
			bool ok = true;
			for (unsigned long it = wstart; it < wstart + wlen && ok; it += (jit ? 7 : 1)) { uint8_t want[64]; { ip::Api s("initDatasetItem"); randomx::initDatasetItem(cache, want, it); } if (memcmp(want, mem + it * 64, 64)) { ok = false; R.violation(std::string("C14:results:dataset-item-differs-from-sequential:") + (jit ? "compiled" : "interpreter"), "{\"item\":" + std::to_string(it) + ",\"threads\":" + std::to_string(threads) + "}"); } R.count("w3_items_compared"); }
			R.count("w3_ranges_initialised", 2 * threads); R.evaluation();
			api::releaseDataset(d); if (!jit) api::releaseCache(c);
		}
	}
	if (ds) api::releaseDataset(ds);
	api::releaseCache(cache);

	// ---- evidence: which kinds of API calls actually overlapped in time (distinct threads)
	{
		api::CallLog& L = api::callLog(); const size_t n = L.size();
		std::vector<api::CallRec> v(L.recs, L.recs + n);
		std::sort(v.begin(), v.end(), [](const api::CallRec& a, const api::CallRec& b) { return a.t0 < b.t0; });
		std::map<std::string, uint64_t> ov;
		for (size_t i = 0; i < n; ++i) for (size_t j = i + 1; j < n && v[j].t0 < v[i].t1; ++j) if (v[i].thread != v[j].thread) {
			const char* a = api::callKindNames[v[i].kind]; const char* b = api::callKindNames[v[j].kind];
			std::string k = std::string(a) < b ? std::string(a) + "||" + b : std::string(b) + "||" + a; ov[k]++;
		}
		for (auto& kv : ov) R.count("overlap:" + kv.first, kv.second);
		R.count("api_calls_logged", n);
	}
	return 0;
}
