// C05: every instruction word executes with the specified semantics (reference-model monitor in lock-step
// with the real interpreter) and FP register groups keep their invariants (invariant monitor at a hook).
#include "progs.hpp"
#include "cases.hpp"

using namespace rxv;
using randomx_verif::Access;

namespace {

inline uint64_t lo(const rx_vec_f128& v) { double d[2]; rx_store_vec_f128(d, v); uint64_t b; memcpy(&b, &d[0], 8); return b; }
inline uint64_t hi(const rx_vec_f128& v) { double d[2]; rx_store_vec_f128(d, v); uint64_t b; memcpy(&b, &d[1], 8); return b; }
inline rx_vec_f128 mk(uint64_t l, uint64_t h) { double d[2]; memcpy(&d[0], &l, 8); memcpy(&d[1], &h, 8); return rx_load_vec_f128(d); }

// first difference between the real native register file (r, f, e) and the model state, "" if equal
std::string diffState(const randomx::NativeRegisterFile& n, const mdl::Vm& m) {
	for (int i = 0; i < 8; ++i) if (n.r[i] != m.r[i]) return "r" + std::to_string(i);
	for (int i = 0; i < 4; ++i) { if (lo(n.f[i]) != m.f[i][0] || hi(n.f[i]) != m.f[i][1]) return "f" + std::to_string(i); }
	for (int i = 0; i < 4; ++i) { if (lo(n.e[i]) != m.e[i][0] || hi(n.e[i]) != m.e[i][1]) return "e" + std::to_string(i); }
	return "";
}
std::string stateJson(const randomx::NativeRegisterFile& n) {
	std::string s = "{\"r\":\"" + hex(n.r, 64) + "\",\"f\":\"";
	for (int i = 0; i < 4; ++i) { uint64_t v[2] = { lo(n.f[i]), hi(n.f[i]) }; s += hex(v, 16); }
	s += "\",\"e\":\"";
	for (int i = 0; i < 4; ++i) { uint64_t v[2] = { lo(n.e[i]), hi(n.e[i]) }; s += hex(v, 16); }
	return s + "\"}";
}
std::string modelJson(const mdl::Vm& m) { return "{\"r\":\"" + hex(m.r, 64) + "\",\"f\":\"" + hex(m.f, 64) + "\",\"e\":\"" + hex(m.e, 64) + "\",\"fprc\":" + std::to_string(m.fprc) + "}"; }

inline bool fpBad(uint64_t b) { return mdl::sf::isNaN(b) || mdl::sf::isSubnormal(b); }

// ------------------------------------------------------------------ lock-step context for whole programs
struct LockStep {
	mdl::Vm model;
	randomx::NativeRegisterFile* nreg = nullptr;
	uint8_t* realSp = nullptr;
	std::string firstDiff, where;
	uint64_t steps = 0, fpResults = 0, iterations = 0;
	bool judgeInvariants = true;
	std::string invariant;  // first invariant violation
	int minExpF = 9999, maxExpF = -9999, minExpE = 9999, maxExpE = -9999;
	uint64_t perType[mdl::OP_COUNT] = { 0 };
	bool failed() const { return !firstDiff.empty(); }
};

void onIterBegin(void* c, const randomx_verif::IterInfo& info) {
	LockStep* L = (LockStep*)c; if (L->failed()) return;
	L->nreg = (randomx::NativeRegisterFile*)info.nreg; L->realSp = info.scratchpad;
	L->model.iterationBegin();
	++L->iterations;
	if (info.spAddr0 != L->model.spAddr0 || info.spAddr1 != L->model.spAddr1) { L->firstDiff = "spAddr"; L->where = "iteration-begin ic=" + std::to_string(info.ic); return; }
	std::string d = diffState(*L->nreg, L->model);
	if (!d.empty()) { L->firstDiff = d; L->where = "iteration-begin(load/convert) ic=" + std::to_string(info.ic); }
}
void onAfterInstr(void* c, const void* ibcv, int pc0, int pc1) {
	LockStep* L = (LockStep*)c; if (L->failed()) return;
	const mdl::Decoded& d = L->model.code[pc0];
	int next = L->model.step(pc0);
	++L->steps; L->perType[d.op]++;
	std::string df = diffState(*L->nreg, L->model);
	if (df.empty() && next != pc1 + 1) df = "next-pc";
	if (df.empty() && (int)rx_get_rounding_mode() != L->model.fprc) df = "fprc";
	if (df.empty() && L->model.lastStoreAddr != 0xffffffff && memcmp(L->realSp + L->model.lastStoreAddr, L->model.sp + L->model.lastStoreAddr, 8)) df = "stored-bytes";
	if (!df.empty()) { L->firstDiff = df; L->where = std::string(mdl::opNames[d.op]) + " pc=" + std::to_string(pc0); return; }
	// invariant monitor on the real values
	if (d.op >= mdl::FSWAP_R && d.op <= mdl::FSQRT_R) {
		const randomx::InstructionByteCode* ibc = (const randomx::InstructionByteCode*)ibcv;
		uint64_t v[2] = { lo(*ibc->fdst), hi(*ibc->fdst) };
		const bool isE = d.op == mdl::FMUL_R || d.op == mdl::FDIV_M || d.op == mdl::FSQRT_R || (d.op == mdl::FSWAP_R && d.dst >= 4);
		for (int h = 0; h < 2; ++h) {
			++L->fpResults;
			int ex = (int)((v[h] >> 52) & 0x7ff);
			if (isE) { if (ex < L->minExpE) L->minExpE = ex; if (ex > L->maxExpE) L->maxExpE = ex; } else if (v[h] << 1) { if (ex < L->minExpF) L->minExpF = ex; if (ex > L->maxExpF) L->maxExpF = ex; }
			if (L->judgeInvariants && L->invariant.empty()) {
				if (fpBad(v[h])) L->invariant = std::string("nan-or-subnormal-result:") + mdl::opNames[d.op];
				else if (isE && ((v[h] >> 63) || (v[h] << 1) == 0)) L->invariant = std::string("group-E-not-positive:") + mdl::opNames[d.op];
			}
		}
	}
}
void onIterEnd(void* c, const randomx_verif::IterInfo& info) {
	LockStep* L = (LockStep*)c; if (L->failed()) return;
	const uint32_t a0 = L->model.spAddr0, a1 = L->model.spAddr1;
	L->model.iterationEnd();
	std::string d = diffState(*L->nreg, L->model);
	if (d.empty() && memcmp(L->realSp + a0, L->model.sp + a0, 64)) d = "scratchpad-line-spAddr0";
	if (d.empty() && memcmp(L->realSp + a1, L->model.sp + a1, 64)) d = "scratchpad-line-spAddr1";
	if (!d.empty()) { L->firstDiff = d; L->where = "iteration-end(dataset/mix/store) ic=" + std::to_string(info.ic); }
}
}

RXV_SUBCOMMAND(c05) {
	runWatchdogKey() = "C05:watchdog:program-execution-did-not-return";
	Rng rng(args.seed, 0xc05, args.shard);
	const bool thorough = args.thorough();
	const uint64_t nSeq = args.num("steps", thorough ? 3000000 : 300000);    // workload A: instruction sequences
	const uint64_t nProgs = args.cases ? args.cases : 20;                     // workload B: whole programs in lock-step
	const uint64_t nHashes = args.num("nhashes", 1);                           // workload C: invariants during real hashes
	for (const char* f : { "single_steps_compared", "lockstep_programs", "lockstep_instructions", "lockstep_taken_branches", "lockstep_rounding_changes", "jit_end_state_compared", "fp_results_checked", "insitu_hash_fp_results", "opcodes_all_256" }) R.floorKey(f);
	for (int t = 0; t < mdl::OP_COUNT; ++t) R.floorKey(std::string("step:") + mdl::opNames[t]);

	// ================================================================= workload A: short sequences, one step at a time
	{
		std::vector<uint8_t> spR(kScratchpadBytes), spM(kScratchpadBytes);
		rng.fill(spR.data(), spR.size());
		memcpy(spM.data(), spR.data(), spR.size());
		uint64_t opcodeSeen[4] = { 0, 0, 0, 0 };
		uint64_t steps = 0;
		for (uint64_t q = 0; q < nSeq; ++q) {
			const int len = 1 + (int)rng.below(6);
			const bool v2 = rng.chance(1, 2);
			uint8_t words[8][8];
			for (int i = 0; i < len; ++i) {
				pg::Ins in;
				switch (rng.below(3)) {
				case 0: in = pg::directedInstr(rng); break;
				case 1: in = { (uint8_t)((q * 7 + i) & 255), (uint8_t)rng.below(256), (uint8_t)rng.below(256), (uint8_t)rng.below(256), pg::interestingImm(rng) }; break; // sweeps all 256 opcodes
				default: in = { (uint8_t)rng.below(256), (uint8_t)rng.below(256), (uint8_t)rng.below(256), (uint8_t)rng.below(256), rng.u32() }; break;
				}
				words[i][0] = in.opcode; words[i][1] = in.dst; words[i][2] = in.src; words[i][3] = in.mod; memcpy(words[i] + 4, &in.imm, 4);
				opcodeSeen[in.opcode >> 6] |= 1ULL << (in.opcode & 63);
			}
			// configuration + state as 4.5 / 4.6 produce them
			uint8_t cfgBytes[128]; pg::genConfig(rng, cfgBytes, rng.chance(1, 2));
			mdl::Vm M; M.sp = spM.data(); M.v2 = v2; M.cfg = mdl::parseConfig(cfgBytes); memcpy(M.a, M.cfg.a, sizeof M.a); M.fprc = (int)rng.below(4);
			M.code.resize(len); { int lastMod[8]; for (int& x : lastMod) x = -1; for (int i = 0; i < len; ++i) M.code[i] = mdl::decodeOne(words[i], i, lastMod); }
			for (int i = 0; i < 8; ++i) { switch (rng.below(5)) { case 0: M.r[i] = 0; break; case 1: M.r[i] = ~0ULL; break; case 2: M.r[i] = (uint64_t)(int64_t)(int32_t)rng.u32(); break; case 3: M.r[i] = 1ULL << rng.below(64); break; default: M.r[i] = rng.next(); } }
			for (int i = 0; i < 4; ++i) for (int h = 0; h < 2; ++h) {
				// F: what loads + add/sub/scal sequences produce; E: masked positives, sometimes grown/shrunk by earlier mul/div
				uint64_t fv = mdl::sf::fromInt32((int32_t)(rng.chance(1, 4) ? pg::interestingImm(rng) : rng.u32()));
				if (rng.chance(1, 3)) fv ^= 0x80F0000000000000ULL;
				if (rng.chance(1, 6)) { int fl = 0; fv = mdl::sf::add(fv, M.a[rng.below(4)][h], (int)rng.below(4), fl); }
				M.f[i][h] = fv;
				uint64_t ev = M.toE(mdl::sf::fromInt32((int32_t)rng.u32()), h);
				if (rng.chance(1, 3)) { int fl = 0; ev = mdl::sf::mul(ev, M.a[rng.below(4)][h], 0, fl); if (rng.chance(1, 2)) ev = mdl::sf::sqrt(ev, 0, fl); }
				M.e[i][h] = ev;
			}
			randomx::NativeRegisterFile nreg;
			for (int i = 0; i < 8; ++i) nreg.r[i] = M.r[i];
			for (int i = 0; i < 4; ++i) { nreg.f[i] = mk(M.f[i][0], M.f[i][1]); nreg.e[i] = mk(M.e[i][0], M.e[i][1]); nreg.a[i] = mk(M.a[i][0], M.a[i][1]); }
			randomx::ProgramConfiguration pc;
			{ uint64_t m0 = (M.cfg.eMaskFrac[0]) | ((0x300ULL | (M.cfg.eMaskExp[0] << 4)) << 52), m1 = (M.cfg.eMaskFrac[1]) | ((0x300ULL | (M.cfg.eMaskExp[1] << 4)) << 52); pc.eMask[0] = m0; pc.eMask[1] = m1; }
			// NOTE: pc.eMask above is the harness' own reading of 4.5.6 used only as *input* for the real FDIV_M; the real
			// derivation of the masks from the configuration block is compared in workload B (iteration-begin state).
			randomx::BytecodeMachine bm; randomx::InstructionByteCode ibc[8];
			const randomx_flags fl = v2 ? RANDOMX_FLAG_V2 : RANDOMX_FLAG_DEFAULT;
			std::string cj;
			auto caseJson = [&] {
				std::string w; for (int i = 0; i < len; ++i) w += hex(words[i], 8) + (i + 1 < len ? " " : "");
				return "{\"words\":\"" + w + "\",\"v2\":" + std::to_string(v2) + ",\"entry_fprc\":" + std::to_string(M.fprc) + ",\"emask\":\"" + hex(pc.eMask, 16) + "\",\"state_before\":" + modelJson(M) + "}";
			};
			if ((q & 1023) == 0) R.setCase(caseJson());
			{
				ip::Api scope("compile+execute");
				bm.beginCompilation(nreg);
				for (int i = 0; i < len; ++i) bm.compileInstruction(*(randomx::Instruction*)words[i], i, ibc[i]);
				rx_set_rounding_mode((uint32_t)M.fprc);
				int pcR = 0, guard = 0;
				while (pcR < len && guard++ < 64) {
					const int pc0 = pcR;
					randomx::BytecodeMachine::executeInstruction(ibc[pc0], pcR, spR.data(), pc, fl);
					++pcR;
					const int realFprc = (int)rx_get_rounding_mode();
					const mdl::Decoded& d = M.code[pc0];
					const int nextM = M.step(pc0);
					++steps; R.count(std::string("step:") + mdl::opNames[d.op]);
					std::string df = diffState(nreg, M);
					if (df.empty() && nextM != pcR) df = "next-pc";
					if (df.empty() && realFprc != M.fprc) df = "fprc";
					if (df.empty() && M.lastStoreAddr != 0xffffffff && memcmp(spR.data() + M.lastStoreAddr, spM.data() + M.lastStoreAddr, 8)) df = "stored-bytes";
					if (!df.empty()) {
						_mm_setcsr(0x1F80);
						R.violation(std::string("C05:model:step:") + mdl::opNames[d.op] + ":" + df, "{\"case\":" + caseJson() + ",\"at\":" + std::to_string(pc0) + ",\"real_after\":" + stateJson(nreg) + ",\"model_after\":" + modelJson(M) + ",\"real_next_pc\":" + std::to_string(pcR) + ",\"model_next_pc\":" + std::to_string(nextM) + "}");
						// resynchronise the scratchpads for the following cases
						if (M.lastStoreAddr != 0xffffffff) memcpy(spM.data() + M.lastStoreAddr, spR.data() + M.lastStoreAddr, 8);
						break;
					}
				}
				_mm_setcsr(0x1F80);
			}
			if (q < 3) R.sample(caseJson());
			if ((q & 15) == 0) R.nontrivial(fnv1a(words, 8 * len) ^ (uint64_t)M.r[0]);
			R.evaluation();
		}
		R.count("single_steps_compared", steps);
		if (opcodeSeen[0] == ~0ULL && opcodeSeen[1] == ~0ULL && opcodeSeen[2] == ~0ULL && opcodeSeen[3] == ~0ULL) R.count("opcodes_all_256");
		R.clearCase();
	}

	// ================================================================= workload B: whole programs, model in lock-step with the interpreter, JIT at the end
	{
		ip::enableGuards(true);
		ProgFixture fx(args.seed * 131 + args.shard);
		// model-side dataset readers
		mdl::Cache mc; const char key[] = "rxv program fixture key"; mc.init(key, sizeof key - 1, false);
		const uint8_t* realCache = (const uint8_t*)randomx_get_cache_memory(fx.cache->c);
		auto readLight = [&](uint64_t addr, uint8_t* out) { mdl::datasetItem(realCache, 268435456, mc.progs, addr / 64, out); };
		auto readFull = [&](uint64_t addr, uint8_t* out) { memcpy(out, fx.ds->base + addr, 64); };
		alignas(64) uint8_t prog[pg::PROG_BYTES];
		std::vector<uint8_t> spModel(kScratchpadBytes);
		for (uint64_t ci = 0; ci < nProgs; ++ci) {
			const int gen = 1 + (int)(ci % 6);
			pg::Meta meta; pg::genProgram(rng, gen, prog, &meta);
			const bool v2 = rng.chance(1, 2), hard = (fx.hw & RANDOMX_FLAG_HARD_AES) && rng.chance(1, 2), full = rng.chance(1, 2);
			const int spKind = (int)(rng.chance(1, 2) ? pg::SP_RANDOM : rng.below(pg::SP_COUNT));
			const uint32_t fprc = (uint32_t)rng.below(4);
			const unsigned iters = 1 + (unsigned)rng.below(thorough ? 8 : 4);
			pg::genScratchpad(rng, spKind, fx.sp0.data());
			memcpy(spModel.data(), fx.sp0.data(), kScratchpadBytes);
			char head[320]; snprintf(head, sizeof head, "{\"generator\":\"%s\",\"what\":\"%s\",\"v2\":%d,\"hard_aes\":%d,\"full_mem\":%d,\"scratchpad\":\"%s\",\"entry_fprc\":%u,\"iterations\":%u,\"shard\":%u,\"case\":%llu",
				pg::genNames[gen], meta.what.c_str(), v2, hard, full, pg::spNames[spKind], fprc, iters, args.shard, (unsigned long long)ci);
			std::string cj = std::string(head) + ",\"program\":\"" + hex(prog, pg::PROG_BYTES) + "\"}";
			R.setCase(cj);
			LockStep L;
			L.model.sp = spModel.data(); L.model.fprc = (int)fprc;
			L.model.readDataset = full ? std::function<void(uint64_t, uint8_t*)>(readFull) : std::function<void(uint64_t, uint8_t*)>(readLight);
			L.model.program(prog, v2); L.model.beginRun();
			// invariants are only promised for states reachable per spec 4.6: judge them on random / real programs, not on the
			// adversarial all-FDIV_M / all-FMUL_R generators that can drive group E out of range within one iteration
			L.judgeInvariants = gen == pg::G_RANDOM || gen == pg::G_REAL_MUTATED;
			const int base = (v2 ? RANDOMX_FLAG_V2 : 0) | (hard ? RANDOMX_FLAG_HARD_AES : 0) | (full ? RANDOMX_FLAG_FULL_MEM : 0);
			auto& hk = randomx_verif::hooks();
			hk.ctx = &L; hk.iterBegin = onIterBegin; hk.afterInstr = onAfterInstr; hk.iterEnd = onIterEnd;
			ProgResult ri = runProgram(fx.vm(base), prog, fx.sp0.data(), fprc, iters, fx.spA.data());
			hk.iterBegin = nullptr; hk.afterInstr = nullptr; hk.iterEnd = nullptr; hk.ctx = nullptr;
			if (L.failed()) R.violation("C05:model:lockstep:" + L.firstDiff + ":" + L.where.substr(0, L.where.find(' ')), "{\"case\":" + cj + ",\"where\":\"" + L.where + "\",\"first_difference\":\"" + L.firstDiff + "\",\"model_state\":" + modelJson(L.model) + "}");
			else {
				// end of run: register file, whole scratchpad, rounding mode; then the JIT against the same model result
				uint8_t mreg[256]; L.model.registerFile(mreg);
				if (memcmp(mreg, ri.reg, 256)) R.violation("C05:model:end-of-run-register-file", "{\"case\":" + cj + "}");
				if (memcmp(spModel.data(), fx.spA.data(), kScratchpadBytes)) R.violation("C05:model:end-of-run-scratchpad", "{\"case\":" + cj + "}");
				if ((int)ri.fprc != L.model.fprc) R.violation("C05:model:end-of-run-fprc", "{\"case\":" + cj + "}");
				ProgResult rj = runProgram(fx.vm(base | RANDOMX_FLAG_JIT), prog, fx.sp0.data(), fprc, iters, fx.spB.data());
				if (memcmp(mreg, rj.reg, 256) || memcmp(spModel.data(), fx.spB.data(), kScratchpadBytes) || (int)rj.fprc != L.model.fprc) R.violation("C05:model:jit-end-state", "{\"case\":" + cj + ",\"jit_reg\":\"" + hex(rj.reg, 256) + "\",\"model_reg\":\"" + hex(mreg, 256) + "\"}");
				R.count("jit_end_state_compared");
			}
			if (!L.invariant.empty()) R.violation("C05:invariant:" + L.invariant, "{\"case\":" + cj + "}");
			if (L.model.fpFlags & (mdl::sf::F_INVALID | mdl::sf::F_SUBNORMAL_IN)) { if (L.judgeInvariants) R.violation("C05:invariant:model-saw-invalid-operation", "{\"case\":" + cj + "}"); else R.count("adversarial_fp_domain_events"); }
			R.count("lockstep_programs"); R.count("lockstep_instructions", L.steps); R.count("lockstep_taken_branches", L.model.takenBranches); R.count("lockstep_rounding_changes", L.model.roundingChanges);
			R.count("fp_results_checked", L.fpResults);
			if (L.minExpE <= L.maxExpE) { R.minv("min_biased_exponent_E", (uint64_t)L.minExpE); R.maxv("max_biased_exponent_E", (uint64_t)L.maxExpE); }
			if (L.minExpF <= L.maxExpF) { R.minv("min_biased_exponent_F", (uint64_t)L.minExpF); R.maxv("max_biased_exponent_F", (uint64_t)L.maxExpF); }
			R.evaluation();
			if (L.model.takenBranches) R.nontrivial(fnv1a(prog, pg::PROG_BYTES));
			if (ci < 2) R.sample(std::string(head) + ",\"program_head\":\"" + hex(prog, 160) + "\",\"instructions_compared\":" + std::to_string(L.steps) + "}");
			R.clearCase();
		}

		// ============================================================= workload C: invariant monitor during real hashes
		for (uint64_t hI = 0; hI < nHashes; ++hI) {
			const bool v2 = (hI + args.shard) & 1;
			randomx_vm* vm = fx.vm(v2 ? RANDOMX_FLAG_V2 : 0);
			std::vector<uint8_t> input = cases::makeInput(rng, 20 + hI);
			struct Inv { uint64_t results = 0; std::string bad; int minE = 9999, maxE = -9999; randomx::NativeRegisterFile* nreg = nullptr; } inv;
			auto& hk = randomx_verif::hooks();
			hk.ctx = &inv;
			hk.iterBegin = [](void* c, const randomx_verif::IterInfo& info) {
				Inv* I = (Inv*)c; I->nreg = (randomx::NativeRegisterFile*)info.nreg;
				if (!I->bad.empty()) return;
				for (int i = 0; i < 4; ++i) for (uint64_t b : { lo(I->nreg->a[i]), hi(I->nreg->a[i]) }) { int ex = (int)((b >> 52) & 0x7ff); if ((b >> 63) || ex < 1023 || ex > 1023 + 31) I->bad = "group-A-out-of-range"; }
				for (int i = 0; i < 4; ++i) for (uint64_t b : { lo(I->nreg->e[i]), hi(I->nreg->e[i]) }) if ((b >> 63) || fpBad(b) || (b << 1) == 0) I->bad = "group-E-load-not-positive-normal";
			};
			hk.afterInstr = [](void* c, const void* ibcv, int, int) {
				Inv* I = (Inv*)c; const randomx::InstructionByteCode* ibc = (const randomx::InstructionByteCode*)ibcv;
				const auto t = ibc->type;
				if (t < randomx::InstructionType::FSWAP_R || t > randomx::InstructionType::FSQRT_R) return;
				const bool isE = t == randomx::InstructionType::FMUL_R || t == randomx::InstructionType::FDIV_M || t == randomx::InstructionType::FSQRT_R;
				for (uint64_t b : { lo(*ibc->fdst), hi(*ibc->fdst) }) {
					++I->results;
					if (fpBad(b)) { if (I->bad.empty()) I->bad = "nan-or-subnormal-result"; }
					else if (isE) { int ex = (int)((b >> 52) & 0x7ff); if (ex < I->minE) I->minE = ex; if (ex > I->maxE) I->maxE = ex; if (((b >> 63) || (b << 1) == 0) && I->bad.empty()) I->bad = "group-E-not-positive"; }
				}
			};
			uint8_t out[32];
			std::string cj = "{\"input\":\"" + hex(input.data(), input.size() > 128 ? 128 : input.size()) + "\",\"v2\":" + std::to_string(v2) + "}";
			R.setCase(cj);
			api::hash(vm, input.data(), input.size(), out);
			hk.iterBegin = nullptr; hk.afterInstr = nullptr; hk.ctx = nullptr;
			if (!inv.bad.empty()) R.violation("C05:invariant:in-situ:" + inv.bad, cj);
			R.count("insitu_hash_fp_results", inv.results); R.evaluation();
			if (inv.minE <= inv.maxE) { R.minv("insitu_min_biased_exponent_E", (uint64_t)inv.minE); R.maxv("insitu_max_biased_exponent_E", (uint64_t)inv.maxE); }
			R.clearCase();
		}
	}
	return 0;
}
