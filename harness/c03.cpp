// C03: a hash does not depend on the history of the VM, cache or dataset objects.
// A generator walks the API contract (only enabled operations, weighted towards hashes and re-binds; half of the
// histories start from a scenario template), every digest returned anywhere in a history is compared with the digest
// of a fresh cache + fresh VM for the same (key, input, version). Runs under the hostile guard allocator (LIFO address
// reuse, freed blocks PROT_NONE, poisoned + quarantined small objects) in the opt build and under ASan.
#include "rxv.hpp"
#include "api.hpp"
#include "vmutil.hpp"
#include "cases.hpp"
#include "model/vm.hpp"
#include <array>
#include <thread>

using namespace rxv;
using randomx_verif::Access;

namespace rxv { namespace ip { void setPoisonFreed(bool on); } }

namespace {
typedef std::array<uint8_t, 32> Digest;
const int NKEYS = 4, NINPUTS = 6, NCACHE = 3, NVM = 4, NDS = 2;

struct CacheSlot { randomx_cache* c = nullptr; int flags = 0; int key = -1; };
struct DsSlot { randomx_dataset* d = nullptr; int key = -1; };
struct VmSlot {
	randomx_vm* vm = nullptr; int flags = 0; bool v2 = false;
	int cache = -1;      // bound cache slot (light) or -1
	int ds = -1;         // bound dataset slot (fast) or -1
	int key = -1;        // key the VM was last bound with (what the contract says it computes)
	bool valid = false;  // may be hashed on without re-binding first
};

struct World {
	Rng& rng; randomx_flags hw;
	std::vector<std::vector<uint8_t>> keys, inputs;
	Digest fresh[NKEYS][NINPUTS][2];
	CacheSlot caches[NCACHE]; DsSlot dss[NDS]; VmSlot vms[NVM];
	std::vector<std::string> log;
	std::map<std::string, uint64_t> opCount, pairCount;
	std::string lastKind;
	uint64_t hashes = 0, shortcutTaken = 0, rebinds = 0;
	bool sawRebindThenHash = false, pendingRebind = false;
	bool datasetsEnabled = false;
	std::vector<int> pastKeys; // keys VMs of this history were bound with earlier
	bool fullMemAllowed = false;
	explicit World(Rng& r) : rng(r) {}

	void note(const std::string& kind, const std::string& detail) {
		log.push_back(kind + (detail.empty() ? "" : "(" + detail + ")"));
		opCount[kind]++;
		if (!lastKind.empty()) pairCount[lastKind + ">" + kind]++;
		lastKind = kind;
		std::string j = "{\"history\":["; size_t from = log.size() > 400 ? log.size() - 400 : 0;
		for (size_t i = from; i < log.size(); ++i) j += (i > from ? "," : "") + jsonStr(log[i]);
		R.setCase(j + "]}");
	}
	std::string historyJson() const { std::string j = "["; for (size_t i = 0; i < log.size(); ++i) j += (i ? "," : "") + jsonStr(log[i]); return j + "]"; }

	// ---- operations (each checks its own precondition; returns false if not enabled)
	bool opAllocCache(int s, int flags) {
		if (caches[s].c) return false;
		note("alloc_cache", "c" + std::to_string(s) + "," + flagsName(flags));
		caches[s].c = api::allocCache((randomx_flags)flags); caches[s].flags = flags; caches[s].key = -1;
		if (!caches[s].c) R.harnessFail("alloc_cache returned NULL in a fault-free history");
		return true;
	}
	bool opInitCache(int s, int k) {
		if (!caches[s].c) return false;
		// a dataset or VM that depends on this cache's *content* becomes stale when the key changes
		note(caches[s].key == k ? "init_cache_same_key" : (caches[s].key < 0 ? "init_cache" : "init_cache_other_key"), "c" + std::to_string(s) + ",k" + std::to_string(k));
		api::initCache(caches[s].c, cases::nn(keys[k]), keys[k].size());
		if (caches[s].key != k) for (auto& v : vms) if (v.vm && v.cache == s) v.valid = false;
		caches[s].key = k;
		return true;
	}
	bool opReleaseCache(int s) {
		if (!caches[s].c) return false;
		note("release_cache", "c" + std::to_string(s));
		api::releaseCache(caches[s].c); caches[s].c = nullptr; caches[s].key = -1;
		for (auto& v : vms) if (v.vm && v.cache == s) { v.valid = false; v.cache = -1; } // must re-bind before hashing
		return true;
	}
	bool opCreateVm(int s, int flags, int cs, int dsIdx, bool v2) {
		if (vms[s].vm) return false;
		const bool full = flags & RANDOMX_FLAG_FULL_MEM;
		if (full) { if (dsIdx < 0 || !dss[dsIdx].d || dss[dsIdx].key < 0) return false; }
		else if (cs < 0 || !caches[cs].c || caches[cs].key < 0) return false;
		note("create_vm", "v" + std::to_string(s) + "," + flagsName(flags | (v2 ? RANDOMX_FLAG_V2 : 0)) + (full ? ",d" + std::to_string(dsIdx) : ",c" + std::to_string(cs)));
		vms[s].vm = api::createVm((randomx_flags)(flags | (v2 ? RANDOMX_FLAG_V2 : 0)), full ? nullptr : caches[cs].c, full ? dss[dsIdx].d : nullptr);
		if (!vms[s].vm) R.harnessFail("create_vm returned NULL in a fault-free history");
		vms[s].flags = flags; vms[s].v2 = v2; vms[s].cache = full ? -1 : cs; vms[s].ds = full ? dsIdx : -1; vms[s].key = full ? dss[dsIdx].key : caches[cs].key; vms[s].valid = true;
		return true;
	}
	bool opDestroyVm(int s) {
		if (!vms[s].vm) return false;
		note("destroy_vm", "v" + std::to_string(s));
		api::destroyVm(vms[s].vm); vms[s] = VmSlot();
		return true;
	}
	bool opSetCache(int s, int cs) {
		VmSlot& v = vms[s];
		if (!v.vm || (v.flags & RANDOMX_FLAG_FULL_MEM) || !caches[cs].c || caches[cs].key < 0) return false;
		const bool sameKey = v.key == caches[cs].key, sameObj = v.cache == cs;
		note(sameObj ? (sameKey ? "set_cache_same_object_same_key" : "set_cache_same_object_new_key") : (sameKey ? "set_cache_other_object_same_key" : "set_cache_other_object_other_key"), "v" + std::to_string(s) + ",c" + std::to_string(cs));
		const uint8_t* memBefore = v.vm->getMemory();
		api::setCache(v.vm, caches[cs].c);
		if (sameKey && memBefore == (const uint8_t*)randomx_get_cache_memory(caches[cs].c)) shortcutTaken++;
		if (v.key >= 0 && v.key != caches[cs].key) pastKeys.push_back(v.key);
		v.cache = cs; v.key = caches[cs].key; v.valid = true; ++rebinds; pendingRebind = true;
		return true;
	}
	bool opSetDataset(int s, int di) {
		VmSlot& v = vms[s];
		if (!v.vm || !(v.flags & RANDOMX_FLAG_FULL_MEM) || !dss[di].d || dss[di].key < 0) return false;
		note("set_dataset", "v" + std::to_string(s) + ",d" + std::to_string(di));
		api::setDataset(v.vm, dss[di].d);
		v.ds = di; v.key = dss[di].key; v.valid = true; ++rebinds; pendingRebind = true;
		return true;
	}
	bool opSwitchVersion(int s) {
		VmSlot& v = vms[s]; if (!v.vm) return false;
		v.v2 = !v.v2;
		note(v.v2 ? "setFlagV2" : "clearFlagV2", "v" + std::to_string(s));
		{ ip::Api a("setFlagV2"); if (v.v2) v.vm->setFlagV2(); else v.vm->clearFlagV2(); }
		return true;
	}
	void poison(VmSlot& v) {
		// leftovers the next hash must not rely on: scratchpad and the pipelining buffer
		uint8_t* sp = Access::scratchpad(v.vm);
		const uint64_t pat = rng.next();
		for (size_t off = 0; off < kScratchpadBytes; off += 4096) memcpy(sp + off + (pat & 0xff8), &pat, 8);
		if (rng.chance(1, 4)) memset(sp, (int)(pat & 0xff), kScratchpadBytes);
		rng.fill(v.vm->tempHash, sizeof v.vm->tempHash);
	}
	void check(const VmSlot& v, int in, const Digest& got, const char* how) {
		++hashes;
		if (pendingRebind) { sawRebindThenHash = true; pendingRebind = false; }
		if (got != fresh[v.key][in][v.v2]) {
			R.violation(std::string("C03:history:digest-differs-from-fresh:") + how + ":" + flagsName(v.flags & ~RANDOMX_FLAG_LARGE_PAGES),
				"{\"history\":" + historyJson() + ",\"key\":" + std::to_string(v.key) + ",\"input\":" + std::to_string(in) + ",\"v2\":" + std::to_string(v.v2) + ",\"got\":\"" + hex(got.data(), 32) + "\",\"fresh\":\"" + hex(fresh[v.key][in][v.v2].data(), 32) + "\"}");
		}
	}
	bool opHash(int s, int in) {
		VmSlot& v = vms[s]; if (!v.vm || !v.valid) return false;
		note("hash", "v" + std::to_string(s) + ",i" + std::to_string(in));
		Digest d; api::hash(v.vm, inputs[in].data(), inputs[in].size(), d.data());
		check(v, in, d, "single");
		if (rng.chance(1, 2)) poison(v);
		return true;
	}
	bool opBatch(int s, int len, const std::function<void()>& interleave) {
		VmSlot& v = vms[s]; if (!v.vm || !v.valid) return false;
		std::vector<int> ins; for (int i = 0; i < len; ++i) ins.push_back((int)rng.below(NINPUTS));
		std::string d; for (int i : ins) d += "i" + std::to_string(i);
		note("batch", "v" + std::to_string(s) + "," + d);
		api::hashFirst(v.vm, inputs[ins[0]].data(), inputs[ins[0]].size());
		for (int i = 1; i < len; ++i) {
			if (interleave && rng.chance(1, 3)) interleave(); // other objects may be operated on in between
			Digest out; api::hashNext(v.vm, inputs[ins[i]].data(), inputs[ins[i]].size(), out.data());
			check(v, ins[i - 1], out, "batch");
		}
		Digest out; api::hashLast(v.vm, out.data());
		check(v, ins[len - 1], out, "batch");
		_mm_setcsr(0x1F80);
		if (rng.chance(1, 2)) poison(v);
		return true;
	}
	int randomVmFlags() {
		int f = 0;
		switch (rng.below(4)) { case 0: break; case 1: f = RANDOMX_FLAG_JIT; break; case 2: f = RANDOMX_FLAG_JIT | RANDOMX_FLAG_SECURE; break; default: f = rng.chance(1, 2) ? RANDOMX_FLAG_SECURE : 0; break; }
		if ((hw & RANDOMX_FLAG_HARD_AES) && rng.chance(1, 2)) f |= RANDOMX_FLAG_HARD_AES;
		if (rng.chance(1, 8)) f |= RANDOMX_FLAG_LARGE_PAGES;
		return f;
	}
	int randomCacheFlags() {
		int f = rng.chance(1, 2) ? RANDOMX_FLAG_JIT : 0;
		switch (rng.below(3)) { case 1: if (hw & RANDOMX_FLAG_ARGON2_SSSE3) f |= RANDOMX_FLAG_ARGON2_SSSE3; break; case 2: if (hw & RANDOMX_FLAG_ARGON2_AVX2) f |= RANDOMX_FLAG_ARGON2_AVX2; break; default: break; }
		if (rng.chance(1, 10)) f |= RANDOMX_FLAG_LARGE_PAGES;
		return f;
	}
	int pickVm(bool needValid) { std::vector<int> c; for (int i = 0; i < NVM; ++i) if (vms[i].vm && (!needValid || vms[i].valid)) c.push_back(i); return c.empty() ? -1 : c[rng.below(c.size())]; }
	int pickCache(bool initialised) { std::vector<int> c; for (int i = 0; i < NCACHE; ++i) if (caches[i].c && (!initialised || caches[i].key >= 0)) c.push_back(i); return c.empty() ? -1 : c[rng.below(c.size())]; }
	int pickFreeCache() { for (int i = 0; i < NCACHE; ++i) if (!caches[i].c) return i; return -1; }
	int pickFreeVm() { for (int i = 0; i < NVM; ++i) if (!vms[i].vm) return i; return -1; }
	int pickDs() { std::vector<int> c; for (int i = 0; i < NDS; ++i) if (dss[i].d && dss[i].key >= 0) c.push_back(i); return c.empty() ? -1 : c[rng.below(c.size())]; }

	// one random enabled operation, weighted
	void randomOp(bool allowBatch = true) {
		for (int attempt = 0; attempt < 50; ++attempt) {
			const unsigned w = (unsigned)rng.below(100);
			bool done = false;
			if (w < 34) { int v = pickVm(true); done = v >= 0 && opHash(v, (int)rng.below(NINPUTS)); }
			else if (w < 44) { int v = pickVm(true); done = allowBatch && v >= 0 && opBatch(v, 1 + (int)rng.below(6), [this] { randomSideOp(); }); }
			else if (w < 58) { int v = pickVm(false), c = pickCache(true); done = v >= 0 && c >= 0 && opSetCache(v, c); }
			else if (w < 66) { int c = pickCache(false); int k = (int)rng.below(NKEYS);
				// half of the time re-key to a key some live VM is (or was) bound with: the "nothing changed" shortcuts compare keys
				if (rng.chance(1, 2)) { std::vector<int> ks; for (auto& v : vms) if (v.vm && v.key >= 0) ks.push_back(v.key); for (int pk : pastKeys) ks.push_back(pk); if (!ks.empty()) k = ks[rng.below(ks.size())]; }
				done = c >= 0 && opInitCache(c, k); }
			else if (w < 72) { int c = pickFreeCache(); done = c >= 0 && opAllocCache(c, randomCacheFlags()); }
			else if (w < 77) { int c = pickCache(false); done = c >= 0 && opReleaseCache(c); }
			else if (w < 85) { int v = pickFreeVm(); int c = pickCache(true); int d = pickDs(); const bool full = d >= 0 && rng.chance(1, 2);
				done = v >= 0 && (full || c >= 0) && opCreateVm(v, randomVmFlags() | (full ? RANDOMX_FLAG_FULL_MEM : 0), c, d, rng.chance(1, 2)); }
			else if (w < 89) { int v = pickVm(false); done = v >= 0 && opDestroyVm(v); }
			else if (w < 97) { int v = pickVm(false); done = v >= 0 && opSwitchVersion(v); }
			else { int v = pickVm(false), d = pickDs(); done = v >= 0 && d >= 0 && opSetDataset(v, d); }
			if (done) return;
		}
	}
	// an operation on objects that no batch in progress depends on (used between hash_next calls): version switches
	// and hashes are not allowed on the batching VM, so restrict to cache allocation / release of unbound caches
	void randomSideOp() {
		int c = pickFreeCache();
		if (c >= 0 && rng.chance(1, 2)) { opAllocCache(c, randomCacheFlags()); return; }
		for (int i = 0; i < NCACHE; ++i) { bool bound = false; for (auto& v : vms) if (v.vm && v.cache == i) bound = true; if (caches[i].c && !bound && rng.chance(1, 2)) { if (rng.chance(1, 2)) opInitCache(i, (int)rng.below(NKEYS)); else opReleaseCache(i); return; } }
	}
	void cleanup() {
		for (int i = 0; i < NVM; ++i) if (vms[i].vm) opDestroyVm(i);
		for (int i = 0; i < NCACHE; ++i) if (caches[i].c) opReleaseCache(i);
	}

	// ---- scenario templates (DESIGN.md C03, T1..T9), instantiated for a light VM class
	void scenario(int t, int vmFlags) {
		const int k = (int)rng.below(NKEYS), in = (int)rng.below(NINPUTS);
		int k2 = (k + 1 + (int)rng.below(NKEYS - 1)) % NKEYS;
		// keys 2 and 3 differ only beyond byte 60: same SuperscalarHash programs, different cache content. Templates that look for
		// stale generated code need keys with different programs
		if ((t == 10 || t == 11 || t == 4) && k + k2 == 5 && k * k2 == 6) k2 = (int)rng.below(2);
		const int cf = randomCacheFlags() & ~RANDOMX_FLAG_LARGE_PAGES;
		note("scenario", "T" + std::to_string(t) + "," + flagsName(vmFlags));
		switch (t) {
		case 1: // bind -> release cache -> allocate -> init same key -> set_cache -> hash
			opAllocCache(0, cf); opInitCache(0, k); opCreateVm(0, vmFlags, 0, -1, rng.chance(1, 2)); opHash(0, in);
			opReleaseCache(0); opAllocCache(0, cf); opInitCache(0, k); opSetCache(0, 0); opHash(0, in); opHash(0, (in + 1) % NINPUTS); break;
		case 2: // bind -> re-init other key -> set_cache -> hash
			opAllocCache(0, cf); opInitCache(0, k); opCreateVm(0, vmFlags, 0, -1, rng.chance(1, 2)); opHash(0, in);
			opInitCache(0, k2); opSetCache(0, 0); opHash(0, in); break;
		case 3: // re-init other key -> re-init original key -> set_cache (shortcut) -> hash
			opAllocCache(0, cf); opInitCache(0, k); opCreateVm(0, vmFlags, 0, -1, rng.chance(1, 2)); opHash(0, in);
			opInitCache(0, k2); opInitCache(0, k); opSetCache(0, 0); opHash(0, in); break;
		case 4: // two caches with equal key and different memory, set_cache alternating
			opAllocCache(0, cf); opInitCache(0, k); opAllocCache(1, randomCacheFlags() & ~RANDOMX_FLAG_LARGE_PAGES); opInitCache(1, k); opCreateVm(0, vmFlags, 0, -1, rng.chance(1, 2));
			for (int i = 0; i < 4; ++i) { opSetCache(0, i & 1 ? 0 : 1); opHash(0, (in + i) % NINPUTS); if (i == 1) opInitCache(i & 1, k2); if (i == 2) opInitCache(1, k); } break;
		case 5: // batch -> re-key + re-bind -> batch
			opAllocCache(0, cf); opInitCache(0, k); opCreateVm(0, vmFlags, 0, -1, rng.chance(1, 2)); opBatch(0, 3, nullptr);
			opInitCache(0, k2); opSetCache(0, 0); opBatch(0, 3, nullptr); break;
		case 6: // v1/v2 switch between every pair of operations
			opAllocCache(0, cf); opInitCache(0, k); opCreateVm(0, vmFlags, 0, -1, false);
			for (int i = 0; i < 5; ++i) { opSwitchVersion(0); if (i & 1) opHash(0, (in + i) % NINPUTS); else opBatch(0, 2, nullptr); } break;
		case 7: // destroy VM -> create VM (same address) on another cache
			opAllocCache(0, cf); opInitCache(0, k); opAllocCache(1, cf); opInitCache(1, k2); opCreateVm(0, vmFlags, 0, -1, rng.chance(1, 2)); opHash(0, in);
			opDestroyVm(0); opCreateVm(0, vmFlags, 1, -1, rng.chance(1, 2)); opHash(0, in); break;
		case 8: // redundant init with the unchanged key -> hash
			opAllocCache(0, cf); opInitCache(0, k); opCreateVm(0, vmFlags, 0, -1, rng.chance(1, 2)); opHash(0, in); opInitCache(0, k); opHash(0, in); opSetCache(0, 0); opHash(0, (in + 2) % NINPUTS); break;
		case 10: // re-bind to another cache object, then re-key THAT object to the key the VM was bound with before -> set_cache -> hash
			opAllocCache(0, cf); opInitCache(0, k); opAllocCache(1, randomCacheFlags() & ~RANDOMX_FLAG_LARGE_PAGES); opInitCache(1, k2); opCreateVm(0, vmFlags, 0, -1, rng.chance(1, 2)); opHash(0, in);
			opSetCache(0, 1); opHash(0, in); opInitCache(1, k); opSetCache(0, 1); opHash(0, in); opBatch(0, 2, nullptr); break;
		case 11: { // the mirrored order: other object re-keyed to a third key, VM re-bound to the first object, first object re-keyed to that third key
			const int k3 = (k2 + 1 + (int)rng.below(NKEYS - 2)) % NKEYS == k ? (k2 + 1) % NKEYS : (k2 + 1 + (int)rng.below(NKEYS - 2)) % NKEYS;
			opAllocCache(0, cf); opInitCache(0, k); opAllocCache(1, cf); opInitCache(1, k2); opCreateVm(0, vmFlags, 0, -1, rng.chance(1, 2));
			opSetCache(0, 1); opHash(0, in); opInitCache(1, k3); opSetCache(0, 0); opHash(0, in); opInitCache(0, k3); opSetCache(0, 0); opHash(0, in); opSetCache(0, 1); opHash(0, in); } break;
		default: // T9: release -> allocate (same address) -> init *other* key -> set_cache -> hash
			opAllocCache(0, cf); opInitCache(0, k); opCreateVm(0, vmFlags, 0, -1, rng.chance(1, 2)); opHash(0, in);
			opReleaseCache(0); opAllocCache(0, cf); opInitCache(0, k2); opSetCache(0, 0); opHash(0, in); break;
		}
	}
};
}

RXV_SUBCOMMAND(c03) {
	Rng rng(args.seed, 0xc03, args.shard);
	const bool thorough = args.thorough();
	const uint64_t nHist = args.cases ? args.cases : 4;
	const uint64_t opsPer = args.num("ops", thorough ? 60 : 25);
	ip::enableGuards(true);
	ip::setGarbageSeed(args.seed * 7919 + args.shard * 31 + 1);
	ip::setHugePages(1);
	ip::setPoisonFreed(true);
	World W(rng);
	W.hw = api::getFlags();
	for (const char* f : { "histories", "hashes_checked", "rebind_followed_by_hash", "op:hash", "op:batch", "op:release_cache", "op:init_cache_other_key", "op:init_cache_same_key", "op:set_cache_same_object_same_key", "op:set_cache_same_object_new_key",
		"op:set_cache_other_object_same_key", "op:set_cache_other_object_other_key", "op:setFlagV2", "op:clearFlagV2", "op:destroy_vm", "op:create_vm", "scenario_templates", "set_cache_shortcut_taken", "adjacent_op_pairs_seen" }) R.floorKey(f);
	// keys: one longer than 60 bytes and one differing from it only beyond byte 60; inputs with boundary lengths
	W.keys.resize(NKEYS);
	W.keys[0] = cases::makeKey(rng, 0); W.keys[1] = cases::makeKey(rng, 1 /* empty */);
	W.keys[2].resize(70); rng.fill(W.keys[2].data(), 70); W.keys[3] = W.keys[2]; W.keys[3][65] ^= 1;
	static const size_t ilen[NINPUTS] = { 0, 1, 76, 200, 64, 129 };
	for (int i = 0; i < NINPUTS; ++i) { std::vector<uint8_t> v(ilen[i]); rng.fill(v.data(), v.size()); W.inputs.push_back(v); }

	// ---- fresh digests: newly allocated cache + newly created VM, each VM used for one (key, version) only
	R.setCase("{\"stage\":\"fresh-table\"}");
	for (int k = 0; k < NKEYS; ++k) {
		randomx_cache* c = api::allocCache((randomx_flags)(RANDOMX_FLAG_JIT | (W.hw & (RANDOMX_FLAG_ARGON2_AVX2 | RANDOMX_FLAG_ARGON2_SSSE3))));
		if (!c) R.harnessFail("fresh cache");
		api::initCache(c, cases::nn(W.keys[k]), W.keys[k].size());
		for (int v2 = 0; v2 < 2; ++v2) {
			randomx_vm* vm = api::createVm((randomx_flags)(RANDOMX_FLAG_JIT | (W.hw & RANDOMX_FLAG_HARD_AES) | (v2 ? RANDOMX_FLAG_V2 : 0)), c, nullptr);
			if (!vm) R.harnessFail("fresh vm");
			for (int i = 0; i < NINPUTS; ++i) api::hash(vm, W.inputs[i].data(), W.inputs[i].size(), W.fresh[k][i][v2].data());
			api::destroyVm(vm);
		}
		api::releaseCache(c);
	}
	// shard 0 ties two entries of the table to the reference model (the rest is tied by C01 / C02)
	if (args.shard == 0 && args.num("model_crosscheck", 1)) {
		mdl::Cache mc; mc.init(cases::nn(W.keys[1]), W.keys[1].size());
		auto rd = [&](uint64_t addr, uint8_t* out) { mc.item(addr / 64, out); };
		for (int v2 = 0; v2 < 2; ++v2) { uint8_t h[32]; mdl::hash(rd, W.inputs[2].data(), W.inputs[2].size(), v2, h); if (memcmp(h, W.fresh[1][2][v2].data(), 32)) R.violation("C03:oracle:fresh-digest-differs-from-model", "{\"v2\":" + std::to_string(v2) + "}"); R.count("fresh_digests_tied_to_model"); }
	}
	// datasets (thorough, selected shards): one per key pair, built once; histories re-bind fast VMs between them
	if (thorough && args.num("datasets", 0)) {
		for (int d = 0; d < NDS; ++d) {
			randomx_cache* c = api::allocCache(RANDOMX_FLAG_JIT); api::initCache(c, cases::nn(W.keys[d]), W.keys[d].size());
			W.dss[d].d = api::allocDataset(RANDOMX_FLAG_DEFAULT); if (!W.dss[d].d) R.harnessFail("dataset");
			std::vector<std::thread> th; const unsigned long total = randomx_dataset_item_count();
			for (unsigned t = 0; t < 8; ++t) th.emplace_back([=, &W] { api::initDataset(W.dss[d].d, c, total * t / 8, total * (t + 1) / 8 - total * t / 8); });
			for (auto& t : th) t.join();
			W.dss[d].key = d; api::releaseCache(c);
		}
		R.count("datasets_built", NDS);
	}

	const int lightClasses[] = { 0, RANDOMX_FLAG_HARD_AES, RANDOMX_FLAG_JIT, RANDOMX_FLAG_JIT | RANDOMX_FLAG_HARD_AES, RANDOMX_FLAG_JIT | RANDOMX_FLAG_SECURE, RANDOMX_FLAG_JIT | RANDOMX_FLAG_SECURE | RANDOMX_FLAG_HARD_AES, RANDOMX_FLAG_SECURE, RANDOMX_FLAG_LARGE_PAGES };
	for (uint64_t h = 0; h < nHist; ++h) {
		W.log.clear(); W.lastKind.clear(); W.sawRebindThenHash = false; W.pendingRebind = false; W.pastKeys.clear();
		const uint64_t global = args.shard + args.nshards * h;
		const bool templ = (global & 1) == 0;
		if (templ) {
			int cls = lightClasses[(global / 2 / 11 + global / 2) % 8]; if (!(W.hw & RANDOMX_FLAG_HARD_AES)) cls &= ~RANDOMX_FLAG_HARD_AES;
			W.scenario(1 + (int)((global / 2) % 11), cls);
			R.count("scenario_templates");
		}
		for (uint64_t o = 0; o < opsPer; ++o) W.randomOp();
		W.cleanup();
		R.count("histories"); R.evaluation();
		if (W.sawRebindThenHash) { R.nontrivial(fnv1a(W.historyJson().data(), W.historyJson().size())); R.count("rebind_followed_by_hash"); }
		if (h < 2 || (h < 8 && args.num("samples_all", 0))) R.sample("{\"history\":" + W.historyJson() + "}", 10);
	}
	for (int d = 0; d < NDS; ++d) if (W.dss[d].d) api::releaseDataset(W.dss[d].d);
	for (auto& kv : W.opCount) R.count("op:" + kv.first, kv.second);
	R.count("adjacent_op_pairs_seen", W.pairCount.size());
	R.count("hashes_checked", W.hashes); R.count("set_cache_shortcut_taken", W.shortcutTaken); R.count("rebinds", W.rebinds);
	R.clearCase();
	return 0;
}
