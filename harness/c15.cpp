// C15: object lifecycle is leak- and crash-free, also when allocations fail (fault enumeration).
// For every creating call x flag combination a fault-free run records the N allocation requests made inside the
// call (posix_memalign / mmap / operator new, seen through link-time interposition); then the k-th request is made
// to fail for every k = 1..N (complete enumeration of single faults; thorough: all pairs). Oracle: NULL return, no
// abnormal termination (fatal signals inside the call are attributed to the case), address-keyed conservation of
// heap blocks and mappings, munmap length == mmap length, and a working library afterwards.
#include "rxv.hpp"
#include "api.hpp"
#include "vmutil.hpp"
#include "cases.hpp"
#include <array>
#include <fstream>

using namespace rxv;

namespace {
struct Live { size_t heap, mapped; };
Live live() { return { ip::liveHeapBlocks(), ip::liveMappedBytes() }; }
bool same(const Live& a, const Live& b) { return a.heap == b.heap && a.mapped == b.mapped; }
long rssKiB() { std::ifstream f("/proc/self/statm"); long size = 0, res = 0; f >> size >> res; return res * 4; }

// scans the event log of the last API call(s) for release events that do not match an acquisition
std::string scanEvents(size_t from) {
	for (size_t i = from; i < ip::eventCount(); ++i) {
		ip::Event e = ip::eventAt(i);
		if (e.kind == ip::K_MUNMAP && e.result == -2) return "munmap-length-differs-from-mmap-length";
		if (e.kind == ip::K_MUNMAP && e.result == -1) return "munmap-of-unknown-mapping";
	}
	return "";
}
}

RXV_SUBCOMMAND(c15) {
	Rng rng(args.seed, 0xc15, args.shard);
	const bool thorough = args.thorough();
	const bool inject = args.num("inject", 1) != 0;
	const uint64_t cycles = args.num("cycles", thorough ? 1200 : 24);
	const randomx_flags hw = api::getFlags();
	for (const char* f : { "fault_free_cycles", "cycle_balance_checks" }) R.floorKey(f);
	if (inject) for (const char* f : { "creating_call_variants", "single_faults_injected", "single_faults_null_returned", "faults_in_posix_memalign", "faults_in_mmap", "faults_in_operator_new", "followup_creations", "followup_hashes", "alloc_cache_variants", "alloc_dataset_variants", "create_vm_variants", "large_pages_succeed_variants", "large_pages_fail_variants", "null_argument_calls" }) R.floorKey(f);
	if (inject && thorough) R.floorKey("double_faults_injected");

	// a cache with a short and one with a long key (std::string with heap storage is copied into the VM)
	const std::string shortKey = "k15", longKey = "a key that is longer than the small-string buffer of std::string";
	// a creating call that returns NULL although none of its memory requests failed breaks the success path of C15 (the harness
	// cannot go on without its fixture, so it is reported and the shard ends); a real allocation failure of the host is exit 2
	auto setupFailed = [&](const char* what, size_t ev0) {
		for (size_t i = ev0; i < ip::eventCount(); ++i) if (ip::eventAt(i).result != 0) R.harnessFail(std::string("setup ") + what + ": the host refused memory");
		R.violation("C15:faultfree:creating-call-returned-null", std::string("{\"call\":\"") + what + " (fixture set-up, no fault injected, every underlying request succeeded)\"}");
	};
	size_t evSetup = ip::eventCount();
	randomx_cache* cacheS = api::allocCache(RANDOMX_FLAG_JIT); randomx_cache* cacheL = api::allocCache(RANDOMX_FLAG_DEFAULT);
	if (!cacheS || !cacheL) { setupFailed("randomx_alloc_cache", evSetup); if (cacheS) api::releaseCache(cacheS); if (cacheL) api::releaseCache(cacheL); return 0; }
	api::initCache(cacheS, shortKey.data(), shortKey.size()); api::initCache(cacheL, longKey.data(), longKey.size());
	evSetup = ip::eventCount();
	randomx_dataset* dsForVm = api::allocDataset(RANDOMX_FLAG_DEFAULT); // only bound, never read: stays virtual
	if (!dsForVm) { setupFailed("randomx_alloc_dataset(RANDOMX_FLAG_DEFAULT)", evSetup); api::releaseCache(cacheS); api::releaseCache(cacheL); return 0; }
	const uint8_t probeInput[] = "C15 follow-up";
	std::array<uint8_t, 32> refS[2], refL[2];
	for (int v2 = 0; v2 < 2; ++v2) {
		randomx_vm* a = api::createVm((randomx_flags)(RANDOMX_FLAG_JIT | (v2 ? RANDOMX_FLAG_V2 : 0)), cacheS, nullptr); randomx_vm* b = api::createVm((randomx_flags)(RANDOMX_FLAG_JIT | (v2 ? RANDOMX_FLAG_V2 : 0)), cacheL, nullptr);
		if (!a || !b) R.harnessFail("setup vms");
		api::hash(a, probeInput, sizeof probeInput, refS[v2].data()); api::hash(b, probeInput, sizeof probeInput, refL[v2].data());
		api::destroyVm(a); api::destroyVm(b);
	}

	// ---- the creating-call variants
	struct Variant { int kind; /*0 cache,1 dataset,2 vm*/ int flags; bool longKey; int huge; /*1 succeed, 2 fail*/ std::string name; };
	std::vector<Variant> variants;
	for (int huge = 1; huge <= 2; ++huge) {
		for (int jit = 0; jit < 2; ++jit) for (int lp = 0; lp < 2; ++lp) for (int a = 0; a < 3; ++a) {
			int af = a == 0 ? 0 : a == 1 ? RANDOMX_FLAG_ARGON2_SSSE3 : RANDOMX_FLAG_ARGON2_AVX2; if (af && !(hw & af)) continue;
			if (huge == 2 && !lp) continue; // the "large pages fail" mode only differs for LARGE_PAGES variants
			variants.push_back({ 0, (jit ? RANDOMX_FLAG_JIT : 0) | (lp ? RANDOMX_FLAG_LARGE_PAGES : 0) | af, false, huge, "" });
		}
		for (int lp = 0; lp < 2; ++lp) { if (huge == 2 && !lp) continue; variants.push_back({ 1, lp ? RANDOMX_FLAG_LARGE_PAGES : 0, false, huge, "" }); }
		for (int f = 0; f < 64; ++f) {
			int fl = ((f & 1) ? RANDOMX_FLAG_LARGE_PAGES : 0) | ((f & 2) ? RANDOMX_FLAG_HARD_AES : 0) | ((f & 4) ? RANDOMX_FLAG_FULL_MEM : 0) | ((f & 8) ? RANDOMX_FLAG_JIT : 0) | ((f & 16) ? RANDOMX_FLAG_SECURE : 0) | ((f & 32) ? RANDOMX_FLAG_V2 : 0);
			if ((fl & RANDOMX_FLAG_HARD_AES) && !(hw & RANDOMX_FLAG_HARD_AES)) continue;
			if (huge == 2 && !(fl & RANDOMX_FLAG_LARGE_PAGES)) continue;
			variants.push_back({ 2, fl, (f % 3) == 1, huge, "" });
		}
	}
	for (auto& v : variants) v.name = std::string(v.kind == 0 ? "alloc_cache" : v.kind == 1 ? "alloc_dataset" : "create_vm") + "(" + flagsName(v.flags) + (v.kind == 2 ? (v.longKey ? ",long-key" : ",short-key") : "") + ")/large-pages-" + (v.huge == 1 ? "succeed" : "fail");

	auto create = [&](const Variant& v) -> void* {
		switch (v.kind) {
		case 0: return api::allocCache((randomx_flags)v.flags);
		case 1: return api::allocDataset((randomx_flags)v.flags);
		default: return api::createVm((randomx_flags)v.flags, (v.flags & RANDOMX_FLAG_FULL_MEM) ? nullptr : (v.longKey ? cacheL : cacheS), (v.flags & RANDOMX_FLAG_FULL_MEM) ? dsForVm : nullptr);
		}
	};
	auto destroy = [&](const Variant& v, void* p) {
		switch (v.kind) { case 0: api::releaseCache((randomx_cache*)p); break; case 1: api::releaseDataset((randomx_dataset*)p); break; default: api::destroyVm((randomx_vm*)p); break; }
	};
	uint64_t followIdx = 0;
	auto followUp = [&](const std::string& cj) {
		// the library must still be fully usable: create + (every 6th time) hash + destroy, fault-free
		ip::armFault(0);
		const int v2 = (int)(followIdx & 1); const bool lk = (followIdx >> 1) & 1;
		randomx_vm* vm = api::createVm((randomx_flags)(RANDOMX_FLAG_JIT | (v2 ? RANDOMX_FLAG_V2 : 0)), lk ? cacheL : cacheS, nullptr);
		if (!vm) { R.violation("C15:followup:fault-free-create_vm-fails-after-injected-fault", cj); return; }
		R.count("followup_creations");
		if (followIdx % 6 == 0) {
			std::array<uint8_t, 32> d; api::hash(vm, probeInput, sizeof probeInput, d.data());
			if (d != (lk ? refL[v2] : refS[v2])) R.violation("C15:followup:wrong-digest-after-injected-fault", cj);
			R.count("followup_hashes");
		}
		api::destroyVm(vm);
		++followIdx;
	};

	if (inject) {
		size_t vi = 0;
		for (auto& v : variants) {
			if (vi++ % args.nshards != args.shard) continue;
			ip::setHugePages(v.huge);
			const std::string cjBase = "{\"call\":" + jsonStr(v.name);
			R.setCase(cjBase + ",\"fault\":\"none\"}");
			// ---- fault-free: record N, check success / documented NULL, and balance after release
			const Live before = live(); const size_t ev0 = ip::eventCount();
			ip::armFault(0);
			void* obj = create(v);
			const unsigned N = ip::requestsSeen();
			const bool expectNull = (v.huge == 2 && (v.flags & RANDOMX_FLAG_LARGE_PAGES));
			if (expectNull && obj) R.violation("C15:largepages:object-created-although-large-page-mapping-failed", cjBase + "}");
			if (!expectNull && !obj) { R.violation("C15:faultfree:creating-call-returned-null", cjBase + "}"); continue; }
			if (obj) destroy(v, obj);
			std::string evBad = scanEvents(ev0);
			if (!evBad.empty()) R.violation("C15:conservation:" + evBad, cjBase + "}");
			if (!same(before, live())) R.violation("C15:conservation:leak-after-create-and-release", cjBase + ",\"live_after\":" + ip::liveSummary() + "}");
			R.count("creating_call_variants"); R.count(v.kind == 0 ? "alloc_cache_variants" : v.kind == 1 ? "alloc_dataset_variants" : "create_vm_variants");
			R.count(v.huge == 1 ? "large_pages_succeed_variants" : "large_pages_fail_variants");
			R.maxv("max_requests_in_one_call", N);
			if (expectNull) { followUp(cjBase + "}"); R.evaluation(); continue; }
			// ---- every single fault
			for (unsigned k = 1; k <= N; ++k) {
				const std::string cj = cjBase + ",\"fault\":\"request " + std::to_string(k) + " of " + std::to_string(N) + "\"}";
				R.setCase(cj);
				const Live b = live(); const size_t e0 = ip::eventCount();
				ip::armFault(k);
				void* p = create(v);
				const bool fired = ip::faultFired();
				ip::armFault(0);
				if (!fired) { R.violation("C15:harness:fault-did-not-fire", cj); if (p) destroy(v, p); continue; }
				// which kind of request failed (evidence)
				for (size_t i = e0; i < ip::eventCount(); ++i) { ip::Event e = ip::eventAt(i); if (e.injected) R.count(e.kind == ip::K_MEMALIGN ? "faults_in_posix_memalign" : e.kind == ip::K_MMAP ? "faults_in_mmap" : "faults_in_operator_new"); }
				R.count("single_faults_injected");
				if (p) { R.violation("C15:fault:non-null-result-although-allocation-failed", cj); destroy(v, p); }
				else R.count("single_faults_null_returned");
				std::string bad = scanEvents(e0);
				if (!bad.empty()) R.violation("C15:conservation:" + bad, cj);
				if (!same(b, live())) R.violation("C15:conservation:leak-after-failed-creation", cj.substr(0, cj.size() - 1) + ",\"live_before\":[" + std::to_string(b.heap) + "," + std::to_string(b.mapped) + "],\"live_after\":[" + std::to_string(live().heap) + "," + std::to_string(live().mapped) + "],\"live\":" + ip::liveSummary() + "}");
				followUp(cj);
				R.evaluation(); R.nontrivial(fnv1a(cj.data(), cj.size()));
				if (k == 1 && vi < 3 * args.nshards) R.sample(cj);
			}
			// ---- all pairs of faults (thorough): the second fault hits the clean-up / retry path if there is one
			if (thorough) for (unsigned k1 = 1; k1 <= N; ++k1) for (unsigned k2 = k1 + 1; k2 <= N; ++k2) {
				const std::string cj = cjBase + ",\"fault\":\"requests " + std::to_string(k1) + " and " + std::to_string(k2) + " of " + std::to_string(N) + "\"}";
				R.setCase(cj);
				const Live b = live();
				ip::armFault2(k1, k2);
				void* p = create(v);
				ip::armFault(0);
				if (p) { R.violation("C15:fault:non-null-result-although-allocation-failed", cj); destroy(v, p); }
				if (!same(b, live())) R.violation("C15:conservation:leak-after-failed-creation", cj);
				R.count("double_faults_injected"); R.evaluation();
			}
			if (ip::eventCount() > (1u << 19)) ip::clearEvents();
		}
		// ---- NULL arguments for which the header documents a NULL return (not under ASan: the asserts are compiled in there)
#ifdef NDEBUG
		if (args.shard == 0) {
			ip::setHugePages(1);
			for (int f : { 0, (int)RANDOMX_FLAG_JIT, (int)(RANDOMX_FLAG_JIT | RANDOMX_FLAG_SECURE), (int)RANDOMX_FLAG_HARD_AES & (int)hw }) {
				const Live b = live();
				randomx_vm* a = api::createVm((randomx_flags)f, nullptr, nullptr);
				randomx_vm* c = api::createVm((randomx_flags)(f | RANDOMX_FLAG_FULL_MEM), cacheS, nullptr);
				if (a || c) R.violation("C15:nullarg:create_vm-with-missing-cache-or-dataset-did-not-return-null", "{\"flags\":\"" + flagsName(f) + "\"}");
				if (a) api::destroyVm(a); if (c) api::destroyVm(c);
				if (!same(b, live())) R.violation("C15:conservation:leak-after-null-argument-call", "{\"flags\":\"" + flagsName(f) + "\"}");
				R.count("null_argument_calls", 2); R.evaluation();
			}
		}
#else
		R.count("null_argument_calls");
#endif
	}

	// ---- fault-free create / use / destroy cycles: conservation by address and process size
	{
		ip::setHugePages(1); ip::armFault(0);
		const Live b0 = live(); const long rss0 = rssKiB();
		for (uint64_t c = 0; c < cycles; ++c) {
			const int vmFlags = (int)(rng.below(64)); int fl = ((vmFlags & 1) ? RANDOMX_FLAG_LARGE_PAGES : 0) | ((vmFlags & 2) ? (int)(hw & RANDOMX_FLAG_HARD_AES) : 0) | ((vmFlags & 8) ? RANDOMX_FLAG_JIT : 0) | ((vmFlags & 16) ? RANDOMX_FLAG_SECURE : 0) | ((vmFlags & 32) ? RANDOMX_FLAG_V2 : 0);
			std::string cj = "{\"cycle\":" + std::to_string(c) + ",\"vm_flags\":\"" + flagsName(fl) + "\"}";
			R.setCase(cj);
			const Live b = live(); const size_t e0 = ip::eventCount();
			randomx_cache* cc = (c % 8 == 0) ? api::allocCache((randomx_flags)((c % 16 == 0 ? RANDOMX_FLAG_JIT : 0) | (c % 24 == 0 ? RANDOMX_FLAG_LARGE_PAGES : 0))) : nullptr;
			if (cc) api::initCache(cc, longKey.data(), longKey.size());
			randomx_vm* vm = api::createVm((randomx_flags)fl, cc ? cc : (c & 1 ? cacheL : cacheS), nullptr);
			if (!vm) { R.violation("C15:faultfree:create_vm-returned-null", cj); continue; }
			if (c % 4 == 0 || (fl & RANDOMX_FLAG_JIT)) { std::array<uint8_t, 32> d; api::hash(vm, probeInput, sizeof probeInput, d.data()); const bool lk = cc || (c & 1); if (d != (lk ? refL : refS)[(fl & RANDOMX_FLAG_V2) ? 1 : 0]) R.violation("C15:faultfree:wrong-digest", cj); }
			if (c % 5 == 0) api::setCache(vm, c & 1 ? cacheS : cacheL);
			api::destroyVm(vm);
			if (cc) api::releaseCache(cc);
			if (c % 16 == 3) { randomx_dataset* d = api::allocDataset((randomx_flags)(c % 32 == 3 ? RANDOMX_FLAG_LARGE_PAGES : 0)); if (d) api::releaseDataset(d); else R.violation("C15:faultfree:alloc_dataset-returned-null", cj); }
			std::string bad = scanEvents(e0);
			if (!bad.empty()) R.violation("C15:conservation:" + bad, cj);
			if (!same(b, live())) R.violation("C15:conservation:leak-in-fault-free-cycle", cj.substr(0, cj.size() - 1) + ",\"live\":" + ip::liveSummary() + "}");
			R.count("fault_free_cycles"); R.count("cycle_balance_checks"); R.evaluation();
			if (c < 2) { R.sample(cj); R.nontrivial(fnv1a(cj.data(), cj.size()) + c); }
			if (ip::eventCount() > (1u << 19)) ip::clearEvents();
		}
		const long rss1 = rssKiB();
		R.maxv("rss_growth_kib_over_cycles", (uint64_t)(rss1 > rss0 ? rss1 - rss0 : 0));
		if (cycles >= 16 && rss1 - rss0 > 512 * 1024) R.violation("C15:growth:resident-set-grew-over-create-destroy-cycles", "{\"cycles\":" + std::to_string(cycles) + ",\"rss_growth_kib\":" + std::to_string(rss1 - rss0) + "}");
		if (!same(b0, live())) R.violation("C15:conservation:live-set-differs-after-all-cycles", "{}");
	}
	api::releaseDataset(dsForVm); api::releaseCache(cacheS); api::releaseCache(cacheL);
	return 0;
}
