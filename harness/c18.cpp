// C18: the IMUL_RCP reciprocal is exact for every divisor (exhaustive execution of both routines over all
// 2^32 divisors against a 128-bit oracle), and for 0 / powers of two the instruction is a no-op that does not
// count as a register modification (decoded bytecode, last-writer table, emitted code and behaviour).
#include "rxv.hpp"
#include "api.hpp"
#include "vmutil.hpp"
#include "model/vm.hpp"
extern "C" {
#include "reciprocal.h"
}

using namespace rxv;
using randomx_verif::Access;

RXV_SUBCOMMAND(c18) {
	runWatchdogKey() = "C18:watchdog:program-execution-did-not-return";
	// ---- clause 1: all divisors of this shard's slice
	const uint64_t total = 1ULL << 32;
	const uint64_t lo = total * args.shard / args.nshards, hi = total * (args.shard + 1) / args.nshards;
	uint64_t compared = 0, pow2 = 0;
	R.floorKey("divisors_compared");
	for (uint64_t d64 = lo; d64 < hi; ++d64) {
		const uint32_t d = (uint32_t)d64;
		if ((d & (d - 1)) == 0) { ++pow2; continue; }
		const int bl = 32 - __builtin_clz(d);
		const uint64_t want = (uint64_t)(((unsigned __int128)1 << (63 + bl)) / d);
		uint64_t a, b;
		a = randomx_reciprocal(d);
		b = randomx_reciprocal_fast(d);
		if (a != want || b != want) {
			char buf[200]; snprintf(buf, sizeof buf, "{\"divisor\":%u,\"reciprocal\":\"%016llx\",\"reciprocal_fast\":\"%016llx\",\"oracle\":\"%016llx\"}", d, (unsigned long long)a, (unsigned long long)b, (unsigned long long)want);
			R.violation(a != want ? "C18:exhaustive:reciprocal" : "C18:exhaustive:reciprocal_fast", buf);
			if (R.violations() > 20) break;
		}
		++compared;
	}
	R.count("divisors_compared", compared);
	R.count("divisors_skipped_zero_or_pow2", pow2);
	R.evaluation(compared);
	// a few literal samples
	for (uint32_t d : { 3u, 0xffffffffu, 0x80000001u, 0x7fffffffu, 6u }) if (d >= lo && d < hi) {
		char buf[128]; snprintf(buf, sizeof buf, "{\"divisor\":%u,\"reciprocal\":\"%016llx\"}", d, (unsigned long long)randomx_reciprocal_fast(d));
		R.sample(buf);
		R.nontrivial(d);
	}
	if (compared) { R.nontrivial(lo * 2654435761ULL + 1); R.nontrivial(hi * 2654435761ULL + 2); }

	// ---- clause 2: no-op divisors (only shard 0 does this part)
	if (args.shard != 0) return 0;
	for (const char* f : { "noop_decoded", "noop_programs_run", "noop_observer_branch_taken", "noop_jit_zero_bytes" }) R.floorKey(f);
	Rng rng(args.seed, 0xc18, 0);
	const char key[] = "C18 no-op key";
	CacheHolder cache(RANDOMX_FLAG_DEFAULT, key, sizeof key - 1);
	if (!cache.c) R.harnessFail("cache");
	const randomx_flags hw = api::getFlags();
	const bool thorough = args.thorough();
	const mdl::OpTable& OT = mdl::opTable();
	std::vector<uint32_t> divisors = { 0 };
	for (int k = 0; k < 32; ++k) divisors.push_back(1u << k);
	std::vector<uint8_t> sp(kScratchpadBytes), spA(kScratchpadBytes), spB(kScratchpadBytes);
	for (int v2 = 0; v2 < 2; ++v2) {
		const randomx_flags vf = v2 ? RANDOMX_FLAG_V2 : RANDOMX_FLAG_DEFAULT;
		VmHolder vi((randomx_flags)(RANDOMX_FLAG_DEFAULT | vf), cache.c, nullptr);
		VmHolder vj((randomx_flags)(RANDOMX_FLAG_JIT | (hw & RANDOMX_FLAG_HARD_AES) | vf), cache.c, nullptr);
		if (!vi.vm || !vj.vm) R.harnessFail("vm");
		const int n = v2 ? 384 : 256;
		for (uint32_t div : divisors) for (int dst = 0; dst < 8; ++dst) {
			const int other = (dst + 1 + (int)rng.below(7)) & 7; // any register but dst
			alignas(64) uint8_t prog[kProgramBytes];
			rng.fill(prog, 128);
			// every slot: IMUL_RCP by 1 (a no-op) so that only the four instructions below act
			for (int i = 0; i < 384; ++i) putInstr(prog, i, { (uint8_t)OT.first[mdl::IMUL_RCP], (uint8_t)(i & 7), 0, 0, 1 });
			const unsigned base = 2 + (unsigned)rng.below(n - 8);
			putInstr(prog, base + 0, { (uint8_t)OT.first[mdl::IXOR_R], (uint8_t)dst, (uint8_t)other, 0, rng.u32() });              // writer of dst
			putInstr(prog, base + 1, { (uint8_t)OT.first[mdl::IADD_RS], (uint8_t)other, (uint8_t)other, 0, 0 });                   // observable side effect (other += other)
			putInstr(prog, base + 2, { (uint8_t)(OT.first[mdl::IMUL_RCP] + rng.below(8)), (uint8_t)dst, (uint8_t)rng.below(256), (uint8_t)rng.below(256), div }); // the no-op under test
			putInstr(prog, base + 3, { (uint8_t)OT.first[mdl::CBRANCH], (uint8_t)dst, 0, (uint8_t)(rng.below(16) << 4), rng.u32() }); // observer: must target base+1
			char cj[256]; snprintf(cj, sizeof cj, "{\"divisor\":%u,\"dst\":%d,\"other\":%d,\"slot\":%u,\"v2\":%d,\"program\":\"%s\"}", div, dst, other, base, v2, hex(prog + 128 + 8 * base, 32).c_str());
			R.setCase(cj);
			// (a) decoded bytecode and last-writer table of the real interpreter front end
			{
				randomx::BytecodeMachine bm; randomx::NativeRegisterFile nreg; randomx::InstructionByteCode ibc[4];
				bm.beginCompilation(nreg);
				randomx::Program* P = (randomx::Program*)prog;
				bm.compileInstruction((*P)(base + 0), base + 0, ibc[0]);
				bm.compileInstruction((*P)(base + 1), base + 1, ibc[1]);
				int before[8]; memcpy(before, Access::registerUsage(bm), sizeof before);
				bm.compileInstruction((*P)(base + 2), base + 2, ibc[2]);
				if (ibc[2].type != randomx::InstructionType::NOP) R.violation("C18:noop:interpreter-decodes-as-operation", cj);
				if (memcmp(before, Access::registerUsage(bm), sizeof before)) R.violation("C18:noop:interpreter-last-writer-changed", cj);
				bm.compileInstruction((*P)(base + 3), base + 3, ibc[3]);
				if (ibc[3].target != (int)base) R.violation("C18:noop:interpreter-branch-target", cj);
				R.count("noop_decoded");
			}
			// (b) behaviour: the program with the IMUL_RCP must act exactly like the same program with another
			// no-op (ISWAP_R r,r) in that slot, in both engines; the taken observer branch re-executes base+1
			rng.fill(sp.data(), sp.size());
			alignas(64) uint8_t ref[kProgramBytes]; memcpy(ref, prog, sizeof ref);
			putInstr(ref, base + 2, { (uint8_t)OT.first[mdl::ISWAP_R], (uint8_t)dst, (uint8_t)dst, 0, 0 });
			const unsigned iters = thorough ? 2048 : 256;
			struct Ctx { uint64_t taken; int slot; } ctx = { 0, (int)base + 3 };
			auto& hk = randomx_verif::hooks();
			hk.ctx = &ctx;
			hk.afterInstr = [](void* c, const void*, int pc0, int pc1) { Ctx* x = (Ctx*)c; if (pc0 == x->slot && pc1 != pc0) x->taken++; };
			ProgResult ri = runProgram(vi.vm, prog, sp.data(), 0, iters, spA.data());
			hk.afterInstr = nullptr; hk.ctx = nullptr;
			ProgResult rr = runProgram(vi.vm, ref, sp.data(), 0, iters, spB.data());
			if (memcmp(ri.reg, rr.reg, 256) || ri.spHash != rr.spHash) R.violation("C18:noop:interpreter-behaviour-differs-from-nop", cj);
			ProgResult rj = runProgram(vj.vm, prog, sp.data(), 0, iters, spB.data());
			if (memcmp(ri.reg, rj.reg, 256) || memcmp(spA.data(), spB.data(), kScratchpadBytes)) R.violation("C18:noop:jit-behaviour-differs", cj);
			R.count("noop_programs_run");
			if (ctx.taken) R.count("noop_observer_branch_taken");
			// (c) emitted code: zero bytes for the no-op, observer branch jumps to base+1
			{
				randomx::JitCompiler* jc = Access::compiler(vj.vm);
				auto& offs = Access::instructionOffsets(*jc);
				if ((int)offs.size() != n) R.violation("C18:noop:jit-offset-table-size", cj);
				else {
					if (offs[base + 3] - offs[base + 2] != 0) R.violation("C18:noop:jit-emits-code", cj); else R.count("noop_jit_zero_bytes");
					const uint8_t* code = Access::code(*jc);
					int32_t rel; memcpy(&rel, code + offs[base + 3] + 16, 4);
					int32_t target = offs[base + 3] + 20 + rel;
					if (target != offs[base + 1]) R.violation("C18:noop:jit-branch-target", cj);
				}
			}
			R.evaluation();
			R.nontrivial(fnv1a(cj, strlen(cj)));
			if (div == 0 && dst == 0) R.sample(cj);
			R.clearCase();
		}
	}
	return 0;
}
