// Fixture shared by the program-level checks: one cache, one fake dataset, lazily created VMs of every class.
#pragma once
#include "rxv.hpp"
#include "api.hpp"
#include "vmutil.hpp"
#include "proggen.hpp"
#include <map>
#include <memory>

namespace rxv {

struct ProgFixture {
	std::unique_ptr<CacheHolder> cache;
	std::unique_ptr<FakeDataset> ds;
	std::map<int, randomx_vm*> vms;
	randomx_flags hw;
	std::vector<uint8_t> sp0, spA, spB;
	explicit ProgFixture(uint64_t seed, bool needCache = true, uint64_t datasetExtent = 0) : sp0(kScratchpadBytes), spA(kScratchpadBytes), spB(kScratchpadBytes) {
		hw = api::getFlags();
		if (needCache) {
			const char key[] = "rxv program fixture key";
			cache.reset(new CacheHolder((randomx_flags)(RANDOMX_FLAG_DEFAULT | (hw & (RANDOMX_FLAG_ARGON2_AVX2 | RANDOMX_FLAG_ARGON2_SSSE3))), key, sizeof key - 1));
			if (!cache->c) R.harnessFail("fixture cache");
		}
		ds.reset(new FakeDataset(seed, 32u << 20, datasetExtent));
		if (!ds->ok) R.harnessFail("fixture dataset");
	}
	~ProgFixture() { for (auto& kv : vms) if (kv.second) api::destroyVm(kv.second); }
	// flags: any combination of JIT, SECURE, HARD_AES, FULL_MEM, V2, LARGE_PAGES
	randomx_vm* vm(int flags) {
		auto it = vms.find(flags);
		if (it != vms.end()) return it->second;
		randomx_vm* v = api::createVm((randomx_flags)flags, (flags & RANDOMX_FLAG_FULL_MEM) ? nullptr : cache->c, (flags & RANDOMX_FLAG_FULL_MEM) ? ds->get() : nullptr);
		if (!v) R.harnessFail("create_vm " + flagsName(flags));
		vms[flags] = v;
		return v;
	}
};

inline unsigned pickIterations(Rng& rng, bool allowFull) {
	if (allowFull && rng.chance(1, 4)) return 0; // 0 = full 2048
	static const unsigned n[] = { 1, 2, 3, 4, 8, 16, 16, 32, 64, 64 };
	return n[rng.below(10)];
}

} // namespace
