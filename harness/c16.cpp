// C16: secure mode never exposes writable-and-executable JIT pages; code buffers owned by a cache obey the rule
// unconditionally. Oracle: online checker over the interposed mmap/mprotect requests with a shadow protection map per
// library-owned mapping (owner tagged by the creating API call) + /proc/self/maps snapshots at API boundaries.
#include "rxv.hpp"
#include "api.hpp"
#include "vmutil.hpp"
#include "cases.hpp"
#include <thread>
#include <array>
#include <fstream>
#include <sstream>

using namespace rxv;

namespace {
// number of rwx lines in /proc/self/maps (none is expected while only secure VMs and caches exist: the harness
// binary is linked with a non-executable stack)
int rwxLines(std::string* first) {
	std::ifstream f("/proc/self/maps"); std::string line; int n = 0;
	while (std::getline(f, line)) { std::istringstream is(line); std::string range, perms; is >> range >> perms; if (perms.size() >= 3 && perms[0] == 'r' && perms[1] == 'w' && perms[2] == 'x') { if (!n && first) *first = line; ++n; } }
	return n;
}

struct Hist {
	Rng rng; randomx_flags hw; unsigned tid; bool snapshots; randomx_dataset* ds = nullptr; uint64_t fullVms = 0; int firstVmFlags = -1;
	std::vector<std::string> log; uint64_t hashes = 0, snaps = 0; std::string rwxSeen;
	std::vector<std::vector<uint8_t>> keys;
	Hist(uint64_t seed, unsigned shard, unsigned t, bool snap) : rng(seed, 0xc16 + t, shard), tid(t), snapshots(snap) { hw = api::getFlags(); for (int i = 0; i < 3; ++i) keys.push_back(cases::makeKey(rng, 30 + i)); }
	void snap() { if (!snapshots) return; std::string l; if (rwxLines(&l) && rwxSeen.empty()) rwxSeen = l; ++snaps; }
	int secureFlags() {
		int f = RANDOMX_FLAG_SECURE | (rng.chance(3, 4) ? RANDOMX_FLAG_JIT : 0);
		if ((hw & RANDOMX_FLAG_HARD_AES) && rng.chance(1, 2)) f |= RANDOMX_FLAG_HARD_AES;
		if (rng.chance(1, 4)) f |= RANDOMX_FLAG_LARGE_PAGES;
		if (rng.chance(1, 2)) f |= RANDOMX_FLAG_V2;
		if (ds && rng.chance(2, 5)) f |= RANDOMX_FLAG_FULL_MEM;
		return f;
	}
	void run(unsigned ops) {
		api::threadIndex() = tid;
		randomx_cache* cache[2] = { nullptr, nullptr }; int ckey[2] = { -1, -1 };
		randomx_vm* vm[2] = { nullptr, nullptr }; int vcache[2] = { -1, -1 }; bool valid[2] = { false, false };
		uint8_t out[32]; const uint8_t in[] = "C16 input";
		// every history begins with a usable cache and one secure VM, then random operations
		{ int f = rng.chance(1, 2) ? RANDOMX_FLAG_JIT : 0; log.push_back("alloc_cache(" + flagsName(f) + ")"); cache[0] = api::allocCache((randomx_flags)f); snap(); int k = (int)rng.below(3); log.push_back("init_cache(k" + std::to_string(k) + ")"); api::initCache(cache[0], cases::nn(keys[k]), keys[k].size()); ckey[0] = k; snap();
		  int vf = firstVmFlags >= 0 ? firstVmFlags : secureFlags(); log.push_back("create_vm(" + flagsName(vf) + ")"); vm[0] = api::createVm((randomx_flags)vf, (vf & RANDOMX_FLAG_FULL_MEM) ? nullptr : cache[0], (vf & RANDOMX_FLAG_FULL_MEM) ? ds : nullptr); if (!vm[0]) R.harnessFail("create secure vm"); vcache[0] = (vf & RANDOMX_FLAG_FULL_MEM) ? -2 : 0; valid[0] = true; if (vf & RANDOMX_FLAG_FULL_MEM) ++fullVms; snap(); }
		for (unsigned o = 0; o < ops; ++o) {
			const unsigned w = (unsigned)rng.below(100); const int s = (int)rng.below(2);
			if (w < 14 && !cache[s]) { int f = (rng.chance(1, 2) ? RANDOMX_FLAG_JIT : 0) | (rng.chance(1, 6) ? RANDOMX_FLAG_LARGE_PAGES : 0); log.push_back("alloc_cache(" + flagsName(f) + ")"); cache[s] = api::allocCache((randomx_flags)f); snap(); }
			else if (w < 30 && cache[s]) { int k = (int)rng.below(3); log.push_back("init_cache(k" + std::to_string(k) + ")"); api::initCache(cache[s], cases::nn(keys[k]), keys[k].size()); if (ckey[s] != k) for (int v = 0; v < 2; ++v) if (vcache[v] == s) valid[v] = false; ckey[s] = k; snap(); }
			else if (w < 44 && !vm[s] && cache[s & 1] && ckey[s & 1] >= 0) { int f = secureFlags(); log.push_back("create_vm(" + flagsName(f) + ")"); vm[s] = api::createVm((randomx_flags)f, (f & RANDOMX_FLAG_FULL_MEM) ? nullptr : cache[s & 1], (f & RANDOMX_FLAG_FULL_MEM) ? ds : nullptr); if (!vm[s]) R.harnessFail("create secure vm"); vcache[s] = (f & RANDOMX_FLAG_FULL_MEM) ? -2 : (s & 1); valid[s] = true; if (f & RANDOMX_FLAG_FULL_MEM) ++fullVms; snap(); }
			else if (w < 70 && vm[s] && valid[s]) { log.push_back("hash"); api::hash(vm[s], in, sizeof in, out); ++hashes; snap(); }
			else if (w < 78 && vm[s] && valid[s]) { log.push_back("batch"); api::hashFirst(vm[s], in, sizeof in); snap(); api::hashNext(vm[s], in, 3, out); snap(); api::hashLast(vm[s], out); _mm_setcsr(0x1F80); hashes += 2; snap(); }
			else if (w < 88 && vm[s]) { int c = (int)rng.below(2); if (vcache[s] == -2) { log.push_back("set_dataset"); api::setDataset(vm[s], ds); snap(); } else if (cache[c] && ckey[c] >= 0) { log.push_back("set_cache"); api::setCache(vm[s], cache[c]); vcache[s] = c; valid[s] = true; snap(); } }
			else if (w < 92 && vm[s]) { log.push_back("switch_version"); ip::Api a("setFlagV2"); if (rng.chance(1, 2)) vm[s]->setFlagV2(); else vm[s]->clearFlagV2(); }
			else if (w < 96 && vm[s]) { log.push_back("destroy_vm"); api::destroyVm(vm[s]); vm[s] = nullptr; vcache[s] = -1; snap(); }
			else if (cache[s]) { bool bound = false; for (int v = 0; v < 2; ++v) if (vm[v] && vcache[v] == s) bound = true; if (!bound) { log.push_back("release_cache"); api::releaseCache(cache[s]); cache[s] = nullptr; ckey[s] = -1; snap(); } }
		}
		for (int v = 0; v < 2; ++v) if (vm[v]) api::destroyVm(vm[v]);
		for (int c = 0; c < 2; ++c) if (cache[c]) api::releaseCache(cache[c]);
		snap();
	}
	std::string json() const { std::string j = "["; for (size_t i = 0; i < log.size() && i < 120; ++i) j += (i ? "," : "") + jsonStr(log[i]); return j + "]"; }
};
}

RXV_SUBCOMMAND(c16) {
	const uint64_t nHist = args.cases ? args.cases : 3;
	const unsigned ops = (unsigned)args.num("ops", 40);
	ip::setHugePages(1);
	for (const char* f : { "histories", "secure_vm_protection_events", "secure_vm_rw_to_rx", "secure_vm_rx_to_rw", "cache_protection_events", "maps_snapshots", "hashes", "monitor_selftest_saw_rwx_of_plain_vm", "threaded_histories" }) R.floorKey(f);

	// monitor self-test: a non-secure JIT VM legitimately maps its buffer RWX; the monitor must see that event
	{
		const char k[] = "c16"; randomx_cache* c = api::allocCache(RANDOMX_FLAG_DEFAULT); api::initCache(c, k, 3);
		randomx_vm* v = api::createVm(RANDOMX_FLAG_JIT, c, nullptr);
		std::string l; const int n = rwxLines(&l);
		bool sawEvent = false;
		for (size_t i = 0; i < ip::eventCount(); ++i) { ip::Event e = ip::eventAt(i); if (e.kind == ip::K_MPROTECT && (e.prot & 6) == 6) sawEvent = true; }
		if (sawEvent && n > 0) R.count("monitor_selftest_saw_rwx_of_plain_vm");
		api::destroyVm(v); api::releaseCache(c);
		if (rwxLines(nullptr) != 0) R.harnessFail("an rwx mapping exists before any history started; /proc/self/maps snapshots would be meaningless");
		ip::clearEvents();
	}

	// shards given --dataset 1 build one real dataset so that the secure full-memory VM classes take part
	randomx_dataset* dataset = nullptr;
	if (args.num("dataset", 0)) {
		const char k[] = "c16 dataset key"; randomx_cache* c = api::allocCache(RANDOMX_FLAG_JIT); api::initCache(c, k, sizeof k - 1);
		dataset = api::allocDataset(RANDOMX_FLAG_DEFAULT); if (!dataset || !c) R.harnessFail("dataset");
		std::vector<std::thread> th; const unsigned long total = randomx_dataset_item_count();
		for (unsigned t = 0; t < 16; ++t) th.emplace_back([=] { api::initDataset(dataset, c, total * t / 16, total * (t + 1) / 16 - total * t / 16); });
		for (auto& t : th) t.join();
		api::releaseCache(c); ip::clearEvents();
		R.floorKey("secure_full_memory_vms");
	}
	for (uint64_t h = 0; h < nHist; ++h) {
		const unsigned threads = (h % 3 == 2) ? 2 + (unsigned)((args.shard + h) % 3) : 1;
		std::vector<std::unique_ptr<Hist>> hs;
		for (unsigned t = 0; t < threads; ++t) { hs.emplace_back(new Hist(args.seed * 1000 + h, args.shard, t, threads == 1 || t == 0)); hs.back()->ds = dataset;
			// the first VM of the history walks through every secure class deterministically (the rest is random)
			const uint64_t g = (args.shard + args.nshards * h) * 4 + t; int f = RANDOMX_FLAG_SECURE | ((g & 1) ? 0 : RANDOMX_FLAG_JIT) | ((g & 2) && (hs.back()->hw & RANDOMX_FLAG_HARD_AES) ? RANDOMX_FLAG_HARD_AES : 0) | ((g & 4) ? RANDOMX_FLAG_LARGE_PAGES : 0) | ((g & 8) ? RANDOMX_FLAG_V2 : 0) | ((dataset && !(g & 16)) ? RANDOMX_FLAG_FULL_MEM : 0);
			if (g % 3 != 2) f |= RANDOMX_FLAG_JIT; hs.back()->firstVmFlags = f; }
		R.setCase("{\"history\":" + std::to_string(h) + ",\"threads\":" + std::to_string(threads) + "}");
		const ip::WxStat s0 = ip::wxStats(ip::TAG_SECURE_VM), c0 = ip::wxStats(ip::TAG_CACHE);
		if (threads == 1) hs[0]->run(ops);
		else { std::vector<std::thread> th; for (auto& hp : hs) th.emplace_back([&hp, ops] { hp->run(ops); }); for (auto& t : th) t.join(); R.count("threaded_histories"); }
		const ip::WxStat s1 = ip::wxStats(ip::TAG_SECURE_VM), c1 = ip::wxStats(ip::TAG_CACHE);
		std::string hist = hs[0]->json();
		if (s1.wxViolations != s0.wxViolations || c1.wxViolations != c0.wxViolations) R.violation(std::string("C16:monitor:write-and-exec-requested:") + (s1.wxViolations != s0.wxViolations ? "secure-vm" : "cache"), "{\"first_event\":" + jsonStr(ip::firstWxViolation()) + ",\"history\":" + hist + "}");
		for (auto& hp : hs) { if (!hp->rwxSeen.empty()) R.violation("C16:maps:rwx-mapping-present-at-api-boundary", "{\"maps_line\":" + jsonStr(hp->rwxSeen) + ",\"history\":" + hp->json() + "}"); R.count("hashes", hp->hashes); R.count("maps_snapshots", hp->snaps); R.count("secure_full_memory_vms", hp->fullVms); }
		R.count("secure_vm_protection_events", s1.protEvents - s0.protEvents); R.count("secure_vm_rw_to_rx", s1.rwToRx - s0.rwToRx); R.count("secure_vm_rx_to_rw", s1.rxToRw - s0.rxToRw);
		R.count("cache_protection_events", c1.protEvents - c0.protEvents); R.count("cache_rw_to_rx", c1.rwToRx - c0.rwToRx);
		R.count("histories"); R.evaluation();
		if (s1.protEvents != s0.protEvents) R.nontrivial(fnv1a(hist.data(), hist.size()) + h);
		if (h < 2) R.sample("{\"threads\":" + std::to_string(threads) + ",\"history\":" + hist + "}");
		ip::clearEvents();
		R.clearCase();
	}
	if (dataset) api::releaseDataset(dataset);
	return 0;
}
