// rxv: verification harness entry point, reporting and utilities.
#include "rxv.hpp"
#include <cstdio>
#include <cstdlib>
#include <csignal>
#include <unistd.h>
#include <fcntl.h>
#include <time.h>
#include <ucontext.h>
#include <dlfcn.h>
#include <string>
#include <fstream>
#include <sstream>

namespace rxv {

Report R;

std::string hex(const void* p, size_t n) {
	static const char* d = "0123456789abcdef";
	const uint8_t* b = (const uint8_t*)p;
	std::string s(n * 2, '0');
	for (size_t i = 0; i < n; ++i) { s[2 * i] = d[b[i] >> 4]; s[2 * i + 1] = d[b[i] & 15]; }
	return s;
}

std::vector<uint8_t> unhex(const std::string& s) {
	std::vector<uint8_t> v(s.size() / 2);
	auto nib = [](char c) -> int { return c <= '9' ? c - '0' : (c | 32) - 'a' + 10; };
	for (size_t i = 0; i < v.size(); ++i) v[i] = (uint8_t)(nib(s[2 * i]) << 4 | nib(s[2 * i + 1]));
	return v;
}

uint64_t fnv1a(const void* p, size_t n, uint64_t h) {
	const uint8_t* b = (const uint8_t*)p;
	for (size_t i = 0; i < n; ++i) { h ^= b[i]; h *= 0x100000001b3ULL; }
	return h;
}

std::string jsonStr(const std::string& s) {
	std::string o = "\"";
	for (unsigned char c : s) {
		if (c == '"' || c == '\\') { o += '\\'; o += (char)c; }
		else if (c < 0x20 || c >= 0x7f) { char b[8]; snprintf(b, sizeof b, "\\u%04x", c); o += b; }
		else o += (char)c;
	}
	return o + "\"";
}

double nowSeconds() {
	timespec ts; clock_gettime(CLOCK_MONOTONIC, &ts);
	return ts.tv_sec + ts.tv_nsec * 1e-9;
}

uint64_t Args::num(const std::string& k, uint64_t dflt) const {
	auto it = opt.find(k);
	return it == opt.end() ? dflt : strtoull(it->second.c_str(), nullptr, 0);
}
std::string Args::str(const std::string& k, const std::string& dflt) const {
	auto it = opt.find(k);
	return it == opt.end() ? dflt : it->second;
}

// ------------------------------------------------------------------ Report
static char g_caseBuf[1 << 16];
static volatile size_t g_caseLen = 0;
static char g_subName[64];

static void writeAll(int fd, const char* p, size_t n) {
	while (n) { ssize_t w = ::write(fd, p, n); if (w <= 0) return; p += w; n -= (size_t)w; }
}

void Report::open(const Args& a) {
	t0 = nowSeconds();
	hashesPath = a.hashes;
	snprintf(g_subName, sizeof g_subName, "%s", a.sub.c_str());
	if (a.out.empty()) fd = 1;
	else {
		fd = ::open(a.out.c_str(), O_WRONLY | O_CREAT | O_TRUNC | O_APPEND, 0644);
		if (fd < 0) { perror("open out"); _exit(2); }
	}
	std::ostringstream o;
	o << "{\"type\":\"start\",\"sub\":" << jsonStr(a.sub) << ",\"seed\":" << a.seed << ",\"shard\":" << a.shard
	  << ",\"nshards\":" << a.nshards << ",\"tier\":" << jsonStr(a.tier) << "}\n";
	writeAll(fd, o.str().data(), o.str().size());
}

void Report::setCase(const std::string& caseJson) {
	size_t n = caseJson.size() < sizeof(g_caseBuf) - 1 ? caseJson.size() : sizeof(g_caseBuf) - 1;
	g_caseLen = 0;
	memcpy(g_caseBuf, caseJson.data(), n);
	g_caseBuf[n] = 0;
	g_caseLen = n;
}
void Report::clearCase() { g_caseLen = 0; }

void Report::violation(const std::string& key, const std::string& replayJson) {
	++nviol;
	if (nviol > 50) return; // keep files small; the count is still reported
	std::string line = "{\"type\":\"violation\",\"key\":" + jsonStr(key) + ",\"replay\":" + (replayJson.empty() ? "{}" : replayJson) + "}\n";
	writeAll(fd, line.data(), line.size());
}

void Report::harnessFail(const std::string& why) {
	std::string line = "{\"type\":\"harness_failure\",\"why\":" + jsonStr(why) + "}\n";
	writeAll(fd, line.data(), line.size());
	fprintf(stderr, "rxv: harness failure: %s\n", why.c_str());
	_exit(2);
}

int Report::finish() {
	std::ostringstream o;
	o << "{\"type\":\"summary\",\"evaluations\":" << evals << ",\"violations\":" << nviol << ",\"wall_s\":" << (nowSeconds() - t0);
	auto dump = [&](const char* name, const std::map<std::string, uint64_t>& m) {
		o << ",\"" << name << "\":{";
		bool first = true;
		for (auto& kv : m) { if (!first) o << ","; first = false; o << jsonStr(kv.first) << ":" << kv.second; }
		o << "}";
	};
	dump("counters", counters); dump("maxima", maxima); dump("minima", minima);
	o << ",\"notes\":{";
	{ bool first = true; for (auto& kv : notes) { if (!first) o << ","; first = false; o << jsonStr(kv.first) << ":" << kv.second; } }
	o << "},\"floors\":[";
	{ bool first = true; for (auto& k : floors) { if (!first) o << ","; first = false; o << jsonStr(k); } }
	o << "],\"samples\":[";
	for (size_t i = 0; i < samples.size(); ++i) { if (i) o << ","; o << samples[i]; }
	o << "],\"nontrivial\":" << ntHashes.size() << "}\n";
	writeAll(fd, o.str().data(), o.str().size());
	if (!hashesPath.empty()) {
		FILE* f = fopen(hashesPath.c_str(), "wb");
		if (f) { if (!ntHashes.empty()) fwrite(ntHashes.data(), 8, ntHashes.size(), f); fclose(f); }
	}
	return nviol ? 1 : 0;
}

// ------------------------------------------------------------------ fatal signals
static char g_altStack[1 << 16];

static size_t appendStr(char* buf, size_t pos, size_t cap, const char* s) {
	while (*s && pos + 1 < cap) buf[pos++] = *s++;
	return pos;
}
static size_t appendHex(char* buf, size_t pos, size_t cap, uint64_t v) {
	char tmp[17]; int n = 0;
	do { tmp[n++] = "0123456789abcdef"[v & 15]; v >>= 4; } while (v);
	while (n && pos + 1 < cap) buf[pos++] = tmp[--n];
	return pos;
}

static void fatalHandler(int sig, siginfo_t* si, void* uc) {
	static volatile sig_atomic_t entered = 0;
	if (entered) _exit(4);
	entered = 1;
	const bool inApi = ip::insideApi();
	char region[128]; region[0] = 0;
	uintptr_t addr = (uintptr_t)si->si_addr;
	if (sig == SIGSEGV || sig == SIGBUS) ip::classify(addr, region, sizeof region);
	const char* name = sig == SIGSEGV ? "SIGSEGV" : sig == SIGBUS ? "SIGBUS" : sig == SIGFPE ? "SIGFPE" : sig == SIGILL ? "SIGILL" : sig == SIGABRT ? "SIGABRT" : "SIG";
	uint64_t pc = 0;
#if defined(__x86_64__)
	if (uc) pc = (uint64_t)((ucontext_t*)uc)->uc_mcontext.gregs[REG_RIP];
#endif
	static char line[sizeof(g_caseBuf) + 1024];
	size_t p = 0;
	if (inApi) {
		p = appendStr(line, p, sizeof line, "{\"type\":\"violation\",\"key\":\"crash:");
		p = appendStr(line, p, sizeof line, name);
		p = appendStr(line, p, sizeof line, ":");
		p = appendStr(line, p, sizeof line, region[0] ? region : "unmapped-or-other");
		p = appendStr(line, p, sizeof line, "\",\"replay\":{\"signal\":\"");
		p = appendStr(line, p, sizeof line, name);
		p = appendStr(line, p, sizeof line, "\",\"fault_addr\":\"0x");
		p = appendHex(line, p, sizeof line, addr);
		p = appendStr(line, p, sizeof line, "\",\"pc\":\"0x");
		p = appendHex(line, p, sizeof line, pc);
		{
			// innermost function (dynamic symbol table, binary is linked with -rdynamic); generated code has no symbol
			Dl_info di; const char* sym = (pc && dladdr((void*)pc, &di) && di.dli_sname) ? di.dli_sname : (region[0] ? "" : "generated-or-unknown-code");
			p = appendStr(line, p, sizeof line, "\",\"pc_symbol\":\"");
			p = appendStr(line, p, sizeof line, sym);
		}
		p = appendStr(line, p, sizeof line, "\",\"region\":\"");
		p = appendStr(line, p, sizeof line, region);
		p = appendStr(line, p, sizeof line, "\",\"sub\":\"");
		p = appendStr(line, p, sizeof line, g_subName);
		p = appendStr(line, p, sizeof line, "\",\"case\":");
		if (g_caseLen) { size_t n = g_caseLen; if (p + n + 8 < sizeof line) { memcpy(line + p, g_caseBuf, n); p += n; } else p = appendStr(line, p, sizeof line, "null"); }
		else p = appendStr(line, p, sizeof line, "null");
		p = appendStr(line, p, sizeof line, "}}\n");
	} else {
		p = appendStr(line, p, sizeof line, "{\"type\":\"harness_failure\",\"why\":\"fatal signal ");
		p = appendStr(line, p, sizeof line, name);
		p = appendStr(line, p, sizeof line, " outside any library call, addr 0x");
		p = appendHex(line, p, sizeof line, addr);
		p = appendStr(line, p, sizeof line, " pc 0x");
		p = appendHex(line, p, sizeof line, pc);
		p = appendStr(line, p, sizeof line, " ");
		p = appendStr(line, p, sizeof line, region);
		p = appendStr(line, p, sizeof line, "\"}\n");
	}
	if (R.fd >= 0) writeAll(R.fd, line, p);
	writeAll(2, line, p);
	_exit(inApi ? 3 : 2);
}

// async-signal-safe: appends a violation record for the case in progress
void signalSafeViolation(const char* key) {
	static char line[sizeof(g_caseBuf) + 512];
	size_t p = 0;
	p = appendStr(line, p, sizeof line, "{\"type\":\"violation\",\"key\":\"");
	p = appendStr(line, p, sizeof line, key);
	p = appendStr(line, p, sizeof line, "\",\"replay\":{\"sub\":\"");
	p = appendStr(line, p, sizeof line, g_subName);
	p = appendStr(line, p, sizeof line, "\",\"case\":");
	if (g_caseLen && p + g_caseLen + 8 < sizeof line) { memcpy(line + p, g_caseBuf, g_caseLen); p += g_caseLen; } else p = appendStr(line, p, sizeof line, "null");
	p = appendStr(line, p, sizeof line, "}}\n");
	if (R.fd >= 0) writeAll(R.fd, line, p);
}

// ---- watchdog around runs of generated / interpreted programs: a run that does not return within the (generous) limit
// is reported as a violation for the case in progress (non-termination is a property violation for C04/C07; for the
// other program-level checks it is at least a disagreement with the interpreter, whose run is bounded by construction)
static const char* volatile g_watchdogKey = nullptr;
static void onWatchdogAlarm(int) {
	const char* k = g_watchdogKey;
	if (!k) return;
	signalSafeViolation(k);
	_exit(3);
}
void armRunWatchdog(const char* key, unsigned seconds) {
	static bool installed = false;
	if (!installed) { struct sigaction sa; memset(&sa, 0, sizeof sa); sa.sa_handler = onWatchdogAlarm; sigemptyset(&sa.sa_mask); sigaction(SIGALRM, &sa, nullptr); installed = true; }
	g_watchdogKey = key;
	alarm(seconds);
}
void disarmRunWatchdog() { alarm(0); g_watchdogKey = nullptr; }

#if defined(__SANITIZE_ADDRESS__)
// ASan calls this before printing a report: attribute the report to the case in progress
extern "C" void __asan_on_error() {
	static char line[sizeof(g_caseBuf) + 128];
	size_t p = 0;
	p = appendStr(line, p, sizeof line, "{\"type\":\"sanitizer_case\",\"case\":");
	if (g_caseLen && p + g_caseLen + 8 < sizeof line) { memcpy(line + p, g_caseBuf, g_caseLen); p += g_caseLen; } else p = appendStr(line, p, sizeof line, "null");
	p = appendStr(line, p, sizeof line, "}\n");
	if (R.fd >= 0) writeAll(R.fd, line, p);
}
#endif

void installSignalHandlers() {
#if defined(__SANITIZE_ADDRESS__) || defined(__SANITIZE_THREAD__)
	return; // the sanitizer runtime reports fatal signals itself (with stacks); its log is parsed by the driver
#endif
	stack_t ss; ss.ss_sp = g_altStack; ss.ss_size = sizeof g_altStack; ss.ss_flags = 0;
	sigaltstack(&ss, nullptr);
	struct sigaction sa; memset(&sa, 0, sizeof sa);
	sa.sa_sigaction = fatalHandler;
	sa.sa_flags = SA_SIGINFO | SA_ONSTACK | SA_NODEFER;
	sigemptyset(&sa.sa_mask);
	for (int s : { SIGSEGV, SIGBUS, SIGFPE, SIGILL, SIGABRT }) sigaction(s, &sa, nullptr);
}

// ------------------------------------------------------------------ dispatch
struct SubEntry { const char* name; SubFn fn; };
static std::vector<SubEntry>& subs() { static std::vector<SubEntry> v; return v; }
SubReg::SubReg(const char* name, SubFn fn) { subs().push_back({ name, fn }); }

} // namespace rxv

int main(int argc, char** argv) {
	using namespace rxv;
	if (argc < 2) {
		fprintf(stderr, "usage: rxv <subcommand> [--seed S] [--shard i] [--nshards n] [--cases N] [--tier t] [--out f] [--hashes f] [--replay f] [--k v]...\nsubcommands:");
		for (auto& e : subs()) fprintf(stderr, " %s", e.name);
		fprintf(stderr, "\n");
		return 2;
	}
	Args a; a.sub = argv[1];
	for (int i = 2; i + 1 < argc; i += 2) {
		std::string k = argv[i], v = argv[i + 1];
		if (k.rfind("--", 0) != 0) { fprintf(stderr, "bad option %s\n", k.c_str()); return 2; }
		k = k.substr(2);
		if (k == "seed") a.seed = strtoull(v.c_str(), nullptr, 0);
		else if (k == "shard") a.shard = (unsigned)strtoul(v.c_str(), nullptr, 0);
		else if (k == "nshards") a.nshards = (unsigned)strtoul(v.c_str(), nullptr, 0);
		else if (k == "cases") a.cases = strtoull(v.c_str(), nullptr, 0);
		else if (k == "tier") a.tier = v;
		else if (k == "out") a.out = v;
		else if (k == "hashes") a.hashes = v;
		else if (k == "replay") a.replay = v;
		else a.opt[k] = v;
	}
	for (auto& e : subs()) {
		if (a.sub == e.name) {
			R.open(a);
			installSignalHandlers();
			int rc = e.fn(a);
			int frc = R.finish();
			return rc ? rc : frc;
		}
	}
	fprintf(stderr, "unknown subcommand %s\n", a.sub.c_str());
	return 2;
}
