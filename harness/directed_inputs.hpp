// Inputs whose FIRST program has a dataset-offset configuration field (bits 0..18 of configuration word 13) at or next to an end of
// its range. Found once by screening about 2.3 million candidate strings "rxv-fixed-directed-<n>" with Blake2b-512, AesGenerator1R
// over the 2 MiB scratchpad and AesGenerator4R (2^-19 per value and candidate); the configuration block is a function of the input
// alone, so the list serves every key. c02.cpp re-screens each entry on every run and counts entries that no longer match as stale.
#pragma once
#include <cstdint>
struct FixedDirected { const char* input; uint64_t offset; };
static const FixedDirected kFixedDirected[] = {
	{ "rxv-fixed-directed-420970", 0x7ffff },
	{ "rxv-fixed-directed-1496556", 0x7ffff },
	{ "rxv-fixed-directed-195625", 0x0 },
	{ "rxv-fixed-directed-387428", 0x0 },
	{ "rxv-fixed-directed-1647903", 0x7ffff },
	{ "rxv-fixed-directed-477546", 0x7fffe },
	{ "rxv-fixed-directed-2223548", 0x0 },
	{ "rxv-fixed-directed-87931", 0x1 },
};
