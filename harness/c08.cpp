// C08: fast-mode dataset equals light-mode items, however it is initialised; an initialisation call writes exactly
// the requested items. Oracles: three-way equality (dataset bytes == initDatasetItem == model item), canary pattern
// around every call, write-set log of the cache's dataset-init routine (recording wrapper) checked offline for
// containment in the API-level request and pairwise disjointness across threads.
#include "rxv.hpp"
#include "api.hpp"
#include "vmutil.hpp"
#include "cases.hpp"
#include "model/vm.hpp"
#include <thread>
#include <mutex>
#include <algorithm>

using namespace rxv;

namespace {
struct WriteRec { uint32_t thread; uintptr_t dst; uint32_t start, end; uint32_t api; };
std::mutex g_wmu; std::vector<WriteRec> g_writes;
randomx::DatasetInitFunc* g_realInit = nullptr;
void recordingInit(randomx_cache* cache, uint8_t* dataset, uint32_t startBlock, uint32_t endBlock) {
	{ std::lock_guard<std::mutex> l(g_wmu); g_writes.push_back({ api::threadIndex(), (uintptr_t)dataset, startBlock, endBlock, ip::currentApi() }); }
	g_realInit(cache, dataset, startBlock, endBlock);
}
struct Call { unsigned long start, count; unsigned thread; };
}

RXV_SUBCOMMAND(c08) {
	Rng rng(args.seed, 0xc08, args.shard);
	const bool thorough = args.thorough();
	const uint64_t nRounds = args.cases ? args.cases : 12;
	const uint64_t modelItems = args.num("model_items", 600);
	ip::enableGuards(true);
	const unsigned long TOTAL = randomx_dataset_item_count();
	for (const char* f : { "calls", "calls_count_lt_4", "calls_count_mod4_nonzero", "calls_count_mod4_zero", "calls_count_zero", "calls_ending_at_last_item", "calls_start_0", "items_compared_light", "items_compared_model", "canary_bytes_checked",
		"threaded_rounds", "write_records", "initialiser_compiled", "initialiser_interpreter", "partitions", "edge_grid_calls", "small_calls_ending_at_last_item", "large_single_calls" }) R.floorKey(f);
	if (thorough && args.shard == 0) R.floorKey("full_dataset_items_compared");

	std::vector<uint8_t> key = cases::makeKey(rng, args.shard);
	const std::string keyHex = hex(key.data(), key.size());
	R.setCase("{\"key\":\"" + keyHex + "\",\"stage\":\"setup\"}");
	mdl::Cache mc; mc.init(cases::nn(key), key.size());
	// every other shard takes the LARGE_PAGES variants of the cache / dataset objects (their allocation switch sets up the
	// initialiser pointers separately); the interposed mmap serves the huge-page requests with ordinary pages
	ip::setHugePages(1);
	const int lpCache = (args.shard & 1) ? RANDOMX_FLAG_LARGE_PAGES : 0, lpDataset = (args.shard & 2) ? RANDOMX_FLAG_LARGE_PAGES : 0;
	randomx_dataset* ds = api::allocDataset((randomx_flags)lpDataset);
	if (!ds) R.harnessFail("alloc_dataset");
	if (lpCache) R.count("caches_large_pages", 2);
	if (lpDataset) R.count("datasets_large_pages");
	uint8_t* mem = (uint8_t*)randomx_get_dataset_memory(ds);

	for (int jit = 0; jit < 2; ++jit) {
		randomx_cache* cache = api::allocCache((randomx_flags)((jit ? RANDOMX_FLAG_JIT : 0) | lpCache));
		if (!cache) R.harnessFail("alloc_cache");
		api::initCache(cache, cases::nn(key), key.size());
		if (memcmp(randomx_get_cache_memory(cache), mc.bytes(), 268435456)) R.violation("C08:model:cache-bytes", "{\"key\":\"" + keyHex + "\"}");
		// recording wrapper around the cache's dataset-init routine (interpreter: C++ function, JIT: generated code)
		g_realInit = cache->datasetInit; cache->datasetInit = &recordingInit;
		R.count(jit ? "initialiser_compiled" : "initialiser_interpreter");

		// ---- edge grid (first shards): every (start, count) near the end of the dataset, near 0 and at a few interior
		// positions (incl. item numbers around 2^24 / 2^25), counts 0..12 - the small-count branch next to the boundaries
		if (args.shard < 4) {
			std::vector<std::pair<unsigned long, unsigned long>> grid;
			for (unsigned long k = 1; k <= 13; ++k) for (unsigned long c = 0; c <= k; ++c) grid.push_back({ TOTAL - k, c });
			for (unsigned long st : { 0UL, 1UL, 3UL, 16777214UL, 33554429UL, (unsigned long)rng.below(TOTAL - 64) }) for (unsigned long c = 0; c <= 12; ++c) grid.push_back({ st, c });
			for (size_t gi = args.shard; gi < grid.size(); gi += 4) {
				const unsigned long st = grid[gi].first, c = grid[gi].second;
				const unsigned long cs = st >= 8 ? st - 8 : 0, ce = std::min(TOTAL, st + c + 8);
				std::string cj = "{\"key\":\"" + keyHex + "\",\"initialiser\":\"" + (jit ? "compiled" : "interpreter") + "\",\"edge_grid\":true,\"start\":" + std::to_string(st) + ",\"count\":" + std::to_string(c) + "}";
				R.setCase(cj);
				memset(mem + cs * 64, 0x5c, (ce - cs) * 64);
				api::threadIndex() = 0;
				api::initDataset(ds, cache, st, c);
				bool ok = true;
				for (unsigned long i = cs * 64; i < st * 64 && ok; ++i) if (mem[i] != 0x5c) ok = false;
				for (unsigned long i = (st + c) * 64; i < ce * 64 && ok; ++i) if (mem[i] != 0x5c) ok = false;
				if (!ok) R.violation(std::string("C08:canary:bytes-outside-requested-range-changed:") + (jit ? "compiled" : "interpreter"), cj);
				for (unsigned long it = st; it < st + c; ++it) {
					uint8_t light[64]; { ip::Api s("initDatasetItem"); randomx::initDatasetItem(cache, light, it); }
					uint8_t want[64]; mc.item(it, want);
					if (memcmp(light, mem + it * 64, 64)) { R.violation(std::string("C08:differential:dataset-item-differs-from-light-item:") + (jit ? "compiled" : "interpreter"), "{\"case\":" + cj + ",\"item\":" + std::to_string(it) + "}"); break; }
					if (memcmp(want, mem + it * 64, 64)) { R.violation(std::string("C08:model:dataset-item-differs-from-spec:") + (jit ? "compiled" : "interpreter"), "{\"case\":" + cj + ",\"item\":" + std::to_string(it) + "}"); break; }
					R.count("items_compared_light"); R.count("items_compared_model");
				}
				R.count("calls"); R.count("edge_grid_calls"); if (c && st + c == TOTAL) { R.count("calls_ending_at_last_item"); if (c < 4) R.count("small_calls_ending_at_last_item"); }
				if (c == 0) R.count("calls_count_zero"); else if (c < 4) R.count("calls_count_lt_4"); else if (c % 4) R.count("calls_count_mod4_nonzero"); else R.count("calls_count_mod4_zero");
				R.evaluation(); R.nontrivial(fnv1a(cj.data(), cj.size()));
				{ std::lock_guard<std::mutex> l(g_wmu); g_writes.clear(); }
			}
			R.clearCase();
		}
		// ---- one large single call per cache: counts beyond 2^16 (and, on shard 1, beyond 2^17) at an interior start - a per-call
		// counter narrower than the count only shows when ONE call processes that many items; items at the head, around every
		// multiple of 65536 and at the tail, plus a random sample, are compared with the light-mode item; canaries on both sides
		if (args.shard < (jit ? 4u : 2u)) {
			const unsigned long c = (args.shard == 1 ? 131072UL : 65536UL) + 1 + (unsigned long)rng.below(jit ? 70000 : 3000);
			const unsigned long st = 64 + (unsigned long)rng.below(TOTAL - c - 128);
			std::string cj = "{\"key\":\"" + keyHex + "\",\"initialiser\":\"" + (jit ? "compiled" : "interpreter") + "\",\"large_single_call\":true,\"start\":" + std::to_string(st) + ",\"count\":" + std::to_string(c) + "}";
			R.setCase(cj);
			memset(mem + (st - 8) * 64, 0x5c, (c + 16) * 64);
			api::threadIndex() = 0;
			api::initDataset(ds, cache, st, c);
			bool ok = true;
			for (unsigned long i = (st - 8) * 64; i < st * 64 && ok; ++i) if (mem[i] != 0x5c) ok = false;
			for (unsigned long i = (st + c) * 64; i < (st + c + 8) * 64 && ok; ++i) if (mem[i] != 0x5c) ok = false;
			if (!ok) R.violation(std::string("C08:canary:bytes-outside-requested-range-changed:") + (jit ? "compiled" : "interpreter"), cj);
			std::vector<unsigned long> probe;
			for (unsigned long k = 0; k < 6; ++k) { probe.push_back(st + k); probe.push_back(st + c - 1 - k); }
			for (unsigned long m = 65536; m < c; m += 65536) for (long d = -3; d <= 3; ++d) if (m + d < c) probe.push_back(st + m + d);
			for (int k = 0; k < 300; ++k) probe.push_back(st + (unsigned long)rng.below(c));
			for (unsigned long it : probe) {
				uint8_t light[64]; { ip::Api s("initDatasetItem"); randomx::initDatasetItem(cache, light, it); }
				if (memcmp(light, mem + it * 64, 64)) { R.violation(std::string("C08:differential:dataset-item-differs-from-light-item:") + (jit ? "compiled" : "interpreter"), "{\"case\":" + cj + ",\"item\":" + std::to_string(it) + ",\"offset_in_call\":" + std::to_string(it - st) + "}"); break; }
				R.count("items_compared_light");
			}
			R.count("calls"); R.count("large_single_calls"); R.count(c % 4 ? "calls_count_mod4_nonzero" : "calls_count_mod4_zero");
			R.evaluation(); R.nontrivial(fnv1a(cj.data(), cj.size()));
			{ std::lock_guard<std::mutex> l(g_wmu); g_writes.clear(); }
			R.clearCase();
		}
		for (uint64_t round = 0; round < nRounds; ++round) {
			// ---- a window of the dataset and a partition of (part of) it into consecutive calls
			const unsigned long maxLen = jit ? 20000 : 3000; // the interpreter initialiser is ~8 us per item
			unsigned long wlen = 1 + (unsigned long)rng.below(maxLen);
			unsigned long wstart;
			switch (rng.below(4)) { case 0: wstart = 0; break; case 1: wstart = TOTAL - wlen; break; default: wstart = (unsigned long)rng.below(TOTAL - wlen); break; }
			std::vector<Call> calls;
			unsigned long pos = wstart; const unsigned long wend = wstart + wlen;
			const unsigned threads = rng.chance(1, 2) ? 1 : 2 + (unsigned)rng.below(15);
			while (pos < wend) {
				unsigned long c;
				switch (rng.below(6)) {
				case 0: c = (unsigned long)rng.below(10); break;                               // 0..9
				case 1: c = 4 * (1 + (unsigned long)rng.below(64)); break;                     // 4k
				case 2: c = 4 * (1 + (unsigned long)rng.below(64)) + 1 + (unsigned long)rng.below(3); break; // 4k+1..3
				case 3: c = (unsigned long)rng.below(5000); break;
				case 4: c = wend - pos; break;                                                 // rest of the window
				default: c = 1 + (unsigned long)rng.below(3); break;                           // 1..3: stack-buffer branch
				}
				if (c > wend - pos) c = wend - pos;
				calls.push_back({ pos, c, (unsigned)rng.below(threads) });
				pos += c;
				if (calls.size() > 400) { calls.push_back({ pos, wend - pos, (unsigned)rng.below(threads) }); pos = wend; }
			}
			std::string cj = "{\"key\":\"" + keyHex + "\",\"initialiser\":\"" + (jit ? "compiled" : "interpreter") + "\",\"window_start\":" + std::to_string(wstart) + ",\"window_len\":" + std::to_string(wlen) + ",\"threads\":" + std::to_string(threads) + ",\"calls\":[";
			for (size_t i = 0; i < calls.size() && i < 40; ++i) cj += (i ? "," : "") + std::string("[") + std::to_string(calls[i].start) + "," + std::to_string(calls[i].count) + "," + std::to_string(calls[i].thread) + "]";
			cj += "]}";
			R.setCase(cj);
			// ---- canary pattern over the window +- 8 items
			const unsigned long cstart = wstart >= 8 ? wstart - 8 : 0, cend = std::min(TOTAL, wend + 8);
			const uint8_t pat = (uint8_t)(0x40 + rng.below(0x7f));
			memset(mem + cstart * 64, pat, (cend - cstart) * 64);
			{ std::lock_guard<std::mutex> l(g_wmu); g_writes.clear(); }
			// ---- run the calls: each thread issues its calls in order
			std::vector<std::vector<Call>> perThread(threads);
			for (auto& c : calls) perThread[c.thread].push_back(c);
			if (threads == 1) { api::threadIndex() = 0; for (auto& c : calls) api::initDataset(ds, cache, c.start, c.count); }
			else {
				std::vector<std::thread> th;
				for (unsigned t = 0; t < threads; ++t) th.emplace_back([&, t] { api::threadIndex() = t; for (auto& c : perThread[t]) api::initDataset(ds, cache, c.start, c.count); });
				for (auto& t : th) t.join();
				R.count("threaded_rounds");
			}
			// ---- bytes outside the requested items untouched (the whole window is requested, so: the 8-item margins)
			bool outside = true;
			for (unsigned long i = cstart * 64; i < wstart * 64 && outside; ++i) if (mem[i] != pat) outside = false;
			for (unsigned long i = wend * 64; i < cend * 64 && outside; ++i) if (mem[i] != pat) outside = false;
			if (!outside) R.violation(std::string("C08:canary:bytes-outside-requested-range-changed:") + (jit ? "compiled" : "interpreter"), cj);
			R.count("canary_bytes_checked", (wstart - cstart + cend - wend) * 64);
			// ---- every item of the window equals the light-mode item; sampled items equal the model item
			bool bad = false;
			for (unsigned long it = wstart; it < wend && !bad; ++it) {
				uint8_t light[64];
				{ ip::Api s("initDatasetItem"); randomx::initDatasetItem(cache, light, it); }
				if (memcmp(light, mem + it * 64, 64)) {
					bad = true;
					R.violation(std::string("C08:differential:dataset-item-differs-from-light-item:") + (jit ? "compiled" : "interpreter"), "{\"case\":" + cj + ",\"item\":" + std::to_string(it) + ",\"dataset\":\"" + hex(mem + it * 64, 64) + "\",\"light\":\"" + hex(light, 64) + "\"}");
				}
				R.count("items_compared_light");
			}
			for (uint64_t k = 0; k < modelItems / nRounds + 1; ++k) {
				unsigned long it = k == 0 ? wstart : k == 1 ? wend - 1 : wstart + (unsigned long)rng.below(wlen);
				uint8_t want[64]; mc.item(it, want);
				if (memcmp(want, mem + it * 64, 64)) { R.violation(std::string("C08:model:dataset-item-differs-from-spec:") + (jit ? "compiled" : "interpreter"), "{\"case\":" + cj + ",\"item\":" + std::to_string(it) + "}"); break; }
				R.count("items_compared_model");
			}
			// ---- write-set log: containment in the requests and disjointness across threads
			{
				std::lock_guard<std::mutex> l(g_wmu);
				struct Iv { uintptr_t a, b; unsigned thread; };
				std::vector<Iv> ivs;
				for (auto& w : g_writes) {
					const uintptr_t a = w.dst, b = w.dst + (uintptr_t)(w.end - w.start) * 64;
					if (a < (uintptr_t)mem || a >= (uintptr_t)mem + kDatasetBytes) continue; // stack buffer of the count < 4 branch
					if (a < (uintptr_t)mem + wstart * 64 || b > (uintptr_t)mem + wend * 64) R.violation(std::string("C08:writeset:initialiser-asked-to-write-outside-request:") + (jit ? "compiled" : "interpreter"), cj);
					if ((a - (uintptr_t)mem) / 64 != w.start) R.violation(std::string("C08:writeset:destination-does-not-match-item-number:") + (jit ? "compiled" : "interpreter"), cj);
					// must lie inside one call issued by that thread
					bool inside = false; for (auto& c : perThread[w.thread]) if (a >= (uintptr_t)mem + c.start * 64 && b <= (uintptr_t)mem + (c.start + c.count) * 64) inside = true;
					if (!inside) R.violation(std::string("C08:writeset:write-not-inside-the-calling-threads-request:") + (jit ? "compiled" : "interpreter"), cj);
					ivs.push_back({ a, b, w.thread });
				}
				std::sort(ivs.begin(), ivs.end(), [](const Iv& x, const Iv& y) { return x.a < y.a; });
				uintptr_t maxEnd = 0; unsigned maxThread = 0;
				for (size_t i = 0; i < ivs.size(); ++i) {
					if (i && ivs[i].a < maxEnd && ivs[i].thread != maxThread) { R.violation(std::string("C08:writeset:overlapping-writes-from-different-threads:") + (jit ? "compiled" : "interpreter"), cj); break; }
					if (ivs[i].b > maxEnd) { maxEnd = ivs[i].b; maxThread = ivs[i].thread; }
				}
				R.count("write_records", g_writes.size());
			}
			for (auto& c : calls) {
				R.count("calls");
				if (c.count == 0) R.count("calls_count_zero"); else if (c.count < 4) R.count("calls_count_lt_4"); else if (c.count % 4) R.count("calls_count_mod4_nonzero"); else R.count("calls_count_mod4_zero");
				if (c.start + c.count == TOTAL && c.count) R.count("calls_ending_at_last_item");
				if (c.start == 0) R.count("calls_start_0");
			}
			R.count("partitions"); R.evaluation();
			R.nontrivial(fnv1a(cj.data(), cj.size()));
			if (round < 1) R.sample(cj);
			R.clearCase();
		}
		cache->datasetInit = g_realInit;
		api::releaseCache(cache);
	}
	api::releaseDataset(ds);

	// ---- thorough, shard 0: the complete dataset by both initialisers, all items compared
	if (thorough && args.shard == 0 && args.num("full", 1)) {
		R.setCase("{\"key\":\"" + keyHex + "\",\"stage\":\"full datasets\"}");
		randomx_dataset* d[2]; randomx_cache* c[2];
		for (int jit = 0; jit < 2; ++jit) {
			c[jit] = api::allocCache(jit ? RANDOMX_FLAG_JIT : RANDOMX_FLAG_DEFAULT); api::initCache(c[jit], cases::nn(key), key.size());
			d[jit] = api::allocDataset(RANDOMX_FLAG_DEFAULT); if (!d[jit] || !c[jit]) R.harnessFail("full dataset alloc");
			std::vector<unsigned long> cut = { 0 }; for (unsigned i = 1; i < 16; ++i) cut.push_back(TOTAL * i / 16 + (unsigned long)rng.below(9) - 4); cut.push_back(TOTAL);
			std::vector<std::thread> th; for (unsigned t = 0; t < 16; ++t) th.emplace_back([&, t, jit] { api::initDataset(d[jit], c[jit], cut[t], cut[t + 1] - cut[t]); });
			for (auto& t : th) t.join();
		}
		const uint8_t* a = (const uint8_t*)randomx_get_dataset_memory(d[0]); const uint8_t* b = (const uint8_t*)randomx_get_dataset_memory(d[1]);
		if (memcmp(a, b, kDatasetBytes)) { unsigned long it = 0; while (!memcmp(a + it * 64, b + it * 64, 64)) ++it; R.violation("C08:differential:full-dataset-interpreter-vs-compiled", "{\"key\":\"" + keyHex + "\",\"first_item\":" + std::to_string(it) + "}"); }
		R.count("full_dataset_items_compared", TOTAL);
		for (uint64_t k = 0; k < 200000; ++k) { unsigned long it = (unsigned long)rng.below(TOTAL); uint8_t want[64]; mc.item(it, want); if (memcmp(want, a + it * 64, 64)) { R.violation("C08:model:full-dataset-item", "{\"item\":" + std::to_string(it) + "}"); break; } R.count("items_compared_model"); }
		for (int jit = 0; jit < 2; ++jit) { api::releaseDataset(d[jit]); api::releaseCache(c[jit]); }
		R.evaluation();
	}
	return 0;
}
