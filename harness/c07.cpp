// C07: every program terminates within a fixed instruction budget.
//  (a) counter monitor at the interpreter hook: instructions per iteration <= 3|P|, no CBRANCH taken 3x in a row;
//  (b) structural monitor: decoded branch target / constant / mask of the interpreter bytecode and of the code the JIT
//      emitted (read back from the code buffer) against the last-writer table of the model's decoder;
//  (c) arithmetic monitor: the real compile + execute of CBRANCH applied three times never jumps three times;
//  (d) JIT execution returns (watchdog with the interpreter's bounded run as the logical clock).
#include "progs.hpp"
#include <csignal>
#include <unistd.h>
#include <sys/time.h>

using namespace rxv;
using randomx_verif::Access;

namespace {
struct Counter {
	uint64_t inIter = 0, maxInIter = 0, total = 0;
	int lastBranchPc = -1, run = 0, maxRun = 0;
	uint64_t runHist[4] = { 0, 0, 0, 0 };
	int programSize = 0;
	bool overBudget = false, tripleTaken = false;
};
void cbIterBegin(void* c, const randomx_verif::IterInfo&) { Counter* k = (Counter*)c; k->inIter = 0; k->lastBranchPc = -1; k->run = 0; }
void cbAfter(void* c, const void* ibcv, int pc0, int pc1) {
	Counter* k = (Counter*)c; ++k->inIter; ++k->total;
	if (k->inIter > k->maxInIter) k->maxInIter = k->inIter;
	if (k->inIter > 3ULL * k->programSize) k->overBudget = true;
	const auto* ibc = (const randomx::InstructionByteCode*)ibcv;
	if (ibc->type == randomx::InstructionType::CBRANCH) {
		const bool taken = pc1 != pc0;
		if (taken) { k->run = (k->lastBranchPc == pc0) ? k->run + 1 : 1; if (k->run > k->maxRun) k->maxRun = k->run; if (k->run >= 3) k->tripleTaken = true; k->lastBranchPc = pc0; }
		else { if (k->lastBranchPc == pc0) { k->runHist[k->run > 3 ? 3 : k->run]++; } else k->runHist[0]++; k->run = 0; k->lastBranchPc = -1; }
	}
}
}

RXV_SUBCOMMAND(c07) {
	runWatchdogKey() = "C07:watchdog:interpreter-execution-did-not-return";
	Rng rng(args.seed, 0xc07, args.shard);
	const bool thorough = args.thorough();
	const uint64_t nProgs = args.cases ? args.cases : 200;
	const uint64_t nArith = args.num("arith", thorough ? 100000000 : 600000);
	for (const char* f : { "programs_run", "branches_decoded_interpreter", "branches_decoded_jit", "arith_samples", "taken_run_len_1", "taken_run_len_2", "iterations_monitored", "branch_dense_programs", "jit_runs_returned", "budget_stress_programs" }) R.floorKey(f);
	for (int b = 0; b < 16; ++b) R.floorKey("arith_b" + std::to_string(b + 8));

	// ---- (c) arithmetic monitor through the real front end and the real exe_CBRANCH
	{
		randomx::BytecodeMachine bm; randomx::NativeRegisterFile nreg; randomx::InstructionByteCode ibc;
		randomx::ProgramConfiguration cfg; memset(&cfg, 0, sizeof cfg);
		uint8_t dummySp[64];
		const mdl::OpTable& OT = mdl::opTable();
		ip::Api scope("cbranch-arith");
		for (uint64_t q = 0; q < nArith; ++q) {
			const int cond = (int)(q & 15), b = cond + 8;
			uint32_t imm;
			switch ((q >> 4) % 5) {
			case 0: imm = rng.u32(); break;
			case 1: imm = 0xffffffffu << rng.below(32); break;                                       // ones above
			case 2: imm = (0xffu << b) | (rng.u32() & ~(0x1ffu << (b - 1))); break;                 // window all ones
			case 3: imm = rng.u32() & ((1u << b) - 1); break;                                        // only bits below the window
			default: imm = pg::interestingImm(rng); break;
			}
			randomx::Instruction in; in.opcode = (uint8_t)(OT.first[mdl::CBRANCH] + (q % mdl::opFreq[mdl::CBRANCH])); in.dst = (uint8_t)rng.below(8); in.src = 0; in.setMod((uint8_t)(cond << 4 | rng.below(16))); in.setImm32(imm);
			bm.beginCompilation(nreg);
			bm.compileInstruction(in, 0, ibc);
			// structural: constant has bit b set, bit b-1 clear, mask is 8 bits at b, equals the specified cimm
			const uint64_t want = ((uint64_t)(int64_t)(int32_t)imm | (1ULL << b)) & ~(1ULL << (b - 1));
			if (ibc.imm != want || ibc.memMask != (0xffu << b) || ibc.target != -1) {
				char buf[200]; snprintf(buf, sizeof buf, "{\"imm32\":%u,\"cond\":%d,\"cimm\":\"%016llx\",\"mask\":\"%08x\",\"target\":%d}", imm, cond, (unsigned long long)ibc.imm, ibc.memMask, ibc.target);
				R.violation("C07:structure:interpreter-branch-constant", buf);
			}
			// d chosen so that the first execution is (often) taken: d + c has a zero window
			uint64_t d;
			switch ((q >> 8) % 3) {
			case 0: d = rng.next(); break;
			case 1: d = ((rng.next() & ~(0xffULL << b)) - ibc.imm); break;               // first one taken
			default: d = ((rng.next() & ~(0xffULL << b)) - 2 * ibc.imm); break;           // second one taken
			}
			nreg.r[in.dst & 7] = d;
			int takenCount = 0;
			for (int rep = 0; rep < 3; ++rep) { int pc = 100; randomx::BytecodeMachine::executeInstruction(ibc, pc, dummySp, cfg, RANDOMX_FLAG_DEFAULT); if (pc != 100) ++takenCount; else break; }
			if (takenCount >= 3) { char buf[160]; snprintf(buf, sizeof buf, "{\"d\":\"%016llx\",\"imm32\":%u,\"cond\":%d}", (unsigned long long)d, imm, cond); R.violation("C07:arith:three-consecutive-jumps", buf); }
			R.count("arith_b" + std::to_string(b));
			if (takenCount == 2) R.count("arith_two_in_a_row");
			if ((q & 0xfffff) == 0) { char buf[160]; snprintf(buf, sizeof buf, "{\"d\":\"%016llx\",\"imm32\":%u,\"cond\":%d,\"taken\":%d}", (unsigned long long)d, imm, cond, takenCount); R.sample(buf); }
		}
		R.count("arith_samples", nArith); R.evaluation(nArith);
	}

	// ---- (a) (b) (d) on programs
	ip::enableGuards(true);
	ProgFixture fx(args.seed * 71 + args.shard);
	alignas(64) uint8_t prog[pg::PROG_BYTES];
	for (uint64_t ci = 0; ci < nProgs; ++ci) {
		const int gen = (ci % 2) ? pg::G_BRANCH_DENSE : 1 + (int)((ci / 2) % 6);
		pg::Meta meta; pg::genProgram(rng, gen, prog, &meta);
		const bool v2 = rng.chance(1, 2), hard = (fx.hw & RANDOMX_FLAG_HARD_AES) && rng.chance(1, 2), full = rng.chance(2, 3);
		const int spKind = (int)(rng.chance(1, 2) ? pg::SP_RANDOM : rng.below(pg::SP_COUNT));
		const unsigned iters = pickIterations(rng, true);
		pg::genScratchpad(rng, spKind, fx.sp0.data());
		const int n = v2 ? 384 : 256;
		if (ci % 8 == 7) {
			// budget stress: a body without integer writers closed by one CBRANCH on an unmodified register (target = program
			// start), scratchpad filled with a value d for which the branch is taken twice in a row: ~3|P| instructions
			const mdl::OpTable& OT = mdl::opTable();
			uint64_t d = 0; uint32_t imm = 0; int cond = 0;
			for (int tries = 0; tries < 100000; ++tries) {
				cond = (int)rng.below(16); const int b = cond + 8; imm = rng.u32();
				const uint64_t c = ((uint64_t)(int64_t)(int32_t)imm | (1ULL << b)) & ~(1ULL << (b - 1));
				d = (rng.next() & ~(0xffULL << b)) - c;
				if ((((d + 2 * c) >> b) & 0xff) == 0) break;
			}
			static const int body[] = { mdl::FSWAP_R, mdl::FSQRT_R, mdl::FADD_R, mdl::FSUB_R, mdl::FMUL_R, mdl::FSCAL_R, mdl::CFROUND };
			for (int i = 0; i < 384; ++i) pg::put(prog, i, { pg::opc(body[rng.below(7)], rng), (uint8_t)rng.below(256), (uint8_t)rng.below(256), (uint8_t)rng.below(256), rng.u32() });
			pg::put(prog, n - 1, { pg::opc(mdl::CBRANCH, rng), (uint8_t)rng.below(8), 0, (uint8_t)(cond << 4), imm });
			for (size_t off = 0; off < kScratchpadBytes; off += 8) memcpy(fx.sp0.data() + off, &d, 8);
			meta.what = "budget-stress";
			R.count("budget_stress_programs");
		}
		char head[300]; snprintf(head, sizeof head, "{\"generator\":\"%s\",\"what\":\"%s\",\"v2\":%d,\"hard_aes\":%d,\"full_mem\":%d,\"scratchpad\":\"%s\",\"iterations\":%u,\"shard\":%u,\"case\":%llu",
			pg::genNames[gen], meta.what.c_str(), v2, hard, full, pg::spNames[spKind], iters ? iters : 2048, args.shard, (unsigned long long)ci);
		std::string cj = std::string(head) + ",\"program\":\"" + hex(prog, pg::PROG_BYTES) + "\"}";
		R.setCase(cj);
		const int base = (v2 ? RANDOMX_FLAG_V2 : 0) | (hard ? RANDOMX_FLAG_HARD_AES : 0) | (full ? RANDOMX_FLAG_FULL_MEM : 0);
		std::vector<mdl::Decoded> code; mdl::decodeProgram(prog, v2, code);
		// (b) interpreter bytecode
		{
			randomx::BytecodeMachine bm; randomx::NativeRegisterFile nreg; static randomx::InstructionByteCode bc[RANDOMX_PROGRAM_MAX_SIZE];
			alignas(64) uint8_t copy[pg::PROG_BYTES]; memcpy(copy, prog, sizeof copy);
			{ ip::Api s("compileProgram"); bm.compileProgram(*(randomx::Program*)copy, bc, nreg, (randomx_flags)base); }
			for (int i = 0; i < n; ++i) if (code[i].op == mdl::CBRANCH) {
				const int b = (code[i].mod >> 4) + 8;
				const uint64_t want = ((uint64_t)(int64_t)(int32_t)code[i].imm32 | (1ULL << b)) & ~(1ULL << (b - 1));
				if (bc[i].type != randomx::InstructionType::CBRANCH || bc[i].target + 1 != code[i].target || bc[i].imm != want || bc[i].memMask != (0xffu << b) || bc[i].idst != &nreg.r[code[i].dst])
					R.violation("C07:structure:interpreter-branch-target-or-constant", "{\"case\":" + cj + ",\"pc\":" + std::to_string(i) + ",\"real_target\":" + std::to_string(bc[i].target + 1) + ",\"spec_target\":" + std::to_string(code[i].target) + "}");
				R.count("branches_decoded_interpreter");
			}
		}
		// (a) counters on the interpreted run
		Counter k; k.programSize = n;
		auto& hk = randomx_verif::hooks();
		hk.ctx = &k; hk.iterBegin = cbIterBegin; hk.afterInstr = cbAfter;
		const double t0 = nowSeconds();
		ProgResult ri = runProgram(fx.vm(base), prog, fx.sp0.data(), 0, iters, fx.spA.data());
		const double tInterp = nowSeconds() - t0;
		hk.iterBegin = nullptr; hk.afterInstr = nullptr; hk.ctx = nullptr;
		if (k.overBudget) R.violation("C07:counter:more-than-3P-instructions-in-one-iteration", "{\"case\":" + cj + ",\"max_in_iteration\":" + std::to_string(k.maxInIter) + "}");
		if (k.tripleTaken) R.violation("C07:counter:branch-taken-three-times-in-a-row", "{\"case\":" + cj + "}");
		R.maxv("max_executed_per_iteration_x1000_over_P", k.maxInIter * 1000 / n);
		R.count("taken_run_len_1", k.runHist[1]); R.count("taken_run_len_2", k.runHist[2]); R.count("branch_not_taken", k.runHist[0]);
		R.count("iterations_monitored", iters ? iters : 2048); R.count("instructions_monitored", k.total);
		// (d) JIT run under the watchdog, then (b) on the emitted code
		randomx_vm* vj = fx.vm(base | RANDOMX_FLAG_JIT);
		{
			runWatchdogKey() = "C07:watchdog:jit-execution-did-not-return";
			ProgResult rj = runProgram(vj, prog, fx.sp0.data(), 0, iters, fx.spB.data());
			runWatchdogKey() = "C07:watchdog:interpreter-execution-did-not-return";
			R.count("jit_runs_returned");
			if (memcmp(ri.reg, rj.reg, 256) || memcmp(fx.spA.data(), fx.spB.data(), kScratchpadBytes)) R.violation("C07:differential:jit-vs-interpreter-on-branchy-program", "{\"case\":" + cj + "}");
		}
		{
			randomx::JitCompiler* jc = Access::compiler(vj);
			auto& offs = Access::instructionOffsets(*jc);
			const uint8_t* cbuf = Access::code(*jc);
			if ((int)offs.size() != n) R.violation("C07:structure:jit-offset-table-size", "{\"case\":" + cj + "}");
			else for (int i = 0; i < n; ++i) if (code[i].op == mdl::CBRANCH) {
				const uint8_t* p = cbuf + offs[i];
				const int b = (code[i].mod >> 4) + 8, reg = code[i].dst;
				uint32_t addImm, testImm; int32_t rel; memcpy(&addImm, p + 3, 4); memcpy(&testImm, p + 10, 4); memcpy(&rel, p + 16, 4);
				const uint32_t wantImm = (code[i].imm32 | (1u << b)) & ~(1u << (b - 1));
				const bool shape = p[0] == 0x49 && p[1] == 0x81 && p[2] == 0xc0 + reg && p[7] == 0x49 && p[8] == 0xf7 && p[9] == 0xc0 + reg && p[14] == 0x0f && p[15] == 0x84;
				const int32_t target = offs[i] + 20 + rel;
				if (!shape || addImm != wantImm || testImm != (0xffu << b) || target != offs[code[i].target]) {
					char buf[256]; snprintf(buf, sizeof buf, ",\"pc\":%d,\"emitted\":\"%s\",\"jump_target_offset\":%d,\"spec_target_pc\":%d,\"spec_target_offset\":%d}", i, hex(p, 20).c_str(), target, code[i].target, offs[code[i].target]);
					R.violation("C07:structure:jit-branch-target-or-constant", "{\"case\":" + cj + buf);
				}
				R.count("branches_decoded_jit");
			}
		}
		R.count("programs_run"); if (gen == pg::G_BRANCH_DENSE) R.count("branch_dense_programs");
		R.evaluation();
		if (k.runHist[1] + k.runHist[2] > 0) R.nontrivial(fnv1a(prog, pg::PROG_BYTES));
		if (ci < 2) R.sample(std::string(head) + ",\"max_instructions_in_one_iteration\":" + std::to_string(k.maxInIter) + ",\"taken_runs\":[" + std::to_string(k.runHist[1]) + "," + std::to_string(k.runHist[2]) + "]}");
		R.clearCase();
	}
	return 0;
}
