// C02: the hash equals the value defined by the written specification (reference-model monitor).
#include "rxv.hpp"
#include "api.hpp"
#include "vmutil.hpp"
#include "cases.hpp"
#include "model/vm.hpp"

#include <thread>
#include <mutex>
#include "aes_hash.hpp"
#include "directed_inputs.hpp"

using namespace rxv;

namespace {
struct Capture {
	std::vector<std::vector<uint8_t>> regFiles;
	std::vector<int> iterations;
	int cur = 0;
	randomx::NativeRegisterFile* nreg = nullptr;
};
}

RXV_SUBCOMMAND(c02) {
	Rng rng(args.seed, 0xc02, args.shard);
	const uint64_t nKeys = args.cases ? args.cases : 1;
	const uint64_t nInputs = args.num("inputs", 3);
	const uint64_t nItems = args.num("items", 2000);
	ip::enableGuards(true);
	ip::setGarbageSeed(args.seed * 977 + args.shard + 1);
	const randomx_flags hw = api::getFlags();
	for (const char* f : { "cache_bytes_compared", "dataset_items_compared", "programs_compared", "regfiles_compared", "digests_compared_model", "v1_hashes", "v2_hashes" }) R.floorKey(f);

	for (uint64_t ki = 0; ki < nKeys; ++ki) {
		std::vector<uint8_t> key = cases::makeKey(rng, args.shard * 1000 + ki);
		std::string keyHex = hex(key.data(), key.size());
		R.setCase("{\"key\":\"" + keyHex + "\",\"stage\":\"cache\"}");
		// model side
		mdl::Cache mc; mc.init(key.data(), key.size());
		// real side: default cache (reference Argon2) for the interpreter, JIT+best-Argon2 cache for the fast VM
		randomx_cache* cache = api::allocCache(RANDOMX_FLAG_DEFAULT);
		if (!cache) R.harnessFail("alloc_cache failed");
		api::initCache(cache, cases::nn(key), key.size());
		const uint8_t* real = (const uint8_t*)randomx_get_cache_memory(cache);
		if (memcmp(real, mc.bytes(), 268435456) != 0) {
			size_t off = 0; while (real[off] == mc.bytes()[off]) ++off;
			R.violation("C02:model:cache-bytes", "{\"key\":\"" + keyHex + "\",\"first_diff_block\":" + std::to_string(off / 1024) + "}");
		}
		R.count("cache_bytes_compared", 268435456);
		// superscalar programs (with the reciprocals the cache stores in place of the immediates)
		for (int p = 0; p < 8; ++p) {
			auto& rp = cache->programs[p];
			bool same = rp.getSize() == mc.progs[p].ins.size() && rp.getAddressRegister() == mc.progs[p].addressReg;
			for (unsigned j = 0; same && j < rp.getSize(); ++j) {
				auto& ri = rp(j); auto& mi = mc.progs[p].ins[j];
				same = ri.opcode == mi.type && ri.dst == mi.dst && ri.src == mi.src && ri.mod == (uint8_t)mi.mod;
				if (same) same = mi.type == mdl::SS_IMUL_RCP ? cache->reciprocalCache.at(ri.getImm32()) == mdl::reciprocal(mi.imm32) : ri.getImm32() == mi.imm32;
			}
			if (!same) R.violation("C02:model:superscalar-program", "{\"key\":\"" + keyHex + "\",\"program\":" + std::to_string(p) + "}");
			R.count("superscalar_programs_compared");
		}
		// dataset items: light-mode item (real) vs model item
		for (uint64_t i = 0; i < nItems; ++i) {
			uint64_t item = i < 4 ? (i == 0 ? 0 : i == 1 ? 34078718 : i == 2 ? 1 : 33554431) : rng.below(34078719);
			uint8_t a[64], b[64];
			{ ip::Api s("initDatasetItem"); randomx::initDatasetItem(cache, a, item); }
			mc.item(item, b);
			if (memcmp(a, b, 64)) R.violation("C02:model:dataset-item", "{\"key\":\"" + keyHex + "\",\"item\":" + std::to_string(item) + "}");
			R.count("dataset_items_compared");
		}
		auto readDs = [&](uint64_t addr, uint8_t* out) { mc.item(addr / 64, out); };

		// ---- directed inputs: configuration values at the ends of their ranges occur once in 2^19 programs, far below what a
		// dozen inputs reach. The first program's configuration block is a cheap function of the input (Blake2b, AesGenerator1R over
		// the scratchpad, AesGenerator4R), so candidates are screened with the library's own generators (tied to the specification by
		// C11 / C12) for a maximal or zero dataset-offset field; the inputs found are then hashed like all others and compared with
		// the model, which derives the configuration independently.
		std::vector<std::vector<uint8_t>> directed;
		if (ki == 0) {
			const uint64_t budget = args.num("search", 600000);
			const unsigned nth = 8;
			std::mutex dm; std::vector<std::thread> th;
			const bool hard = (hw & RANDOMX_FLAG_HARD_AES) != 0;
			for (unsigned t = 0; t < nth; ++t) th.emplace_back([&, t] {
				std::vector<uint8_t> sp(RANDOMX_SCRATCHPAD_L3 + 64);
				uint8_t* spa = (uint8_t*)(((uintptr_t)sp.data() + 63) & ~(uintptr_t)63);
				for (uint64_t n = t; n < budget; n += nth) {
					char buf[64]; int len = snprintf(buf, sizeof buf, "rxv-directed-%u-%llu-%llu", args.shard, (unsigned long long)args.seed, (unsigned long long)n);
					alignas(16) uint64_t st[8]; alignas(16) uint64_t cfg[16];
					mdl::hash512(st, (const uint8_t*)buf, (size_t)len);
					if (hard) { fillAes1Rx4<false>(st, RANDOMX_SCRATCHPAD_L3, spa); fillAes4Rx4<false>(st, 128, cfg); }
					else { fillAes1Rx4<true>(st, RANDOMX_SCRATCHPAD_L3, spa); fillAes4Rx4<true>(st, 128, cfg); }
					const uint64_t off = cfg[13] & 0x7FFFF;
					if (off == 0x7FFFF || off == 0) {
						std::lock_guard<std::mutex> l(dm);
						if (directed.size() < 6) directed.emplace_back((const uint8_t*)buf, (const uint8_t*)buf + len);
						R.count(off ? "directed_inputs_max_dataset_offset" : "directed_inputs_zero_dataset_offset");
					}
				}
			});
			for (auto& x : th) x.join();
			R.count("directed_candidates_screened", budget);
			// fixed directed inputs: found once by a 6-million-candidate search and committed (harness/directed_inputs.hpp), so that
			// every run - not two runs out of three - reaches both ends of the dataset-offset range (and the values next to them).
			// The configuration block depends on the input only, so the list serves every key. Each entry is re-screened with the
			// library's generators: an entry that no longer yields its recorded offset is counted as stale (never an alarm by
			// itself - the digest comparison below decides) and still hashed.
			const size_t nFixed = sizeof(kFixedDirected) / sizeof(kFixedDirected[0]);
			std::vector<uint8_t> sp(RANDOMX_SCRATCHPAD_L3 + 64);
			uint8_t* spa = (uint8_t*)(((uintptr_t)sp.data() + 63) & ~(uintptr_t)63);
			for (size_t f = 0; f < nFixed; ++f) {
				if (f % args.nshards != args.shard % args.nshards) continue;
				const char* s = kFixedDirected[f].input; const size_t len = strlen(s);
				alignas(16) uint64_t st[8]; alignas(16) uint64_t cfg[16];
				mdl::hash512(st, (const uint8_t*)s, len);
				if (hard) { fillAes1Rx4<false>(st, RANDOMX_SCRATCHPAD_L3, spa); fillAes4Rx4<false>(st, 128, cfg); }
				else { fillAes1Rx4<true>(st, RANDOMX_SCRATCHPAD_L3, spa); fillAes4Rx4<true>(st, 128, cfg); }
				const uint64_t off = cfg[13] & 0x7FFFF;
				if (off == kFixedDirected[f].offset) R.count(off >= 0x7FFFE ? "fixed_directed_inputs_high_dataset_offset" : "fixed_directed_inputs_low_dataset_offset");
				else R.count("fixed_directed_inputs_stale");
				directed.emplace_back((const uint8_t*)s, (const uint8_t*)s + len);
			}
		}

		for (int v2 = 0; v2 < 2; ++v2) {
			const randomx_flags vflag = v2 ? RANDOMX_FLAG_V2 : RANDOMX_FLAG_DEFAULT;
			randomx_vm* vm = api::createVm((randomx_flags)(RANDOMX_FLAG_DEFAULT | vflag), cache, nullptr);
			randomx_vm* vmJit = api::createVm((randomx_flags)(RANDOMX_FLAG_JIT | (hw & RANDOMX_FLAG_HARD_AES) | vflag), cache, nullptr);
			if (!vm || !vmJit) R.harnessFail("create_vm failed");
			for (uint64_t ii = 0; ii < nInputs + directed.size(); ++ii) {
				std::vector<uint8_t> input = ii < nInputs ? cases::makeInput(rng, ii + 7 * ki + (v2 ? 3 : 0)) : directed[ii - nInputs];
				if (ii >= nInputs) R.count("directed_inputs_hashed");
				std::string caseJson = "{\"key\":\"" + keyHex + "\",\"input\":\"" + hex(input.data(), input.size() > 256 ? 256 : input.size()) + "\",\"input_len\":" + std::to_string(input.size()) + ",\"v2\":" + std::to_string(v2) + "}";
				R.setCase(caseJson);
				// model
				uint8_t mh[32]; mdl::HashTrace tr;
				mdl::hash(readDs, input.data(), input.size(), v2, mh, &tr);
				// real interpreter with per-program capture through the iteration-end hook
				Capture cap;
				auto& hk = randomx_verif::hooks();
				hk.ctx = &cap;
				hk.iterEnd = [](void* ctx, const randomx_verif::IterInfo& info) {
					Capture* c = (Capture*)ctx;
					if (info.ic == RANDOMX_PROGRAM_ITERATIONS - 1) c->cur++;
				};
				uint8_t rh[32];
				// run the eight programs one by one through the public pipelined API? No: the single call; register files
				// are read by running the same hash through first/next-less internals is not possible, so the register file
				// after each program is taken from the model-independent route below (vm->run with the model's seed chain).
				api::hash(vm, input.data(), input.size(), rh);
				hk.iterEnd = nullptr; hk.ctx = nullptr;
				if (cap.cur != 8) R.violation("C02:monitor:program-count", caseJson);
				if (memcmp(rh, mh, 32)) R.violation("C02:model:digest", "{\"case\":" + caseJson + ",\"real\":\"" + hex(rh, 32) + "\",\"model\":\"" + hex(mh, 32) + "\"}");
				R.count("digests_compared_model");
				// intermediates: drive the real VM program by program (initScratchpad / run are the same virtual calls the
				// hash function makes) and compare program bytes and register file after each program
				{
					alignas(16) uint64_t tempHash[8];
					mdl::hash512(tempHash, input.data(), input.size()); // seed (Blake2b is checked separately by C11 and by the digest above)
					ip::Api s("vm-stepwise");
					vm->initScratchpad(tempHash);
					vm->resetRoundingMode();
					for (int chain = 0; chain < 8; ++chain) {
						vm->run(tempHash);
						const uint8_t* pb = (const uint8_t*)&vm->getProgram();
						size_t used = 128 + 8 * (v2 ? 384 : 256);
						if (memcmp(pb, tr.programs[chain].data(), used)) { R.violation("C02:model:program-bytes", "{\"case\":" + caseJson + ",\"program\":" + std::to_string(chain) + "}"); break; }
						R.count("programs_compared");
						if (memcmp(vm->getRegisterFile(), tr.regFiles[chain].data(), 256)) {
							R.violation("C02:model:register-file", "{\"case\":" + caseJson + ",\"program\":" + std::to_string(chain) + ",\"real\":\"" + hex(vm->getRegisterFile(), 256) + "\",\"model\":\"" + hex(tr.regFiles[chain].data(), 256) + "\"}");
							break;
						}
						R.count("regfiles_compared");
						mdl::hash512(tempHash, vm->getRegisterFile(), 256);
					}
					_mm_setcsr(0x1F80);
				}
				// the JIT light VM must give the model's digest too
				uint8_t jh[32]; api::hash(vmJit, input.data(), input.size(), jh);
				if (memcmp(jh, mh, 32)) R.violation("C02:model:digest-jit", "{\"case\":" + caseJson + ",\"real\":\"" + hex(jh, 32) + "\",\"model\":\"" + hex(mh, 32) + "\"}");
				R.count(v2 ? "v2_hashes" : "v1_hashes");
				if (tr.fpFlags & (mdl::sf::F_INVALID | mdl::sf::F_UNDERFLOW | mdl::sf::F_SUBNORMAL_IN)) R.violation("C02:model:fp-domain", caseJson);
				R.maxv("max_executed_per_iteration", tr.maxExecuted);
				R.count("taken_branches_model", tr.takenBranches);
				R.count("rounding_mode_changes_model", tr.roundingChanges);
				R.evaluation();
				R.nontrivial(fnv1a(caseJson.data(), caseJson.size()));
				R.sample("{\"case\":" + caseJson + ",\"digest\":\"" + hex(rh, 32) + "\"}");
				R.clearCase();
			}
			api::destroyVm(vm); api::destroyVm(vmJit);
		}
		api::releaseCache(cache);
	}
	return 0;
}
