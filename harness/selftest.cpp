// Model self-tests: the reference model is checked against oracles that are independent of /repo
// (hardware AES instructions, the host FPU under fesetround, FIPS-197 appendix C.1, digests that the
// Python driver recomputes with hashlib) before any verdict relies on it.
#include "rxv.hpp"
#if defined(__AES__) && defined(__SSE2__)
#include <unistd.h>
#include "model/vm.hpp"
#include <cfenv>
#include <cmath>
#include <wmmintrin.h>
#include <emmintrin.h>

using namespace rxv;

static void aes128Encrypt(const uint8_t* key, const uint8_t* in, uint8_t* out) {
	// FIPS-197 key expansion and cipher built from the model's tables and round function
	const mdl::AesTables& T = mdl::aesTables();
	uint8_t rk[11][16]; memcpy(rk[0], key, 16);
	uint8_t rcon = 1;
	for (int r = 1; r <= 10; ++r) {
		uint8_t t[4] = { T.sbox[rk[r - 1][13]], T.sbox[rk[r - 1][14]], T.sbox[rk[r - 1][15]], T.sbox[rk[r - 1][12]] };
		t[0] ^= rcon; rcon = mdl::AesTables::xtime(rcon);
		for (int i = 0; i < 4; ++i) rk[r][i] = rk[r - 1][i] ^ t[i];
		for (int i = 4; i < 16; ++i) rk[r][i] = rk[r - 1][i] ^ rk[r][i - 4];
	}
	uint8_t st[16]; for (int i = 0; i < 16; ++i) st[i] = in[i] ^ rk[0][i];
	for (int r = 1; r <= 9; ++r) mdl::aesEncRound(st, rk[r]);
	uint8_t t[16];
	for (int c = 0; c < 4; ++c) for (int r = 0; r < 4; ++r) t[r + 4 * c] = T.sbox[st[r + 4 * ((c + r) & 3)]];
	for (int i = 0; i < 16; ++i) out[i] = t[i] ^ rk[10][i];
}

static double fromBits(uint64_t b) { double d; memcpy(&d, &b, 8); return d; }
static uint64_t toBits(double d) { uint64_t b; memcpy(&b, &d, 8); return b; }

// volatile keeps the compiler from folding / moving the operations across fesetround
static uint64_t hwOp(int op, uint64_t a, uint64_t b) {
	volatile double x = fromBits(a), y = fromBits(b), z = 0;
	switch (op) { case 0: z = x + y; break; case 1: z = x - y; break; case 2: z = x * y; break; case 3: z = x / y; break; case 4: z = std::sqrt(x); break; }
	return toBits(z);
}

RXV_SUBCOMMAND(selftest) {
	Rng rng(args.seed, 0x5e1f, args.shard);
	// --- AES: FIPS-197 appendix C.1
	{
		uint8_t key[16], in[16], out[16];
		for (int i = 0; i < 16; ++i) { key[i] = (uint8_t)i; in[i] = (uint8_t)(i * 0x11); }
		aes128Encrypt(key, in, out);
		if (hex(out, 16) != "69c4e0d86a7b0430d8cdb78070b4c55a") R.violation("model:aes:fips197-c1", "{\"got\":\"" + hex(out, 16) + "\"}");
		R.evaluation();
	}
	// --- AES rounds vs hardware, slow and fast variants
	const uint64_t nAes = args.num("aes", 1000000);
	for (uint64_t i = 0; i < nAes; ++i) {
		uint8_t st[16], key[16]; rng.fill(st, 16); rng.fill(key, 16);
		__m128i s = _mm_loadu_si128((const __m128i*)st), k = _mm_loadu_si128((const __m128i*)key);
		uint8_t he[16], hd[16]; _mm_storeu_si128((__m128i*)he, _mm_aesenc_si128(s, k)); _mm_storeu_si128((__m128i*)hd, _mm_aesdec_si128(s, k));
		uint8_t a[16], b[16], c[16], d[16]; memcpy(a, st, 16); memcpy(b, st, 16); memcpy(c, st, 16); memcpy(d, st, 16);
		mdl::aesEncRound(a, key); mdl::aesDecRound(b, key); mdl::aesEncRoundFast(c, key); mdl::aesDecRoundFast(d, key);
		if (memcmp(a, he, 16) || memcmp(c, he, 16)) R.violation("model:aes:enc-vs-hw", "{\"state\":\"" + hex(st, 16) + "\",\"key\":\"" + hex(key, 16) + "\"}");
		if (memcmp(b, hd, 16) || memcmp(d, hd, 16)) R.violation("model:aes:dec-vs-hw", "{\"state\":\"" + hex(st, 16) + "\",\"key\":\"" + hex(key, 16) + "\"}");
		R.evaluation();
	}
	R.count("aes_rounds_vs_hw", nAes);
	// --- AES keys printed in specs.md 3.2-3.4
	{
		const mdl::AesKeys& K = mdl::aesKeys();
		if (hex(K.gen1[0], 16) != "53a5ac6d096671622b55b5db1749f4b4" || hex(K.gen1[3], 16) != "3581ef6a7c31bab1884c311654911649" ||
			hex(K.gen4[0], 16) != "ddaa2164db3d83d12b6d542f3fd2e599" || hex(K.gen4[7], 16) != "09d67c7ade395891fdd1060c2d76b0c0" ||
			hex(K.hashState[0], 16) != "0d2cb592de56a89f47db82ccad3a98d7" || hex(K.xkey[1], 16) != "d163b2613ce0f451c64310ee9bf918ed")
			R.violation("model:aes:keys", "{}");
		R.evaluation();
	}
	// --- soft float vs host FPU
	const uint64_t nFp = args.num("fp", 1000000);
	const int modes[4] = { FE_TONEAREST, FE_DOWNWARD, FE_UPWARD, FE_TOWARDZERO };
	uint64_t fpCompared = 0;
	auto randOperand = [&](int cls) -> uint64_t {
		switch (cls) {
		case 0: return mdl::sf::fromInt32((int32_t)rng.u32());                                              // F-group loads
		case 1: { uint64_t ex = 1023 + rng.below(32); return (ex << 52) | (rng.next() & mdl::sf::MANT); }  // A group
		case 2: { uint64_t ex = 0x300 + rng.below(256); return (ex << 52) | (rng.next() & mdl::sf::MANT); } // E group
		case 3: { uint64_t ex = 1 + rng.below(2046); return (rng.next() & mdl::sf::SIGN) | (ex << 52) | (rng.next() & mdl::sf::MANT); } // any normal
		case 4: { uint64_t ex = 1023 - 60 + rng.below(120); uint64_t m = rng.chance(1, 2) ? 0 : (rng.next() & mdl::sf::MANT & ~((1ULL << rng.below(52)) - 1)); return (rng.next() & mdl::sf::SIGN) | (ex << 52) | m; } // few mantissa bits
		default: return rng.chance(1, 2) ? 0 : mdl::sf::SIGN;                                               // zeros
		}
	};
	for (uint64_t i = 0; i < nFp; ++i) {
		int op = (int)rng.below(5), mode = (int)rng.below(4);
		uint64_t a = randOperand((int)rng.below(6)), b = randOperand((int)rng.below(6));
		if (rng.chance(1, 8)) b = a ^ (rng.chance(1, 2) ? mdl::sf::SIGN : 0) ^ (rng.chance(1, 2) ? 1 : 0); // cancellation / near-equal
		if (op == 4) a &= ~mdl::sf::SIGN;
		if (op == 3 && mdl::sf::isZero(b)) continue;
		if (mdl::sf::isSubnormal(a) || mdl::sf::isSubnormal(b)) continue; // the model applies DAZ, the host here does not
		int flags = 0; uint64_t m;
		switch (op) { case 0: m = mdl::sf::add(a, b, mode, flags); break; case 1: m = mdl::sf::sub(a, b, mode, flags); break; case 2: m = mdl::sf::mul(a, b, mode, flags); break;
			case 3: m = mdl::sf::div(a, b, mode, flags); break; default: m = mdl::sf::sqrt(a, mode, flags); break; }
		fesetround(modes[mode]);
		uint64_t h = hwOp(op, a, b);
		fesetround(FE_TONEAREST);
		if (flags & mdl::sf::F_UNDERFLOW) { R.count("fp_underflow_skipped"); continue; } // host runs without FTZ here: not comparable
		if (mdl::sf::isSubnormal(h)) { R.count("fp_subnormal_skipped"); continue; }
		++fpCompared;
		if (m != h) {
			char buf[256]; snprintf(buf, sizeof buf, "{\"op\":%d,\"mode\":%d,\"a\":\"%016llx\",\"b\":\"%016llx\",\"model\":\"%016llx\",\"host\":\"%016llx\"}", op, mode,
				(unsigned long long)a, (unsigned long long)b, (unsigned long long)m, (unsigned long long)h);
			R.violation("model:softfloat:op" + std::to_string(op), buf);
		}
		R.evaluation();
	}
	R.count("fp_ops_vs_host", fpCompared);
	// --- reciprocal: identity check on the definition
	for (int i = 0; i < 100000; ++i) {
		uint32_t d = rng.u32(); if (mdl::zeroOrPow2(d)) continue;
		uint64_t q = mdl::reciprocal(d);
		int bl = 0; for (uint32_t t = d; t; t >>= 1) ++bl;
		unsigned __int128 num = (unsigned __int128)1 << (63 + bl);
		if ((unsigned __int128)q * d > num || (unsigned __int128)(q) * d + d <= num || !(q >> 63)) R.violation("model:reciprocal", "{\"d\":" + std::to_string(d) + "}");
	}
	// --- Blake2b digests for the driver to recompute with hashlib
	const uint64_t nB = args.num("blake", 2000);
	std::string lines;
	for (uint64_t i = 0; i < nB; ++i) {
		size_t len = rng.chance(1, 4) ? rng.below(600) : (rng.chance(1, 2) ? 128 * rng.below(5) + rng.below(3) : rng.below(130));
		size_t outlen = 1 + rng.below(64), keylen = rng.chance(1, 2) ? 0 : rng.below(65);
		std::vector<uint8_t> msg(len), key(keylen); rng.fill(msg.data(), len); rng.fill(key.data(), keylen);
		// random chunking exercises the model's streaming path
		mdl::Blake2b b; b.init(outlen, key.data(), keylen);
		size_t off = 0; while (off < len) { size_t n = 1 + rng.below(200); if (n > len - off) n = len - off; b.update(msg.data() + off, n); off += n; }
		uint8_t dg[64]; b.final(dg);
		uint8_t one[64]; mdl::b2b(one, outlen, msg.data(), len, key.data(), keylen);
		if (memcmp(dg, one, outlen)) R.violation("model:blake2b:chunking", "{}");
		lines += "{\"type\":\"blake\",\"msg\":\"" + hex(msg.data(), len) + "\",\"key\":\"" + hex(key.data(), keylen) + "\",\"outlen\":" + std::to_string(outlen) + ",\"digest\":\"" + hex(dg, outlen) + "\"}\n";
		R.evaluation();
	}
	if (R.fd >= 0) { ssize_t w = write(R.fd, lines.data(), lines.size()); (void)w; }
	R.count("blake_digests", nB);
	return 0;
}
#endif
