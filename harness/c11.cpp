// C11: Blake2b and the commitment function conform to RFC 7693 (reference-model monitor; the model is pinned
// to CPython's hashlib at setup time).
#include "rxv.hpp"
#include "api.hpp"
#include "model/blake2b.hpp"
#include "blake2/blake2.h"
#include <memory>
#include <sys/mman.h>

using namespace rxv;

namespace {
struct Canaried {
	// exact-size heap block (ASan red zones flush against it) + canary check for plain builds
	std::unique_ptr<uint8_t[]> mem; size_t n; uint8_t pat;
	explicit Canaried(size_t n_, uint8_t pat_ = 0xA5) : mem(new uint8_t[n_ + 64]), n(n_), pat(pat_) { memset(mem.get(), pat, n + 64); }
	uint8_t* p() { return mem.get() + 32; }
	bool intact(size_t written) const { // bytes before, and after the first `written` bytes, still hold the pattern
		for (size_t i = 0; i < 32; ++i) if (mem[i] != pat) return false;
		for (size_t i = 32 + written; i < n + 64; ++i) if (mem[i] != pat) return false;
		return true;
	}
};
}

RXV_SUBCOMMAND(c11) {
	Rng rng(args.seed, 0xc11, args.shard);
	const bool thorough = args.thorough();
	for (const char* f : { "oneshot_digests", "streaming_digests", "keyed_digests", "invalid_calls_rejected", "commitments", "lengths_at_block_edges", "empty_updates", "multi_block_messages" }) R.floorKey(f);
	if (thorough && args.shard == 0) R.floorKey("huge_message_bytes");

	auto compareOne = [&](const std::vector<uint8_t>& msg, size_t outlen, const std::vector<uint8_t>& key, int chunkMode) {
		uint8_t want[64]; mdl::b2b(want, outlen, msg.data(), msg.size(), key.data(), key.size());
		std::unique_ptr<uint8_t[]> exact(new uint8_t[msg.size() ? msg.size() : 1]); // exact-size copy of the message
		if (!msg.empty()) memcpy(exact.get(), msg.data(), msg.size());
		std::unique_ptr<uint8_t[]> kexact(new uint8_t[key.size() ? key.size() : 1]);
		if (!key.empty()) memcpy(kexact.get(), key.data(), key.size());
		char cj[256]; snprintf(cj, sizeof cj, "{\"len\":%zu,\"outlen\":%zu,\"keylen\":%zu,\"chunk_mode\":%d,\"msg_head\":\"%s\"}", msg.size(), outlen, key.size(), chunkMode, hex(msg.data(), msg.size() > 24 ? 24 : msg.size()).c_str());
		R.setCase(cj);
		{   // one-shot
			Canaried out(outlen);
			int rc;
			{ ip::Api s("blake2b"); rc = blake2b(out.p(), outlen, msg.empty() ? nullptr : exact.get(), msg.size(), key.empty() ? nullptr : kexact.get(), key.size()); }
			if (rc != 0 || memcmp(out.p(), want, outlen)) R.violation("C11:model:oneshot-digest", cj);
			if (!out.intact(outlen)) R.violation("C11:canary:oneshot-wrote-outside-output", cj);
			R.count("oneshot_digests");
		}
		{   // streaming with a chunking chosen by chunkMode
			blake2b_state S; int rc;
			Canaried out(outlen);
			ip::Api s("blake2b-stream");
			rc = key.empty() ? blake2b_init(&S, outlen) : blake2b_init_key(&S, outlen, kexact.get(), key.size());
			size_t off = 0; const size_t len = msg.size();
			while (rc == 0 && off < len) {
				size_t n;
				switch (chunkMode) {
				case 0: n = 1; break;
				case 1: n = 128; break;
				case 2: n = 127 + rng.below(3); break;
				case 3: n = rng.chance(1, 5) ? 0 : 1 + rng.below(300); break;
				case 4: n = 64; break;
				default: n = 1 + rng.below(len); break;
				}
				if (n > len - off) n = len - off;
				if (n == 0) { R.count("empty_updates"); rc = blake2b_update(&S, exact.get() + off, 0); continue; }
				rc = blake2b_update(&S, exact.get() + off, n);
				off += n;
			}
			if (rc == 0) rc = blake2b_final(&S, out.p(), outlen);
			if (rc != 0 || memcmp(out.p(), want, outlen)) R.violation("C11:model:streaming-digest", cj);
			if (!out.intact(outlen)) R.violation("C11:canary:streaming-wrote-outside-output", cj);
			// state must refuse further use
			if (blake2b_update(&S, want, 1) == 0) R.violation("C11:contract:update-after-final-accepted", cj);
			R.count("streaming_digests");
		}
		if (!key.empty()) R.count("keyed_digests");
		if (msg.size() > 128) R.count("multi_block_messages");
		if (msg.size() % 128 <= 1 || msg.size() % 128 == 127) R.count("lengths_at_block_edges");
		R.evaluation();
		R.nontrivial(fnv1a(cj, strlen(cj)));
		if (rng.chance(1, 4000)) R.sample(cj);
		R.clearCase();
	};

	// ---- lengths: 0..1100 exhaustively (sharded), and around every multiple of 128 up to 64 KiB
	std::vector<size_t> lengths;
	for (size_t l = 0; l <= 1100; ++l) lengths.push_back(l);
	for (size_t m = 1152; m <= 65536; m += 128) for (int d = -1; d <= 1; ++d) lengths.push_back(m + d);
	size_t idx = 0;
	for (size_t len : lengths) {
		if (idx++ % args.nshards != args.shard) continue;
		if (!thorough && len > 1100 && (len / 128) % 8 != 0) continue;
		std::vector<uint8_t> msg(len); rng.fill(msg.data(), len);
		const int reps = thorough ? 300 : 12;
		for (int r = 0; r < reps; ++r) {
			size_t outlen = r == 0 ? 64 : (r == 1 ? 32 : 1 + rng.below(64));
			std::vector<uint8_t> key(rng.chance(1, 2) ? 0 : 1 + rng.below(64)); rng.fill(key.data(), key.size());
			compareOne(msg, outlen, key, (int)rng.below(6));
		}
	}
	// ---- all (outlen, keylen) pairs on short messages
	{
		size_t k = 0;
		for (size_t outlen = 1; outlen <= 64; ++outlen) for (size_t keylen = 0; keylen <= 64; ++keylen) {
			if (k++ % args.nshards != args.shard) continue;
			for (int r = 0; r < (thorough ? 200 : 4); ++r) {
				std::vector<uint8_t> msg(rng.below(300)), key(keylen); rng.fill(msg.data(), msg.size()); rng.fill(key.data(), keylen);
				compareOne(msg, outlen, key, (int)rng.below(6));
			}
		}
	}
	// ---- invalid parameters: rejected, nothing written
	if (args.shard == 0) {
		uint8_t msg[64] = { 1, 2, 3 }, key[80] = { 9 };
		struct Bad { size_t outlen; const void* key; size_t keylen; bool nullOut; const char* what; } bads[] = {
			{ 0, nullptr, 0, false, "outlen0" }, { 65, nullptr, 0, false, "outlen65" }, { 32, key, 65, false, "keylen65" },
			{ 32, nullptr, 5, false, "nullkey" }, { 32, nullptr, 0, true, "nullout" }, { 1000, nullptr, 0, false, "outlen1000" } };
		for (auto& b : bads) {
			Canaried out(128);
			int rc; { ip::Api s("blake2b-invalid"); rc = blake2b(b.nullOut ? nullptr : out.p(), b.outlen, msg, sizeof msg, b.key, b.keylen); }
			if (rc == 0) R.violation(std::string("C11:contract:invalid-call-accepted:") + b.what, "{}");
			if (!out.intact(0)) R.violation(std::string("C11:contract:invalid-call-wrote-output:") + b.what, "{}");
			R.count("invalid_calls_rejected"); R.evaluation();
		}
		{   // NULL input with non-zero length
			Canaried out(64);
			int rc; { ip::Api s("blake2b-invalid"); rc = blake2b(out.p(), 32, nullptr, 10, nullptr, 0); }
			if (rc == 0 || !out.intact(0)) R.violation("C11:contract:invalid-call-accepted:nullin", "{}");
			R.count("invalid_calls_rejected");
		}
		{   // streaming: bad init parameters, final into a too small buffer
			blake2b_state S; ip::Api s("blake2b-invalid");
			if (blake2b_init(&S, 0) == 0 || blake2b_init(&S, 65) == 0) R.violation("C11:contract:invalid-call-accepted:init-outlen", "{}");
			if (blake2b_init_key(&S, 32, key, 65) == 0 || blake2b_init_key(&S, 32, nullptr, 4) == 0 || blake2b_init_key(&S, 32, key, 0) == 0 || blake2b_init_key(&S, 0, key, 4) == 0)
				R.violation("C11:contract:invalid-call-accepted:init_key", "{}");
			Canaried out(64);
			if (blake2b_init(&S, 64) != 0) R.harnessFail("init");
			blake2b_update(&S, msg, 3);
			if (blake2b_final(&S, out.p(), 32) == 0 || !out.intact(0)) R.violation("C11:contract:final-into-short-buffer", "{}");
			if (blake2b_final(&S, nullptr, 64) == 0) R.violation("C11:contract:final-null-out", "{}");
			// a final() with a larger buffer writes exactly the digest length
			if (blake2b_init(&S, 20) != 0) R.harnessFail("init");
			blake2b_update(&S, msg, 3);
			Canaried big(64);
			if (blake2b_final(&S, big.p(), 64) != 0 || !big.intact(20)) R.violation("C11:contract:final-wrote-more-than-digest", "{}");
			uint8_t want[20]; mdl::b2b(want, 20, msg, 3);
			if (memcmp(want, big.p(), 20)) R.violation("C11:model:streaming-digest", "{\"what\":\"final into larger buffer\"}");
			R.count("invalid_calls_rejected", 8);
		}
		{   // sweeps of invalid lengths (a length check done after narrowing to 8 or 32 bits would let some through):
			// outlen 65..4096 and values with high bits set, through the one-shot wrapper, init and init_key (+ update + final);
			// keylen 65..4096 and high-bit values
			std::vector<size_t> lens; for (size_t v = 65; v <= 4096; ++v) lens.push_back(v);
			for (size_t v : { (size_t)1 << 8, ((size_t)1 << 8) | 32, ((size_t)1 << 16) | 64, ((size_t)1 << 32) | 32, ((size_t)1 << 32), (size_t)-1, (size_t)-64 + 0, ~(size_t)0 - 191 /* ...FF40 */ }) lens.push_back(v);
			for (size_t outlen : lens) {
				Canaried out(128);
				int rc; { ip::Api s("blake2b-invalid"); rc = blake2b(out.p(), outlen, msg, 3, nullptr, 0); }
				if (rc == 0 || !out.intact(0)) { R.violation("C11:contract:invalid-call-accepted:oneshot-outlen", "{\"outlen\":" + std::to_string(outlen) + "}"); break; }
				blake2b_state S; int a, b = -1, c = -1;
				{ ip::Api s("blake2b-invalid"); a = blake2b_init(&S, outlen); if (a == 0) { b = blake2b_update(&S, msg, 3); c = blake2b_final(&S, out.p(), 128); } }
				if (a == 0 || !out.intact(0)) { R.violation("C11:contract:invalid-call-accepted:init-outlen", "{\"outlen\":" + std::to_string(outlen) + ",\"init\":" + std::to_string(a) + ",\"update\":" + std::to_string(b) + ",\"final\":" + std::to_string(c) + "}"); break; }
				{ ip::Api s("blake2b-invalid"); a = blake2b_init_key(&S, outlen, key, 16); if (a == 0) { blake2b_update(&S, msg, 3); blake2b_final(&S, out.p(), 128); } }
				if (a == 0 || !out.intact(0)) { R.violation("C11:contract:invalid-call-accepted:init_key-outlen", "{\"outlen\":" + std::to_string(outlen) + "}"); break; }
				R.count("invalid_calls_rejected", 3);
			}
			std::vector<uint8_t> bigKey(4200, 7);
			for (size_t keylen : lens) {
				Canaried out(128);
				const void* kp = keylen <= bigKey.size() ? bigKey.data() : key; // huge lengths: never dereferenced by a correct implementation
				int rc; { ip::Api s("blake2b-invalid"); rc = blake2b(out.p(), 32, msg, 3, kp, keylen); }
				if (rc == 0 || !out.intact(0)) { R.violation("C11:contract:invalid-call-accepted:oneshot-keylen", "{\"keylen\":" + std::to_string(keylen) + "}"); break; }
				blake2b_state S; int a; { ip::Api s("blake2b-invalid"); a = blake2b_init_key(&S, 32, kp, keylen); }
				if (a == 0) { R.violation("C11:contract:invalid-call-accepted:init_key-keylen", "{\"keylen\":" + std::to_string(keylen) + "}"); break; }
				R.count("invalid_calls_rejected", 2);
			}
			R.evaluation(2 * lens.size());
		}
	}
	// ---- commitment
	{
		const uint64_t n = args.num("commitments", thorough ? 1000000 : 100000) / args.nshards + 1;
		for (uint64_t i = 0; i < n; ++i) {
			size_t len = i < 301 ? i : rng.below(301);
			std::unique_ptr<uint8_t[]> in(new uint8_t[len ? len : 1]); rng.fill(in.get(), len);
			std::unique_ptr<uint8_t[]> h(new uint8_t[32]); rng.fill(h.get(), 32);
			Canaried out(32);
			api::commitment(len ? in.get() : nullptr, len, h.get(), out.p());
			std::vector<uint8_t> cat(in.get(), in.get() + len); cat.insert(cat.end(), h.get(), h.get() + 32);
			uint8_t want[32]; mdl::hash256(want, cat.data(), cat.size());
			if (memcmp(want, out.p(), 32) || !out.intact(32)) R.violation("C11:model:commitment", "{\"input\":\"" + hex(in.get(), len) + "\",\"hash\":\"" + hex(h.get(), 32) + "\"}");
			R.count("commitments"); R.evaluation();
			if (i < 3) R.nontrivial(fnv1a(cat.data(), cat.size()));
		}
	}
	// ---- > 4 GiB message (thorough, shard 0, opt build only): single update and chunked
	if (thorough && args.shard == 0 && args.num("huge", 1)) {
		const size_t len = (4ULL << 30) + 257;
		uint8_t* big = (uint8_t*)mmap(nullptr, len, PROT_READ | PROT_WRITE, MAP_PRIVATE | MAP_ANONYMOUS | MAP_NORESERVE, -1, 0);
		if (big == MAP_FAILED) R.harnessFail("mmap 4GiB");
		// sparse content: mostly zero pages (shared zero page keeps RSS small) with PRNG bytes every 1 MiB and at the end
		for (size_t off = 0; off < len; off += 1u << 20) rng.fill(big + off, 64);
		rng.fill(big + len - 300, 300);
		uint8_t want[64]; mdl::b2b(want, 64, big, len);
		uint8_t a[64], b[64];
		{ ip::Api s("blake2b-huge"); if (blake2b(a, 64, big, len, nullptr, 0) != 0) R.violation("C11:model:huge-oneshot-rejected", "{}"); }
		{
			ip::Api s("blake2b-huge"); blake2b_state S; blake2b_init(&S, 64);
			size_t off = 0; while (off < len) { size_t n = (1u << 30) + 12345; if (n > len - off) n = len - off; blake2b_update(&S, big + off, n); off += n; }
			blake2b_final(&S, b, 64);
		}
		if (memcmp(a, want, 64)) R.violation("C11:model:huge-oneshot-digest", "{\"len\":" + std::to_string(len) + "}");
		if (memcmp(b, want, 64)) R.violation("C11:model:huge-streaming-digest", "{\"len\":" + std::to_string(len) + "}");
		R.count("huge_message_bytes", len); R.evaluation(2);
		munmap(big, len);
	}
	return 0;
}
