// C02, determinism clause: "a fixed pure function of (key, input, version) that never varies between runs, processes
// or builds". The same seed-derived triples are hashed in separate processes: the opt build under two MALLOC_PERTURB_
// values, the asan build and the portable build; the driver joins the digests by id (all must be equal); the first
// opt process additionally compares each digest with the reference model.
#include "rxv.hpp"
#include "api.hpp"
#include "vmutil.hpp"
#include "cases.hpp"
#include "model/vm.hpp"
#include <unistd.h>

using namespace rxv;

RXV_SUBCOMMAND(c02d) {
	Rng rng(args.seed, 0xc02d, 0); // NOT shard dependent: every process must see the same triples
	const uint64_t nKeys = args.num("keys", 2), nInputs = args.num("inputs", 3);
	const bool withModel = args.num("model", 0) != 0;
	ip::setGarbageSeed(args.seed + getpid()); ip::enableGuards(args.num("guards", 0) != 0);
	std::string lines;
	for (uint64_t k = 0; k < nKeys; ++k) {
		std::vector<uint8_t> key = cases::makeKey(rng, 3 + k * 5);
		randomx_cache* c = api::allocCache(RANDOMX_FLAG_DEFAULT); if (!c) R.harnessFail("cache");
		api::initCache(c, cases::nn(key), key.size());
		mdl::Cache mc; if (withModel) mc.init(cases::nn(key), key.size());
		auto rd = [&](uint64_t addr, uint8_t* out) { mc.item(addr / 64, out); };
		for (int v2 = 0; v2 < 2; ++v2) {
			randomx_vm* vm = api::createVm(v2 ? RANDOMX_FLAG_V2 : RANDOMX_FLAG_DEFAULT, c, nullptr); if (!vm) R.harnessFail("vm");
			for (uint64_t i = 0; i < nInputs; ++i) {
				Rng ir(args.seed, 0x1a9 + k * 100 + i, v2); std::vector<uint8_t> in = cases::makeInput(ir, 2 + i * 4 + k);
				uint8_t d[32]; api::hash(vm, in.data(), in.size(), d);
				const std::string id = "k" + std::to_string(k) + ":i" + std::to_string(i) + ":v" + std::to_string(v2);
				lines += "{\"type\":\"c02d\",\"id\":\"" + id + "\",\"key\":\"" + hex(key.data(), key.size()) + "\",\"input_len\":" + std::to_string(in.size()) + ",\"value\":\"" + hex(d, 32) + "\"}\n";
				if (withModel) { uint8_t m[32]; mdl::hash(rd, in.data(), in.size(), v2, m); if (memcmp(m, d, 32)) R.violation("C02:model:digest", "{\"id\":\"" + id + "\"}"); R.count("digests_compared_model"); }
				R.count("determinism_digests"); R.evaluation();
				if (i == 0 && v2 == 0) R.sample("{\"determinism_case\":\"" + id + "\",\"key\":\"" + hex(key.data(), key.size()) + "\",\"input_len\":" + std::to_string(in.size()) + ",\"digest\":\"" + hex(d, 32) + "\"}");
			}
			api::destroyVm(vm);
		}
		api::releaseCache(c);
	}
	ssize_t w = write(R.fd, lines.data(), lines.size()); (void)w;
	return 0;
}
