// Common declarations of the verification harness (rxv).
#pragma once
#include <cstdint>
#include <cstddef>
#include <cstring>
#include <string>
#include <vector>
#include <map>
#include <set>
#include <functional>

namespace rxv {

// ---------------------------------------------------------------- PRNG
struct Rng {
	uint64_t s[4];
	static uint64_t splitmix(uint64_t& x) {
		uint64_t z = (x += 0x9e3779b97f4a7c15ULL);
		z = (z ^ (z >> 30)) * 0xbf58476d1ce4e5b9ULL;
		z = (z ^ (z >> 27)) * 0x94d049bb133111ebULL;
		return z ^ (z >> 31);
	}
	Rng() { seed(1, 0, 0); }
	Rng(uint64_t a, uint64_t b, uint64_t c) { seed(a, b, c); }
	void seed(uint64_t a, uint64_t b, uint64_t c) {
		uint64_t x = a * 0x9e3779b97f4a7c15ULL ^ (b + 0x1234567) * 0xc2b2ae3d27d4eb4fULL ^ (c + 0x89abcdef) * 0x165667b19e3779f9ULL;
		for (auto& v : s) v = splitmix(x);
	}
	static uint64_t rotl(uint64_t x, int k) { return (x << k) | (x >> (64 - k)); }
	uint64_t next() {
		const uint64_t result = rotl(s[1] * 5, 7) * 9;
		const uint64_t t = s[1] << 17;
		s[2] ^= s[0]; s[3] ^= s[1]; s[1] ^= s[2]; s[0] ^= s[3];
		s[2] ^= t; s[3] = rotl(s[3], 45);
		return result;
	}
	uint32_t u32() { return (uint32_t)(next() >> 32); }
	// uniform in [0, n)
	uint64_t below(uint64_t n) { return n ? next() % n : 0; }
	bool chance(unsigned num, unsigned den) { return below(den) < num; }
	void fill(void* p, size_t n) {
		uint8_t* b = (uint8_t*)p;
		while (n >= 8) { uint64_t v = next(); memcpy(b, &v, 8); b += 8; n -= 8; }
		if (n) { uint64_t v = next(); memcpy(b, &v, n); }
	}
	template<class T> const T& pick(const std::vector<T>& v) { return v[below(v.size())]; }
};

// ---------------------------------------------------------------- utilities
std::string hex(const void* p, size_t n);
std::vector<uint8_t> unhex(const std::string& s);
uint64_t fnv1a(const void* p, size_t n, uint64_t h = 0xcbf29ce484222325ULL);
std::string jsonStr(const std::string& s);   // quoted + escaped
double nowSeconds();

// ---------------------------------------------------------------- command line
struct Args {
	std::string sub;
	uint64_t seed = 1;
	unsigned shard = 0, nshards = 1;
	uint64_t cases = 0;
	std::string tier = "quick";
	std::string out;       // JSONL result file
	std::string hashes;    // binary file of 64-bit non-trivial case hashes
	std::string replay;    // replay file (JSON) or empty
	std::map<std::string, std::string> opt; // any other --key value
	bool thorough() const { return tier == "thorough"; }
	uint64_t num(const std::string& k, uint64_t dflt) const;
	std::string str(const std::string& k, const std::string& dflt) const;
};

// ---------------------------------------------------------------- reporting
// All output goes to a JSON-lines file that is flushed record by record, so that a crash
// leaves a usable file; the fatal-signal handler appends one more record (async-signal-safe).
class Report {
public:
	void open(const Args& a);
	// declare the case that is about to run (compact JSON object); kept for crash attribution
	void setCase(const std::string& caseJson);
	void clearCase();
	void count(const std::string& key, uint64_t n = 1) { counters[key] += n; }
	void maxv(const std::string& key, uint64_t v) { auto& m = maxima[key]; if (v > m) m = v; }
	void minv(const std::string& key, uint64_t v) { auto it = minima.find(key); if (it == minima.end() || v < it->second) minima[key] = v; }
	void sample(const std::string& json, size_t cap = 6) { if (samples.size() < cap) samples.push_back(json); }
	void nontrivial(uint64_t caseHash) { ntHashes.push_back(caseHash); }
	void floorKey(const std::string& key) { floors.insert(key); }
	void note(const std::string& key, const std::string& json) { notes[key] = json; }
	// a violation: key is the stable identification, replayJson a JSON object describing the case
	void violation(const std::string& key, const std::string& replayJson);
	// harness failure (exit 2)
	[[noreturn]] void harnessFail(const std::string& why);
	void evaluation(uint64_t n = 1) { evals += n; }
	int finish(); // writes summary; returns process exit code (0 ok, 1 violations)
	uint64_t violations() const { return nviol; }
	int fd = -1;
private:
	std::map<std::string, uint64_t> counters, maxima, minima;
	std::map<std::string, std::string> notes;
	std::set<std::string> floors;
	std::vector<std::string> samples;
	std::vector<uint64_t> ntHashes;
	uint64_t evals = 0, nviol = 0;
	std::string hashesPath;
	double t0 = 0;
};
extern Report R;

// ---------------------------------------------------------------- interposition (interpose.cpp)
namespace ip {
	enum Kind : uint8_t { K_MEMALIGN = 1, K_FREE, K_MMAP, K_MUNMAP, K_MPROTECT, K_NEW, K_DELETE };
	struct Event {
		uint64_t seq;
		uint32_t tid;
		uint32_t api;      // id of the API call in progress
		uint8_t kind;
		uint8_t injected;  // 1 if this request was made to fail by the harness
		uint8_t hugeReq;   // mmap asked for MAP_HUGETLB
		int prot, flags;
		uintptr_t addr;
		size_t len;
		int result;        // 0 ok, else errno / -1
	};
	// scope marker: interposition is active on the calling thread only inside an Api scope
	struct Api {
		explicit Api(const char* name);
		~Api();
		uint32_t id;
	};
	uint32_t currentApi();
	// configuration (process-wide, set before threads start)
	void enableGuards(bool on);          // guard-page placement for scratchpad/cache/dataset/code
	void setGarbageSeed(uint64_t seed);  // fresh guarded blocks are pre-filled with PRNG bytes (0 = leave zero)
	void setHugePages(int mode);         // 0 = pass through (fails here), 1 = strip MAP_HUGETLB (succeeds), 2 = force fail
	// fault injection for the current thread: the k-th (1-based) allocation request inside API
	// calls fails; 0 disables. Returns how many requests were seen since the last arm().
	void armFault(unsigned k);
	void armFault2(unsigned k1, unsigned k2); // two faults in one call (0 = none)
	unsigned faultsFired();
	unsigned requestsSeen();
	bool faultFired();
	// event log
	size_t eventCount();
	Event eventAt(size_t i);
	void clearEvents();
	// classification of an address against the guard map (for the signal handler and checks)
	const char* classify(uintptr_t addr, char* buf, size_t buflen);
	// live allocation accounting by address (library requests only)
	size_t liveHeapBlocks();
	size_t liveMappedBytes();
	std::string liveSummary();
	// W^X monitor over library-owned mappings: returns number of events with W and X together
	// for mappings tagged "must be W^X" (see tagging below)
	void tagNextMappings(int tag);  // tag for mappings created by the current thread from now on (0 = none)
	enum { TAG_NONE = 0, TAG_SECURE_VM = 1, TAG_CACHE = 2, TAG_PLAIN_VM = 3 };
	struct WxStat { uint64_t protEvents, rwToRx, rxToRw, wxViolations; };
	WxStat wxStats(int tag);
	std::string firstWxViolation();
	bool insideApi();
}

#define RXV_API(expr) ([&]() { rxv::ip::Api rxv_api_scope(#expr); return (expr); }())
#define RXV_APIV(expr) do { rxv::ip::Api rxv_api_scope(#expr); (expr); } while (0)

void installSignalHandlers();
void signalSafeViolation(const char* key);
void armRunWatchdog(const char* key, unsigned seconds); // SIGALRM -> violation `key` for the case in progress, exit
void disarmRunWatchdog(); // async-signal-safe violation record for the case in progress

// ---------------------------------------------------------------- subcommands
typedef int (*SubFn)(const Args&);
struct SubReg { SubReg(const char* name, SubFn fn); };
#define RXV_SUBCOMMAND(name) \
	static int sub_##name(const rxv::Args&); \
	static rxv::SubReg reg_##name(#name, sub_##name); \
	static int sub_##name(const rxv::Args& args)

} // namespace rxv
