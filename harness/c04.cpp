// C04: x86-64 JIT-compiled programs behave exactly like interpreted programs (differential monitor).
#include "progs.hpp"

using namespace rxv;
using randomx_verif::Access;

namespace { struct BranchCtx { uint64_t taken, cfround, executed; }; }

RXV_SUBCOMMAND(c04) {
	runWatchdogKey() = "C04:watchdog:program-execution-did-not-return";
	Rng rng(args.seed, 0xc04, args.shard);
	const uint64_t nCases = args.cases ? args.cases : 250;
	const bool useAsanSubset = args.num("directed_only", 0) != 0;
	ip::enableGuards(true);
	ProgFixture fx(args.seed * 31 + args.shard);
	for (const char* f : { "programs_compared", "programs_full_length", "programs_with_taken_branch", "programs_exit_fprc_differs_from_entry", "gen_random", "gen_one-type", "gen_directed", "gen_maxlen", "gen_real-mutated", "gen_branch-dense",
		"mode_light", "mode_full", "v1", "v2", "aes_soft", "aes_hard", "jit_secure", "jit_plain", "entry_fprc_0", "entry_fprc_1", "entry_fprc_2", "entry_fprc_3" }) R.floorKey(f);
	if (!useAsanSubset) for (auto& k : pg::coverageFloor()) R.floorKey(k);
	std::map<std::string, uint64_t> cov;
	alignas(64) uint8_t prog[pg::PROG_BYTES];
	int maxCodePos = 0;

	for (uint64_t ci = 0; ci < nCases; ++ci) {
		const int gen = useAsanSubset ? (rng.chance(1, 2) ? pg::G_DIRECTED : pg::G_MAXLEN) : 1 + (int)(ci % 6);
		pg::Meta meta; pg::genProgram(rng, gen, prog, &meta);
		const bool v2 = rng.chance(1, 2), hard = (fx.hw & RANDOMX_FLAG_HARD_AES) && rng.chance(1, 2), full = rng.chance(1, 2), secure = rng.chance(1, 3);
		const int spKind = (int)(rng.chance(1, 2) ? pg::SP_RANDOM : rng.below(pg::SP_COUNT));
		const uint32_t fprc = (uint32_t)rng.below(4);
		const unsigned iters = pickIterations(rng, true);
		pg::genScratchpad(rng, spKind, fx.sp0.data());
		const int base = (v2 ? RANDOMX_FLAG_V2 : 0) | (hard ? RANDOMX_FLAG_HARD_AES : 0) | (full ? RANDOMX_FLAG_FULL_MEM : 0);
		char head[320]; snprintf(head, sizeof head, "{\"generator\":\"%s\",\"what\":\"%s\",\"v2\":%d,\"hard_aes\":%d,\"full_mem\":%d,\"secure\":%d,\"scratchpad\":\"%s\",\"entry_fprc\":%u,\"iterations\":%u,\"shard\":%u,\"case\":%llu",
			pg::genNames[gen], meta.what.c_str(), v2, hard, full, secure, pg::spNames[spKind], fprc, iters ? iters : 2048, args.shard, (unsigned long long)ci);
		std::string cj = std::string(head) + ",\"program\":\"" + hex(prog, pg::PROG_BYTES) + "\"}";
		R.setCase(cj);
		randomx_vm* vi = fx.vm(base);
		randomx_vm* vj = fx.vm(base | RANDOMX_FLAG_JIT | (secure ? RANDOMX_FLAG_SECURE : 0));
		BranchCtx bc = { 0, 0, 0 };
		auto& hk = randomx_verif::hooks();
		hk.ctx = &bc;
		hk.afterInstr = [](void* c, const void* ibc, int pc0, int pc1) {
			BranchCtx* b = (BranchCtx*)c; b->executed++;
			auto t = ((const randomx::InstructionByteCode*)ibc)->type;
			if (t == randomx::InstructionType::CBRANCH && pc1 != pc0) b->taken++;
			else if (t == randomx::InstructionType::CFROUND) b->cfround++;
		};
		ProgResult ri = runProgram(vi, prog, fx.sp0.data(), fprc, iters, fx.spA.data());
		hk.afterInstr = nullptr; hk.ctx = nullptr;
		ProgResult rj = runProgram(vj, prog, fx.sp0.data(), fprc, iters, fx.spB.data());
		std::string diff;
		if (memcmp(ri.reg, rj.reg, 256)) { int off = 0; while (ri.reg[off] == rj.reg[off]) ++off; static const char* grp[] = { "r", "f", "e", "a" }; diff = std::string("register-file:") + grp[off / 64]; }
		else if (memcmp(fx.spA.data(), fx.spB.data(), kScratchpadBytes)) diff = "scratchpad";
		else if (ri.fprc != rj.fprc) diff = "rounding-mode-on-exit";
		if (!diff.empty()) {
			size_t spOff = 0; if (diff == "scratchpad") while (fx.spA[spOff] == fx.spB[spOff]) ++spOff;
			R.violation("C04:differential:jit-vs-interpreter:" + diff, "{\"case\":" + cj + ",\"interpreter_reg\":\"" + hex(ri.reg, 256) + "\",\"jit_reg\":\"" + hex(rj.reg, 256) + "\",\"first_scratchpad_diff\":" + std::to_string(spOff) +
				",\"fprc_interpreter\":" + std::to_string(ri.fprc) + ",\"fprc_jit\":" + std::to_string(rj.fprc) + "}");
		}
		// code size budget of the program area (also judged by C06)
		{ randomx::JitCompiler* jc = Access::compiler(vj); int cp = Access::instructionOffsets(*jc).empty() ? 0 : Access::instructionOffsets(*jc).back(); if (cp > maxCodePos) maxCodePos = cp; }
		pg::countCoverage(prog, v2, cov);
		R.count("programs_compared"); R.evaluation();
		if (!iters) R.count("programs_full_length");
		R.count(std::string("gen_") + pg::genNames[gen]);
		R.count(full ? "mode_full" : "mode_light"); R.count(v2 ? "v2" : "v1"); R.count(hard ? "aes_hard" : "aes_soft"); R.count(secure ? "jit_secure" : "jit_plain");
		R.count("entry_fprc_" + std::to_string(fprc));
		R.count("instructions_executed_interpreter", bc.executed);
		if (bc.taken) { R.count("programs_with_taken_branch"); R.nontrivial(fnv1a(prog, pg::PROG_BYTES)); }
		if (ri.fprc != fprc) R.count("programs_exit_fprc_differs_from_entry");
		if (ci < 2) R.sample(std::string(head) + ",\"program_head\":\"" + hex(prog, 160) + "\",\"taken_branches\":" + std::to_string(bc.taken) + "}");
		R.clearCase();
	}
	for (auto& kv : cov) R.count(kv.first, kv.second);
	R.maxv("max_last_instruction_offset", (uint64_t)maxCodePos);
	return 0;
}
