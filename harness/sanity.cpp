// Hook-neutrality check run before every check: with all hooks idle the instrumented build must
// reproduce the repository's published test vectors; otherwise the run is void (exit 2), not a verdict.
#include "rxv.hpp"
#include "api.hpp"

using namespace rxv;

RXV_SUBCOMMAND(sanity) {
	const char key[] = "test key 000", input[] = "This is a test";
	randomx_cache* c = api::allocCache(RANDOMX_FLAG_DEFAULT);
	if (!c) R.harnessFail("alloc_cache");
	api::initCache(c, key, sizeof key - 1);
	const char* expect[2] = { "639183aae1bf4c9a35884cb46b09cad9175f04efd7684e7262a0ac1c2f0b4e3f", "22ec6b861b3eb23686b2efbad69513c967ecfce80983df66c9c5b4fbfb4cdb6f" };
	for (int v2 = 0; v2 < 2; ++v2) {
		randomx_vm* vm = api::createVm(v2 ? RANDOMX_FLAG_V2 : RANDOMX_FLAG_DEFAULT, c, nullptr);
		if (!vm) R.harnessFail("create_vm");
		uint8_t h[32]; api::hash(vm, input, sizeof input - 1, h);
		if (hex(h, 32) != expect[v2]) R.harnessFail(std::string("instrumented build does not reproduce the published ") + (v2 ? "v2" : "v1") + " test vector: got " + hex(h, 32));
		api::destroyVm(vm);
		R.evaluation();
	}
	api::releaseCache(c);
	return 0;
}
