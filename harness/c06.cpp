// C06: execution and code generation stay inside their buffers for every program; the hashing API reads exactly the
// input bytes and writes exactly 32 output bytes. Oracles: guard pages around scratchpad / dataset / cache / code
// buffer (any fault inside a library call is classified and reported), ASan+UBSan in the asan variant, code-area
// integrity (SuperscalarHash area + epilogue unchanged by program compilation), code size budget, PROT_NONE pages
// directly after the input and output buffers and canary bytes before them.
#include "progs.hpp"
#include "cases.hpp"
#include <sys/mman.h>

using namespace rxv;
using randomx_verif::Access;

namespace {
struct Edge {
	uint64_t spFirst = 0, spLast = 0, dsFirst = 0, dsLast = 0, l1Last = 0, l2Last = 0, l3Last = 0, memFirst = 0, storeLast = 0, memOps = 0;
	randomx::MemoryRegisters* mem = nullptr; uint64_t dsOff = 0;
};
void edgeIterBegin(void* c, const randomx_verif::IterInfo& info) {
	Edge* e = (Edge*)c; e->mem = (randomx::MemoryRegisters*)info.mem; e->dsOff = info.datasetOffset;
	if (info.spAddr0 == 0 || info.spAddr1 == 0) e->spFirst++;
	if (info.spAddr0 == 2097152 - 64 || info.spAddr1 == 2097152 - 64) e->spLast++;
	// the dataset address read at the end of this iteration (ma is not touched by the program body)
	const uint64_t rd = info.datasetOffset + (e->mem->ma & randomx::CacheLineAlignMask);
	if (rd == 0) e->dsFirst++;
	if (rd == kDatasetBytes - 64) e->dsLast++;
}
void edgeAfter(void* c, const void* ibcv, int, int) {
	Edge* e = (Edge*)c; const auto* ibc = (const randomx::InstructionByteCode*)ibcv;
	using T = randomx::InstructionType;
	uint32_t addr;
	switch (ibc->type) {
	case T::IADD_M: case T::ISUB_M: case T::IMUL_M: case T::IMULH_M: case T::ISMULH_M: case T::IXOR_M: case T::FADD_M: case T::FSUB_M: case T::FDIV_M:
		addr = (uint32_t)(*ibc->isrc + ibc->imm) & ibc->memMask; break;
	case T::ISTORE: addr = (uint32_t)(*ibc->idst + ibc->imm) & ibc->memMask; if (addr == ibc->memMask) e->storeLast++; break;
	default: return;
	}
	e->memOps++;
	if (addr == 0) e->memFirst++;
	if (addr == ibc->memMask) { if (ibc->memMask == (uint32_t)randomx::ScratchpadL1Mask) e->l1Last++; else if (ibc->memMask == (uint32_t)randomx::ScratchpadL2Mask) e->l2Last++; else e->l3Last++; }
}
uint64_t hashRange(const uint8_t* p, size_t a, size_t b) { return fnv1a(p + a, b - a); }

// buffer of n bytes whose last byte is the last byte before a PROT_NONE page; one canary page before it
struct EdgeBuf {
	uint8_t* map = nullptr; size_t total = 0; uint8_t* p = nullptr; size_t n = 0;
	EdgeBuf(size_t n_, size_t align = 1) : n(n_) {
		const size_t page = 4096; size_t body = ((n + page - 1) / page + 1) * page;
		total = body + page;
		map = (uint8_t*)mmap(nullptr, total, PROT_READ | PROT_WRITE, MAP_PRIVATE | MAP_ANONYMOUS, -1, 0);
		if (map == MAP_FAILED) { map = nullptr; return; }
		memset(map, 0xC7, body);
		mprotect(map + body, page, PROT_NONE);
		p = map + body - n; (void)align;
	}
	~EdgeBuf() { if (map) munmap(map, total); }
	bool canaryIntact() const { for (const uint8_t* q = map; q < p; ++q) if (*q != 0xC7) return false; return true; }
};
}

RXV_SUBCOMMAND(c06) {
	runWatchdogKey() = "C06:watchdog:program-execution-did-not-return";
	Rng rng(args.seed, 0xc06, args.shard);
	const uint64_t nProgs = args.cases ? args.cases : 100;
	const uint64_t nPlace = args.num("placements", 20);
	// the dataset extent is what the library itself allocates (observed), not what the harness derives from configuration.h:
	// the fake dataset below ends exactly there, followed by a PROT_NONE page
	const uint64_t dsExtent = libraryDatasetExtent();
	if (!dsExtent) R.harnessFail("could not observe the allocation made by randomx_alloc_dataset");
	R.count("library_dataset_extent_bytes", dsExtent);
	if ((uint64_t)randomx_dataset_item_count() * 64 > dsExtent)
		R.violation("C06:extent:dataset-item-count-exceeds-allocated-bytes", "{\"items\":" + std::to_string(randomx_dataset_item_count()) + ",\"allocated\":" + std::to_string(dsExtent) + "}");
	ip::enableGuards(args.num("guards", 1) != 0); // --guards 0: for runs under valgrind memcheck (it keeps its own shadow of every byte)
	ip::setGarbageSeed(args.num("guards", 1) ? args.seed + 17 : 0);
	ProgFixture fx(args.seed * 57 + args.shard, true, dsExtent);
	for (const char* f : { "programs_run_interpreter", "programs_run_jit", "code_area_integrity_checks", "maxlen_light_v2_softaes", "dataset_offset_max_configs", "edge:scratchpad_first_line", "edge:scratchpad_last_line", "edge:dataset_last_item",
		"edge:L1_last_qword", "edge:L2_last_qword", "edge:L3_last_qword", "edge:store_at_level_end", "placements_single", "placements_batch", "input_len_0", "mode_light", "mode_full", "secure_jit_runs" }) R.floorKey(f);
	alignas(64) uint8_t prog[pg::PROG_BYTES];
	Edge edge;
	int maxCodePos = 0;
	const int superscalarOffset = 16384;
	size_t codeSize = 0;

	for (uint64_t ci = 0; ci < nProgs; ++ci) {
		// emphasis: maximal-length programs (largest code), directed immediates, address-register and offset extremes
		const int gen = (ci % 3 == 0) ? pg::G_MAXLEN : (ci % 3 == 1) ? pg::G_DIRECTED : 1 + (int)((ci / 3) % 6);
		pg::Meta meta; pg::genProgram(rng, gen, prog, &meta);
		bool v2 = rng.chance(1, 2), hard = (fx.hw & RANDOMX_FLAG_HARD_AES) && rng.chance(1, 2), full = rng.chance(1, 2); const bool secure = rng.chance(1, 3);
		if (gen == pg::G_MAXLEN && rng.chance(1, 2)) { v2 = true; hard = false; full = false; R.count("maxlen_light_v2_softaes"); } // largest fixed part
		// ma / mx at the top of the range with the maximal dataset offset -> the last item of the dataset
		if (rng.chance(1, 3)) { uint64_t q; q = 0x7fffffc0ULL | (rng.next() << 32); memcpy(prog + 64, &q, 8); memcpy(prog + 80, &q, 8); q = mdl::DATASET_EXTRA / 64; memcpy(prog + 104, &q, 8); R.count("dataset_offset_max_configs"); }
		const int spKind = (int)rng.below(pg::SP_COUNT);
		const unsigned iters = pickIterations(rng, true);
		pg::genScratchpad(rng, spKind, fx.sp0.data());
		char head[300]; snprintf(head, sizeof head, "{\"generator\":\"%s\",\"what\":\"%s\",\"v2\":%d,\"hard_aes\":%d,\"full_mem\":%d,\"secure\":%d,\"scratchpad\":\"%s\",\"iterations\":%u,\"shard\":%u,\"case\":%llu",
			pg::genNames[gen], meta.what.c_str(), v2, hard, full, secure, pg::spNames[spKind], iters ? iters : 2048, args.shard, (unsigned long long)ci);
		std::string cj = std::string(head) + ",\"program\":\"" + hex(prog, pg::PROG_BYTES) + "\"}";
		R.setCase(cj);
		const int base = (v2 ? RANDOMX_FLAG_V2 : 0) | (hard ? RANDOMX_FLAG_HARD_AES : 0) | (full ? RANDOMX_FLAG_FULL_MEM : 0);
		auto& hk = randomx_verif::hooks();
		hk.ctx = &edge; hk.iterBegin = edgeIterBegin; hk.afterInstr = edgeAfter;
		runProgram(fx.vm(base), prog, fx.sp0.data(), (uint32_t)rng.below(4), iters, nullptr);
		hk.iterBegin = nullptr; hk.iterEnd = nullptr; hk.afterInstr = nullptr; hk.ctx = nullptr;
		R.count("programs_run_interpreter");
		randomx_vm* vj = fx.vm(base | RANDOMX_FLAG_JIT | (secure ? RANDOMX_FLAG_SECURE : 0));
		randomx::JitCompiler* jc = Access::compiler(vj);
		const uint8_t* code = Access::code(*jc);
		codeSize = jc->getCodeSize();
		const uint64_t before = hashRange(code, superscalarOffset, codeSize);
		runProgram(vj, prog, fx.sp0.data(), (uint32_t)rng.below(4), iters, nullptr);
		R.count("programs_run_jit"); if (secure) R.count("secure_jit_runs");
		const uint64_t after = hashRange(code, superscalarOffset, codeSize);
		if (before != after) R.violation("C06:integrity:program-compilation-changed-superscalar-area-or-epilogue", cj);
		R.count("code_area_integrity_checks");
		const int cp = Access::codePos(*jc);
		if (cp > maxCodePos) maxCodePos = cp;
		if (cp > superscalarOffset) R.violation("C06:budget:program-code-exceeds-program-area", "{\"case\":" + cj + ",\"codePos\":" + std::to_string(cp) + "}");
		{ auto& offs = Access::instructionOffsets(*jc); for (size_t i = 1; i < offs.size(); ++i) if (offs[i] < offs[i - 1]) { R.violation("C06:budget:instruction-offsets-not-monotone", cj); break; } }
		R.count(full ? "mode_full" : "mode_light");
		R.evaluation();
		R.nontrivial(fnv1a(prog, pg::PROG_BYTES));
		if (ci < 2) R.sample(std::string(head) + ",\"program_head\":\"" + hex(prog, 160) + "\",\"codePos\":" + std::to_string(cp) + "}");
		R.clearCase();
	}
	R.maxv("max_program_code_end", (uint64_t)maxCodePos);
	R.note("program_area_bytes", std::to_string(superscalarOffset));
	R.count("edge:scratchpad_first_line", edge.spFirst); R.count("edge:scratchpad_last_line", edge.spLast); R.count("edge:dataset_first_item", edge.dsFirst); R.count("edge:dataset_last_item", edge.dsLast);
	R.count("edge:L1_last_qword", edge.l1Last); R.count("edge:L2_last_qword", edge.l2Last); R.count("edge:L3_last_qword", edge.l3Last); R.count("edge:mem_operand_at_0", edge.memFirst); R.count("edge:store_at_level_end", edge.storeLast);
	R.count("memory_operands_observed", edge.memOps);

	// ---- input / output placement: last byte directly before a PROT_NONE page, canary page before
	{
		const std::vector<int> cfgs = { RANDOMX_FLAG_JIT | (int)(fx.hw & RANDOMX_FLAG_HARD_AES), RANDOMX_FLAG_JIT, 0, RANDOMX_FLAG_JIT | RANDOMX_FLAG_SECURE | RANDOMX_FLAG_V2, RANDOMX_FLAG_V2 };
		for (uint64_t pi = 0; pi < nPlace; ++pi) {
			const size_t len = (size_t)((args.shard + args.nshards * pi) % 301);
			const int flags = cfgs[pi % cfgs.size()];
			randomx_vm* vm = fx.vm(flags);
			EdgeBuf in(len), out(32, 16);
			if (!in.map || !out.map) R.harnessFail("mmap");
			rng.fill(in.p, len);
			std::string cj = "{\"placement\":\"single\",\"input_len\":" + std::to_string(len) + ",\"flags\":\"" + flagsName(flags) + "\"}";
			R.setCase(cj);
			std::vector<uint8_t> copy(in.p, in.p + len); uint8_t ref[32];
			api::hash(vm, in.p, len, out.p);
			api::hash(vm, cases::nn(copy), len, ref);
			if (memcmp(ref, out.p, 32)) R.violation("C06:placement:digest-depends-on-buffer-placement", cj);
			if (!in.canaryIntact() || !out.canaryIntact()) R.violation("C06:placement:bytes-before-buffer-changed", cj);
			if (len && memcmp(in.p, copy.data(), len)) R.violation("C06:placement:input-modified", cj);
			R.count("placements_single"); if (len == 0) R.count("input_len_0");
			R.evaluation(); R.nontrivial(fnv1a(cj.data(), cj.size()));
			// pipelined interface and commitment with edge-placed buffers
			if (pi % 3 == 0) {
				EdgeBuf in2((len * 7) % 301), out2(32), com(32);
				rng.fill(in2.p, in2.n);
				R.setCase("{\"placement\":\"batch\",\"input_len\":" + std::to_string(len) + ",\"second_len\":" + std::to_string(in2.n) + ",\"flags\":\"" + flagsName(flags) + "\"}");
				api::hashFirst(vm, in.p, len);
				api::hashNext(vm, in2.p, in2.n, out2.p);
				if (memcmp(out2.p, ref, 32)) R.violation("C06:placement:batch-digest-differs", cj);
				api::hashLast(vm, out2.p);
				api::commitment(in.p, len, out.p, com.p);
				if (!in2.canaryIntact() || !out2.canaryIntact() || !com.canaryIntact()) R.violation("C06:placement:bytes-before-buffer-changed", cj);
				R.count("placements_batch");
			}
			R.clearCase();
		}
	}
	return 0;
}
