// randomx_verif::Access — the single friend of the VM / compiler classes (guard RANDOMX_VERIF).
// Gives the harness read/write access to state that the public API does not expose.
#pragma once
#ifndef RANDOMX_VERIF
#error "harness must be compiled with -DRANDOMX_VERIF"
#endif
#include "randomx.h"
#include "virtual_machine.hpp"
#include "vm_interpreted.hpp"
#include "vm_interpreted_light.hpp"
#include "vm_compiled.hpp"
#include "vm_compiled_light.hpp"
#include "bytecode_machine.hpp"
#include "jit_compiler.hpp"
#include "dataset.hpp"

namespace randomx_verif {

struct Access {
	static randomx::Program& program(randomx_vm* vm) { return vm->program; }
	static randomx::RegisterFile& reg(randomx_vm* vm) { return vm->reg; }
	static randomx::ProgramConfiguration& config(randomx_vm* vm) { return vm->config; }
	static randomx::MemoryRegisters& mem(randomx_vm* vm) { return vm->mem; }
	static uint8_t*& scratchpad(randomx_vm* vm) { return vm->scratchpad; }
	static randomx_cache*& cachePtr(randomx_vm* vm) { return vm->cachePtr; }
	static randomx_dataset*& datasetPtr(randomx_vm* vm) { return vm->datasetPtr; }
	static uint64_t& datasetOffset(randomx_vm* vm) { return vm->datasetOffset; }
	static void initialize(randomx_vm* vm) { vm->initialize(); }

	// the JIT compiler object of a compiled VM (nullptr for interpreted VMs)
	static randomx::JitCompiler* compiler(randomx_vm* vm) {
		using namespace randomx;
#define RXV_TRY(T) if (auto* p = dynamic_cast<T*>(vm)) return &p->compiler;
		RXV_TRY(CompiledVmDefault) RXV_TRY(CompiledVmHardAes) RXV_TRY(CompiledVmLargePage) RXV_TRY(CompiledVmLargePageHardAes)
		RXV_TRY(CompiledVmDefaultSecure) RXV_TRY(CompiledVmHardAesSecure) RXV_TRY(CompiledVmLargePageSecure) RXV_TRY(CompiledVmLargePageHardAesSecure)
#undef RXV_TRY
		return nullptr;
	}
	static randomx::BytecodeMachine* bytecodeMachine(randomx_vm* vm) { return dynamic_cast<randomx::BytecodeMachine*>(vm); }

	// BytecodeMachine internals
	static int* registerUsage(randomx::BytecodeMachine& m) { return m.registerUsage; }

#ifdef RANDOMX_COMPILER_X86
	static uint8_t* code(randomx::JitCompilerX86& j) { return j.code; }
	static int32_t codePos(randomx::JitCompilerX86& j) { return j.codePos; }
	static std::vector<int32_t>& instructionOffsets(randomx::JitCompilerX86& j) { return j.instructionOffsets; }
	static int* registerUsage(randomx::JitCompilerX86& j) { return j.registerUsage; }
	static void generateProgram(randomx::JitCompilerX86& j, randomx::Program& p, randomx::ProgramConfiguration& c) { j.generateProgram(p, c); }
#endif
};

} // namespace
