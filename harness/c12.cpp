// C12: AES generators and fingerprint match FIPS-197 rounds in software and hardware (reference-model
// monitor + soft/hard differential).
#include "rxv.hpp"
#if defined(__AES__)
#include "api.hpp"
#include "model/aes.hpp"
#include "aes_hash.hpp"
#include "soft_aes.h"
#include <cstdlib>
#include <sys/mman.h>

using namespace rxv;

namespace {
// buffer whose last byte lies directly before a PROT_NONE page (an overrun faults inside the library call and is attributed
// to the case) with a canary page in front; 64-byte aligned because sizes are multiples of 64
struct GuardedBuf {
	uint8_t* map = nullptr; size_t total = 0; uint8_t* p = nullptr; size_t n;
	explicit GuardedBuf(size_t n_) : n(n_) {
		const size_t page = 4096; const size_t body = ((n + page - 1) / page + 1) * page; total = body + page;
		map = (uint8_t*)mmap(nullptr, total, PROT_READ | PROT_WRITE, MAP_PRIVATE | MAP_ANONYMOUS, -1, 0);
		if (map == MAP_FAILED) { map = nullptr; return; }
		memset(map, 0xC7, body); mprotect(map + body, page, PROT_NONE); p = map + body - n;
	}
	~GuardedBuf() { if (map) munmap(map, total); }
	bool canaryIntact() const { for (const uint8_t* q = map; q < p; ++q) if (*q != 0xC7) return false; return true; }
	GuardedBuf(const GuardedBuf&) = delete;
};
struct Aligned {
	uint8_t* p; size_t n;
	explicit Aligned(size_t n_) : n(n_) { void* q = nullptr; if (posix_memalign(&q, 64, n ? n : 64) != 0) q = nullptr; p = (uint8_t*)q; }
	~Aligned() { free(p); }
	Aligned(const Aligned&) = delete;
};
void fillPattern(Rng& rng, uint8_t* p, size_t n, int kind) {
	switch (kind) {
	case 0: memset(p, 0, n); break;
	case 1: memset(p, 0xff, n); break;
	case 2: for (size_t i = 0; i < n; ++i) p[i] = (uint8_t)i; break;
	default: rng.fill(p, n); break;
	}
}
}

RXV_SUBCOMMAND(c12) {
	Rng rng(args.seed, 0xc12, args.shard);
	const bool thorough = args.thorough();
	for (const char* f : { "rounds_compared", "table_entries_touched", "fill1r_compared", "fill4r_compared", "hash1r_compared", "hashandfill_compared", "sizes_below_4096", "size_2mib" }) R.floorKey(f);

	// ---- single rounds: soft == hard == FIPS-197 model
	auto roundCase = [&](const uint8_t* st, const uint8_t* key) {
		rx_vec_i128 s = rx_load_vec_i128((const rx_vec_i128*)st), k = rx_load_vec_i128((const rx_vec_i128*)key);
		alignas(16) uint8_t se[16], sd[16], he[16], hd[16], me[16], md[16];
		{
			ip::Api scope("aes-rounds");
			rx_store_vec_i128((rx_vec_i128*)se, soft_aesenc(s, k)); rx_store_vec_i128((rx_vec_i128*)sd, soft_aesdec(s, k));
			rx_store_vec_i128((rx_vec_i128*)he, aesenc<false>(s, k)); rx_store_vec_i128((rx_vec_i128*)hd, aesdec<false>(s, k));
		}
		memcpy(me, st, 16); memcpy(md, st, 16); mdl::aesEncRound(me, key); mdl::aesDecRound(md, key);
		if (memcmp(se, me, 16) || memcmp(he, me, 16)) R.violation(memcmp(se, me, 16) ? "C12:model:soft-enc-round" : "C12:model:hard-enc-round", "{\"state\":\"" + hex(st, 16) + "\",\"key\":\"" + hex(key, 16) + "\",\"soft\":\"" + hex(se, 16) + "\",\"hard\":\"" + hex(he, 16) + "\",\"model\":\"" + hex(me, 16) + "\"}");
		if (memcmp(sd, md, 16) || memcmp(hd, md, 16)) R.violation(memcmp(sd, md, 16) ? "C12:model:soft-dec-round" : "C12:model:hard-dec-round", "{\"state\":\"" + hex(st, 16) + "\",\"key\":\"" + hex(key, 16) + "\",\"soft\":\"" + hex(sd, 16) + "\",\"hard\":\"" + hex(hd, 16) + "\",\"model\":\"" + hex(md, 16) + "\"}");
		R.count("rounds_compared", 2); R.evaluation();
	};
	if (args.shard == 0) {
		alignas(16) uint8_t st[16], key[16];
		for (int rest = 0; rest < 2; ++rest) for (int pos = 0; pos < 16; ++pos) for (int v = 0; v < 256; ++v) {
			if (rest) { rng.fill(st, 16); rng.fill(key, 16); } else { memset(st, 0, 16); memset(key, 0, 16); }
			st[pos] = (uint8_t)v;
			roundCase(st, key);
			if (!rest && pos < 4) R.count("table_entries_touched", 2); // byte value v in row pos%4 selects entry [pos%4][v] of the enc and dec tables; 16 positions x 256 values cover all 8 x 256
			if (v == 0x53 && pos < 2) { R.sample("{\"state\":\"" + hex(st, 16) + "\",\"key\":\"" + hex(key, 16) + "\"}"); R.nontrivial(fnv1a(st, 16) ^ pos); }
		}
	}
	const uint64_t nRounds = args.num("rounds", thorough ? 1000000000ULL : 4000000) / args.nshards;
	for (uint64_t i = 0; i < nRounds; ++i) { alignas(16) uint8_t st[16], key[16]; rng.fill(st, 16); rng.fill(key, 16); roundCase(st, key); }

	// ---- generator / fingerprint functions
	std::vector<size_t> sizes;
	for (size_t n = 1; n <= 64; ++n) sizes.push_back(64 * n);
	for (size_t n : { 4096u, 8192u, 12288u, 4096u + 64u, 4096u - 64u, 65536u, 262144u }) sizes.push_back(n);
	sizes.push_back(2097152);
	size_t idx = 0;
	const int reps = thorough ? 40 : 4;
	for (size_t size : sizes) {
		if (idx++ % args.nshards != args.shard) continue;
		for (int rep = 0; rep < reps; ++rep) {
			const int kind = rep < 3 ? rep : 3;
			alignas(16) uint8_t seed[64]; fillPattern(rng, seed, 64, (int)rng.below(5));
			char cj[256]; snprintf(cj, sizeof cj, "{\"size\":%zu,\"content_kind\":%d,\"seed\":\"%s\"}", size, kind, hex(seed, 64).c_str());
			R.setCase(cj);
			// fill1R / fill4R: soft == hard == model, output and updated state
			{
				Aligned bs(size), bh(size); std::vector<uint8_t> bm(size);
				alignas(16) uint8_t ss[64], sh[64], sm[64]; memcpy(ss, seed, 64); memcpy(sh, seed, 64); memcpy(sm, seed, 64);
				{ ip::Api scope("fillAes1Rx4"); fillAes1Rx4<true>(ss, size, bs.p); fillAes1Rx4<false>(sh, size, bh.p); }
				mdl::aesGenerator1R(sm, bm.data(), size);
				if (memcmp(bs.p, bm.data(), size) || memcmp(ss, sm, 64)) R.violation("C12:model:fillAes1Rx4-soft", cj);
				if (memcmp(bh.p, bm.data(), size) || memcmp(sh, sm, 64)) R.violation("C12:model:fillAes1Rx4-hard", cj);
				R.count("fill1r_compared", 2);
				memcpy(ss, seed, 64); memcpy(sh, seed, 64); memcpy(sm, seed, 64);
				{ ip::Api scope("fillAes4Rx4"); fillAes4Rx4<true>(ss, size, bs.p); fillAes4Rx4<false>(sh, size, bh.p); }
				mdl::aesGenerator4R(sm, bm.data(), size);
				if (memcmp(bs.p, bm.data(), size)) R.violation("C12:model:fillAes4Rx4-soft", cj);
				if (memcmp(bh.p, bm.data(), size)) R.violation("C12:model:fillAes4Rx4-hard", cj);
				R.count("fill4r_compared", 2);
			}
			// hash1R and the combined step
			{
				Aligned in(size); fillPattern(rng, in.p, size, kind);
				alignas(16) uint8_t hs[64], hh[64], hm[64];
				{ ip::Api scope("hashAes1Rx4"); hashAes1Rx4<true>(in.p, size, hs); hashAes1Rx4<false>(in.p, size, hh); }
				mdl::aesHash1R(in.p, size, hm);
				if (memcmp(hs, hm, 64)) R.violation("C12:model:hashAes1Rx4-soft", cj);
				if (memcmp(hh, hm, 64)) R.violation("C12:model:hashAes1Rx4-hard", cj);
				R.count("hash1r_compared", 2);
				std::vector<uint8_t> fillRef(size); alignas(16) uint8_t stRef[64]; memcpy(stRef, seed, 64);
				mdl::aesGenerator1R(stRef, fillRef.data(), size);
				for (int soft = 0; soft < 2; ++soft) {
					GuardedBuf work(size); if (!work.p) R.harnessFail("mmap");
					memcpy(work.p, in.p, size);
					alignas(16) uint8_t h2[64], st2[64]; memcpy(st2, seed, 64);
					{ ip::Api scope("hashAndFillAes1Rx4"); if (soft) hashAndFillAes1Rx4<true>(work.p, size, h2, st2); else hashAndFillAes1Rx4<false>(work.p, size, h2, st2); }
					if (memcmp(h2, hm, 64)) R.violation(soft ? "C12:model:hashAndFill-hash-soft" : "C12:model:hashAndFill-hash-hard", cj);
					if (memcmp(work.p, fillRef.data(), size) || memcmp(st2, stRef, 64)) R.violation(soft ? "C12:model:hashAndFill-fill-soft" : "C12:model:hashAndFill-fill-hard", cj);
					if (!work.canaryIntact()) R.violation(soft ? "C12:canary:hashAndFill-wrote-before-buffer-soft" : "C12:canary:hashAndFill-wrote-before-buffer-hard", cj);
					R.count("hashandfill_compared");
				}
			}
			if (size < 4096) R.count("sizes_below_4096");
			if (size == 2097152) R.count("size_2mib");
			R.evaluation();
			R.nontrivial(fnv1a(cj, strlen(cj)));
			if (rep == 0 && (size == 64 || size == 2097152)) R.sample(cj);
			R.clearCase();
		}
	}
	return 0;
}
#endif
