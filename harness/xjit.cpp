// C19 / C20: the machine code emitted by the ARM64 / RISC-V JIT back-ends (real emitters compiled for this host, real
// hand-written runtimes cross-assembled for their targets) is executed in an instruction-subset emulator and compared
// with the real interpreter: register file, whole scratchpad, rounding mode; dataset items from the emitted
// SuperscalarHash / dataset-init code against initDatasetItem. ("emulated execution monitor")
#include "rxv.hpp"
#ifdef RXV_XJIT
#include "progs.hpp"
#include "cases.hpp"
#include "a64emu.hpp"
#include "rv64emu.hpp"

using namespace rxv;

namespace {

struct Outcome { bool ok, inconclusive, finding, limit; std::string error; uint8_t reg[256]; unsigned fprc; uint64_t executed; };

// ---- adapters: one machine per (flags) so that code-buffer contents persist between programs as they do in a VM
struct A64 {
	static const char* name() { return "a64"; }
	static const char* prop() { return "C19"; }
	static bool supportsHardAes() { return true; }
	std::map<int, std::unique_ptr<a64emu::Machine>> machines;
	std::map<int, const void*> bound; // what each machine is bound to
	Outcome run(const uint8_t* prog, uint8_t* sp, int flags, bool light, randomx_cache* cache, const uint8_t* ds, unsigned iters, unsigned fprc, bool fresh) {
		Outcome o; a64emu::RunResult r;
		if (fresh) r = a64emu::runProgram(prog, sp, flags, light, cache, ds, iters, fprc);
		else {
			const int key = flags | (light ? 0x1000000 : 0);
			auto& m = machines[key];
			if (!m) { m.reset(new a64emu::Machine(flags)); if (light) m->setCache(cache); else m->setDataset(ds); }
			r = m->run(prog, sp, iters, fprc);
		}
		o.ok = r.ok; o.inconclusive = r.unmodelled; o.limit = r.budgetExhausted; o.finding = r.outOfBounds || r.undefinedInstr || r.abiViolation; o.error = r.error;
		memcpy(o.reg, r.reg, 256); o.fprc = r.fpcrRMode; o.executed = r.executed;
		return o;
	}
	Outcome initDataset(randomx_cache* cache, uint8_t* out, uint32_t s, uint32_t e) {
		a64emu::RunResult r = a64emu::initDataset(cache, out, s, e);
		Outcome o; o.ok = r.ok; o.inconclusive = r.unmodelled; o.limit = r.budgetExhausted; o.finding = r.outOfBounds || r.undefinedInstr || r.abiViolation; o.error = r.error; o.executed = r.executed; o.fprc = 0;
		return o;
	}
};
struct RV64 {
	static const char* name() { return "rv64"; }
	static const char* prop() { return "C20"; }
	static bool supportsHardAes() { return false; }
	rv64emu::Machine persistent;
	Outcome conv(const rv64emu::RunResult& r) {
		Outcome o; o.ok = r.ok; o.inconclusive = r.unmodelled; o.limit = r.limit; o.finding = r.outOfBounds || (!r.ok && !r.unmodelled && !r.limit); o.error = r.error;
		memcpy(o.reg, r.reg, 256); o.fprc = rv64emu::randomXFromFrm(r.frm); o.executed = r.executed; return o;
	}
	Outcome run(const uint8_t* prog, uint8_t* sp, int flags, bool light, randomx_cache* cache, const uint8_t* ds, unsigned iters, unsigned fprc, bool fresh) {
		if (fresh) { rv64emu::Machine m; if (!m.valid()) R.harnessFail("rv64 machine: " + m.initError()); return conv(m.runProgram(prog, sp, flags, light, cache, ds, iters, fprc)); }
		if (!persistent.valid()) R.harnessFail("rv64 machine: " + persistent.initError());
		return conv(persistent.runProgram(prog, sp, flags, light, cache, ds, iters, fprc));
	}
	Outcome initDataset(randomx_cache* cache, uint8_t* out, uint32_t s, uint32_t e) { rv64emu::Machine m; return conv(m.initDataset(cache, out, s, e)); }
};

template<class Arch> int runXjit(const Args& args) {
	const std::string P = Arch::prop();
	Rng rng(args.seed, 0xc19 + (P == "C20"), args.shard);
	const uint64_t nProgs = args.cases ? args.cases : 100;
	const uint64_t nRanges = args.num("ranges", 4);
	const unsigned fullEvery = (unsigned)args.num("full_every", 24); // one full 2048-iteration run in that many programs
	ProgFixture fx(args.seed * 191 + args.shard);
	Arch arch;
	for (const char* f : { "programs_compared", "programs_full_length", "programs_with_taken_branch", "mode_light", "mode_full", "v1", "v2", "fresh_machine_runs", "persistent_machine_runs", "dataset_ranges", "dataset_items_compared", "emulated_instructions",
		"gen_random", "gen_one-type", "gen_directed", "gen_maxlen", "gen_real-mutated", "gen_branch-dense", "entry_fprc_0", "entry_fprc_1", "entry_fprc_2", "entry_fprc_3", "exit_fprc_differs_from_entry" }) R.floorKey(f);
	if (Arch::supportsHardAes()) { R.floorKey("aes_hard"); R.floorKey("aes_soft"); }
	for (auto& k : pg::coverageFloor()) if (args.num("coverage_floor", 1)) R.floorKey(k);
	std::map<std::string, uint64_t> cov;
	alignas(64) uint8_t prog[pg::PROG_BYTES];
	struct BranchCtx { uint64_t taken; } bc;

	auto handle = [&](const Outcome& o, const std::string& cj, const char* what) -> bool {
		if (o.ok) return true;
		if (o.inconclusive) R.harnessFail(std::string(Arch::name()) + " emulator: " + o.error + " (" + what + "); the emulator must be extended, no verdict");
		if (o.limit) { R.violation(P + ":emulated:instruction-budget-exhausted(non-termination):" + what, "{\"case\":" + cj + ",\"error\":" + jsonStr(o.error) + "}"); return false; }
		// out-of-bounds access, undefined instruction, ABI violation
		std::string kind = o.error.substr(0, o.error.find_first_of(" :(")); if (kind.size() > 40) kind.resize(40);
		R.violation(P + ":emulated:" + (o.error.find("out-of-bounds") != std::string::npos || o.error.find("outside") != std::string::npos ? "out-of-bounds-access" : "illegal-execution") + ":" + what, "{\"case\":" + cj + ",\"error\":" + jsonStr(o.error) + "}");
		return false;
	};

	for (uint64_t ci = 0; ci < nProgs; ++ci) {
		const int gen = 1 + (int)(ci % 6);
		pg::Meta meta; pg::genProgram(rng, gen, prog, &meta);
		const bool v2 = rng.chance(1, 2), hard = Arch::supportsHardAes() && (fx.hw & RANDOMX_FLAG_HARD_AES) && rng.chance(1, 2), full = rng.chance(1, 2), fresh = rng.chance(1, 4);
		const int spKind = (int)(rng.chance(1, 2) ? pg::SP_RANDOM : rng.below(pg::SP_COUNT));
		const uint32_t fprc = (uint32_t)rng.below(4);
		unsigned iters = (ci % fullEvery == fullEvery - 1) ? 2048 : pickIterations(rng, false);
		pg::genScratchpad(rng, spKind, fx.sp0.data());
		const int flags = (v2 ? RANDOMX_FLAG_V2 : 0) | (hard ? RANDOMX_FLAG_HARD_AES : 0);
		char head[340]; snprintf(head, sizeof head, "{\"backend\":\"%s\",\"generator\":\"%s\",\"what\":\"%s\",\"v2\":%d,\"hard_aes\":%d,\"full_mem\":%d,\"fresh_machine\":%d,\"scratchpad\":\"%s\",\"entry_fprc\":%u,\"iterations\":%u,\"shard\":%u,\"case\":%llu",
			Arch::name(), pg::genNames[gen], meta.what.c_str(), v2, hard, full, fresh, pg::spNames[spKind], fprc, iters, args.shard, (unsigned long long)ci);
		std::string cj = std::string(head) + ",\"program\":\"" + hex(prog, pg::PROG_BYTES) + "\"}";
		R.setCase(cj);
		// reference: the real interpreter on this host (the hard-AES flag selects the interpreter's AES path; the result must be the same)
		bc.taken = 0;
		auto& hk = randomx_verif::hooks();
		hk.ctx = &bc; hk.afterInstr = [](void* c, const void* ibc, int pc0, int pc1) { if (((const randomx::InstructionByteCode*)ibc)->type == randomx::InstructionType::CBRANCH && pc1 != pc0) ((BranchCtx*)c)->taken++; };
		ProgResult ri = runProgram(fx.vm(flags | (full ? RANDOMX_FLAG_FULL_MEM : 0)), prog, fx.sp0.data(), fprc, iters, fx.spA.data());
		hk.afterInstr = nullptr; hk.ctx = nullptr;
		// emulated execution of the emitted code
		memcpy(fx.spB.data(), fx.sp0.data(), kScratchpadBytes);
		alignas(64) uint8_t progCopy[pg::PROG_BYTES]; memcpy(progCopy, prog, sizeof progCopy);
		Outcome o = arch.run(progCopy, fx.spB.data(), flags, !full, fx.cache->c, fx.ds->base, iters, fprc, fresh);
		R.count("emulated_instructions", o.executed);
		if (handle(o, cj, "program")) {
			std::string diff;
			if (memcmp(ri.reg, o.reg, 256)) { int off = 0; while (ri.reg[off] == o.reg[off]) ++off; static const char* grp[] = { "r", "f", "e", "a" }; diff = std::string("register-file:") + grp[off / 64]; }
			else if (memcmp(fx.spA.data(), fx.spB.data(), kScratchpadBytes)) diff = "scratchpad";
			else if (ri.fprc != o.fprc) diff = "rounding-mode-on-exit";
			if (!diff.empty()) {
				size_t spOff = 0; if (diff == "scratchpad") while (fx.spA[spOff] == fx.spB[spOff]) ++spOff;
				R.violation(P + ":differential:" + Arch::name() + "-jit-vs-interpreter:" + diff, "{\"case\":" + cj + ",\"interpreter_reg\":\"" + hex(ri.reg, 256) + "\",\"emulated_reg\":\"" + hex(o.reg, 256) + "\",\"first_scratchpad_diff\":" + std::to_string(spOff) +
					",\"fprc_interpreter\":" + std::to_string(ri.fprc) + ",\"fprc_emulated\":" + std::to_string(o.fprc) + "}");
			}
			R.count("programs_compared");
		}
		pg::countCoverage(prog, v2, cov);
		R.evaluation();
		if (iters == 2048) R.count("programs_full_length");
		R.count(std::string("gen_") + pg::genNames[gen]); R.count(full ? "mode_full" : "mode_light"); R.count(v2 ? "v2" : "v1"); R.count(hard ? "aes_hard" : "aes_soft");
		R.count(fresh ? "fresh_machine_runs" : "persistent_machine_runs"); R.count("entry_fprc_" + std::to_string(fprc));
		if (ri.fprc != fprc) R.count("exit_fprc_differs_from_entry");
		if (bc.taken) { R.count("programs_with_taken_branch"); R.nontrivial(fnv1a(prog, pg::PROG_BYTES)); }
		if (ci < 2) R.sample(std::string(head) + ",\"program_head\":\"" + hex(prog, 160) + "\",\"emulated_instructions\":" + std::to_string(o.executed) + "}");
		R.clearCase();
	}
	for (auto& kv : cov) R.count(kv.first, kv.second);

	// ---- dataset items from the emitted SuperscalarHash + dataset-init code
	{
		const unsigned long TOTAL = randomx_dataset_item_count();
		for (uint64_t ri = 0; ri < nRanges; ++ri) {
			std::vector<uint8_t> key = cases::makeKey(rng, args.shard * 8 + ri);
			randomx_cache* c = (ri == 0) ? fx.cache->c : api::allocCache(RANDOMX_FLAG_DEFAULT);
			if (ri != 0) { if (!c) R.harnessFail("cache"); api::initCache(c, cases::nn(key), key.size()); }
			const uint32_t count = 1 + (uint32_t)rng.below(ri % 2 ? 40 : 4);
			const uint32_t start = ri % 3 == 0 ? (uint32_t)(TOTAL - count) : ri % 3 == 1 ? 0 : (uint32_t)rng.below(TOTAL - count);
			std::string cj = std::string("{\"backend\":\"") + Arch::name() + "\",\"dataset_init\":true,\"key\":\"" + hex(key.data(), key.size()) + "\",\"start\":" + std::to_string(start) + ",\"count\":" + std::to_string(count) + "}";
			R.setCase(cj);
			std::vector<uint8_t> out((size_t)count * 64 + 64, 0xCD);
			Outcome o = arch.initDataset(c, out.data(), start, start + count);
			R.count("emulated_instructions", o.executed);
			if (handle(o, cj, "dataset-init")) {
				for (uint32_t i = 0; i < count; ++i) {
					uint8_t want[64]; { ip::Api s("initDatasetItem"); randomx::initDatasetItem(c, want, start + i); }
					if (memcmp(want, out.data() + (size_t)i * 64, 64)) { R.violation(P + ":differential:" + Arch::name() + "-dataset-item-vs-interpreter", "{\"case\":" + cj + ",\"item\":" + std::to_string(start + i) + ",\"emulated\":\"" + hex(out.data() + (size_t)i * 64, 64) + "\",\"interpreter\":\"" + hex(want, 64) + "\"}"); break; }
					R.count("dataset_items_compared");
				}
				for (int i = 0; i < 64; ++i) if (out[(size_t)count * 64 + i] != 0xCD) { R.violation(P + ":canary:dataset-init-wrote-past-the-requested-items", cj); break; }
			}
			R.count("dataset_ranges"); R.evaluation(); R.nontrivial(fnv1a(cj.data(), cj.size()));
			if (ri != 0) api::releaseCache(c);
			R.clearCase();
		}
	}
	return 0;
}
}

RXV_SUBCOMMAND(c19) { runWatchdogKey() = "C19:watchdog:interpreter-run-did-not-return"; return runXjit<A64>(args); }
RXV_SUBCOMMAND(c20) { runWatchdogKey() = "C20:watchdog:interpreter-run-did-not-return"; return runXjit<RV64>(args); }
#endif
