// C13: hashing neither depends on nor disturbs the caller's FP environment (MXCSR).
#include "rxv.hpp"
#include "api.hpp"
#include "vmutil.hpp"
#include "cases.hpp"
#include <array>

using namespace rxv;

namespace {
// set MXCSR, call, read MXCSR back: no floating-point instruction of the harness in between
__attribute__((noinline)) unsigned hashWithCsr(randomx_vm* vm, const void* in, size_t n, void* out, unsigned csr) {
	ip::Api scope("calculate_hash");
	unsigned after;
	asm volatile("ldmxcsr %0" : : "m"(csr) : "memory");
	randomx_calculate_hash(vm, in, n, out);
	asm volatile("stmxcsr %0" : "=m"(after) : : "memory");
	const unsigned dflt = 0x1F80;
	asm volatile("ldmxcsr %0" : : "m"(dflt) : "memory");
	return after;
}
__attribute__((noinline)) void batchWithCsr(randomx_vm* vm, const std::vector<std::vector<uint8_t>>& ins, std::vector<std::array<uint8_t, 32>>& outs, unsigned csr) {
	ip::Api scope("batch");
	outs.resize(ins.size());
	asm volatile("ldmxcsr %0" : : "m"(csr) : "memory");
	randomx_calculate_hash_first(vm, ins[0].data(), ins[0].size());
	for (size_t i = 1; i < ins.size(); ++i) {
		asm volatile("ldmxcsr %0" : : "m"(csr) : "memory"); // the caller's state again (the interface may have changed it)
		randomx_calculate_hash_next(vm, ins[i].data(), ins[i].size(), outs[i - 1].data());
	}
	asm volatile("ldmxcsr %0" : : "m"(csr) : "memory");
	randomx_calculate_hash_last(vm, outs[ins.size() - 1].data());
	const unsigned dflt = 0x1F80;
	asm volatile("ldmxcsr %0" : : "m"(dflt) : "memory");
}
}

RXV_SUBCOMMAND(c13) {
	Rng rng(args.seed, 0xc13, args.shard);
	const randomx_flags hw = api::getFlags();
	const bool thorough = args.thorough();
	for (const char* f : { "single_calls", "batch_calls", "states_tried", "final_fprc_0", "final_fprc_1", "final_fprc_2", "final_fprc_3", "configs_light", "unmasked_exception_states" }) R.floorKey(f);
	if (thorough) R.floorKey("configs_fast");

	std::vector<uint8_t> key = cases::makeKey(rng, 0);
	CacheHolder cache((randomx_flags)(RANDOMX_FLAG_JIT | (hw & (RANDOMX_FLAG_ARGON2_AVX2 | RANDOMX_FLAG_ARGON2_SSSE3))), cases::nn(key), key.size());
	if (!cache.c) R.harnessFail("cache");
	randomx_dataset* ds = nullptr;
	if (thorough && args.shard == 0) {
		ds = api::allocDataset(RANDOMX_FLAG_DEFAULT);
		if (!ds) R.harnessFail("dataset");
		api::initDataset(ds, cache.c, 0, randomx_dataset_item_count());
	}
	// MXCSR states: RC x FTZ x DAZ x masks x sticky flags
	std::vector<unsigned> states;
	for (unsigned rc = 0; rc < 4; ++rc) for (unsigned ftz = 0; ftz < 2; ++ftz) for (unsigned daz = 0; daz < 2; ++daz)
		for (unsigned mask : { 0x1F80u, 0x0000u, 0x0F80u /*inexact unmasked*/, 0x1F00u /*invalid unmasked*/ }) for (unsigned sticky : { 0u, 0x3fu })
			states.push_back(mask | (rc << 13) | (ftz << 15) | (daz << 6) | sticky);
	// VM configurations
	std::vector<int> configs;
	for (int jit = 0; jit < 3; ++jit) for (int aes = 0; aes < 2; ++aes) {
		int f = (jit >= 1 ? RANDOMX_FLAG_JIT : 0) | (jit == 2 ? RANDOMX_FLAG_SECURE : 0) | (aes ? (int)(hw & RANDOMX_FLAG_HARD_AES) : 0);
		if (aes && !(hw & RANDOMX_FLAG_HARD_AES)) continue;
		configs.push_back(f);
		if (ds) configs.push_back(f | RANDOMX_FLAG_FULL_MEM);
	}
	// inputs: pre-scan with the model-free route: find inputs whose last program ends in each rounding mode (v1 and v2)
	// using the interpreter's own CFROUND execution observed through the after-instruction hook
	struct Last { int fprc; } last;
	const uint64_t nInputs = thorough ? 8 : 4;
	for (int v2 = 0; v2 < 2; ++v2) {
		// choose inputs so that the final rounding modes seen cover 0..3
		std::vector<std::vector<uint8_t>> inputs;
		std::vector<int> finals;
		{
			VmHolder scan((randomx_flags)(RANDOMX_FLAG_JIT | (hw & RANDOMX_FLAG_HARD_AES) | (v2 ? RANDOMX_FLAG_V2 : 0)), cache.c, nullptr);
			if (!scan.vm) R.harnessFail("vm");
			bool have[4] = { false, false, false, false };
			for (int tries = 0; tries < 400 && inputs.size() < nInputs; ++tries) {
				std::vector<uint8_t> in = cases::makeInput(rng, 100 + tries);
				uint8_t out[32];
				// JIT leaves MXCSR as the last program left it when called through the pipelined interface
				ip::Api scope("scan");
				randomx_calculate_hash_first(scan.vm, in.data(), in.size());
				randomx_calculate_hash_last(scan.vm, out);
				int fin = (int)getFprc();
				_mm_setcsr(0x1F80);
				const size_t unseen = 4 - (size_t)(have[0] + have[1] + have[2] + have[3]);
				if (!have[fin] || nInputs - inputs.size() > unseen) { have[fin] = true; inputs.push_back(in); finals.push_back(fin); }
			}
			if (inputs.empty()) R.harnessFail("no inputs");
		}
		for (int fin : finals) R.count("final_fprc_" + std::to_string(fin));
		for (int cfgFlags : configs) {
			const randomx_flags fl = (randomx_flags)(cfgFlags | (v2 ? RANDOMX_FLAG_V2 : 0));
			VmHolder vm(fl, cache.c, (cfgFlags & RANDOMX_FLAG_FULL_MEM) ? ds : nullptr);
			if (!vm.vm) R.harnessFail("vm " + flagsName(fl));
			R.count((cfgFlags & RANDOMX_FLAG_FULL_MEM) ? "configs_fast" : "configs_light");
			// reference digests under the default state
			std::vector<std::array<uint8_t, 32>> ref(inputs.size());
			for (size_t i = 0; i < inputs.size(); ++i) {
				unsigned after = hashWithCsr(vm.vm, inputs[i].data(), inputs[i].size(), ref[i].data(), 0x1F80);
				if (after != 0x1F80) R.violation("C13:mxcsr-not-restored:" + flagsName(cfgFlags), "{\"entry\":\"0x1f80\",\"exit\":\"0x" + hex(&after, 2) + "\"}");
			}
			// each shard takes a slice of the state list; interpreter configs are slow: sample there
			const bool slow = !(cfgFlags & RANDOMX_FLAG_JIT) && !(cfgFlags & RANDOMX_FLAG_FULL_MEM);
			for (size_t si = args.shard; si < states.size(); si += args.nshards) {
				if (slow && !thorough && ((si / args.nshards) % 4) != 0) continue;
				const unsigned st = states[si];
				const size_t ii = (si / args.nshards) % inputs.size();
				char cj[320]; snprintf(cj, sizeof cj, "{\"mxcsr\":\"0x%04x\",\"flags\":\"%s\",\"input\":\"%s\",\"final_fprc_of_input\":%d}", st, flagsName(fl).c_str(), hex(inputs[ii].data(), inputs[ii].size() > 40 ? 40 : inputs[ii].size()).c_str(), finals[ii]);
				R.setCase(cj);
				uint8_t out[32];
				unsigned after = hashWithCsr(vm.vm, inputs[ii].data(), inputs[ii].size(), out, st);
				if (memcmp(out, ref[ii].data(), 32)) R.violation("C13:digest-depends-on-mxcsr:" + flagsName(cfgFlags), cj);
				if (after != st) { char b[400]; snprintf(b, sizeof b, "{\"case\":%s,\"exit_mxcsr\":\"0x%04x\"}", cj, after); R.violation("C13:mxcsr-not-restored:" + flagsName(cfgFlags), b); }
				R.count("single_calls"); R.count("states_tried");
				if ((st & 0x1F80) != 0x1F80) R.count("unmasked_exception_states");
				R.evaluation();
				R.nontrivial(fnv1a(cj, strlen(cj)));
				if (si % 37 == 0) R.sample(cj);
				// pipelined interface: digests only
				if ((si / args.nshards) % 3 == 0 || thorough) {
					std::vector<std::array<uint8_t, 32>> outs;
					batchWithCsr(vm.vm, inputs, outs, st);
					for (size_t k = 0; k < inputs.size(); ++k) if (memcmp(outs[k].data(), ref[k].data(), 32)) { R.violation("C13:batch-digest-depends-on-mxcsr:" + flagsName(cfgFlags), cj); break; }
					R.count("batch_calls");
				}
				R.clearCase();
			}
		}
	}
	if (ds) api::releaseDataset(ds);
	return 0;
}
