// C09: SuperscalarHash programs are well-formed and spec-conformant for every key; interpreter == native.
#include "rxv.hpp"
#include "api.hpp"
#include "cases.hpp"
#include "model/superscalar.hpp"
#include "superscalar.hpp"
#include "blake2_generator.hpp"
#include "jit_compiler_x86.hpp"
#include "jit_compiler_x86_static.hpp"
#include "dataset.hpp"
#include "reciprocal.h"
#include <sys/mman.h>

extern "C" void rxv_ss_call(void* entry, uint64_t* regs, const void* cacheMemory);

using namespace rxv;

namespace {
const char* ssNames[] = { "ISUB_R", "IXOR_R", "IADD_RS", "IMUL_R", "IROR_C", "IADD_C7", "IXOR_C7", "IADD_C8", "IXOR_C8", "IADD_C9", "IXOR_C9", "IMULH_R", "ISMULH_R", "IMUL_RCP" };

std::string progJson(randomx::SuperscalarProgram& p, unsigned maxInstr = 12) {
	std::string s = "[";
	for (unsigned i = 0; i < p.getSize() && i < maxInstr; ++i) {
		auto& in = p(i); char b[96]; snprintf(b, sizeof b, "%s\"%s r%d,r%d,mod=%d,imm=0x%08x\"", i ? "," : "", in.opcode < 14 ? ssNames[in.opcode] : "?", in.dst, in.src, in.mod, in.getImm32());
		s += b;
	}
	return s + "]";
}

// the well-formedness rules of Table 6.1.1 + size bounds + address register, written against the raw instruction list
std::string wellFormed(randomx::SuperscalarProgram& p) {
	const unsigned n = p.getSize();
	if (n < 1 || n > 3 * 170 + 2) return "size-out-of-range";
	int chain[8] = { 0 };
	for (unsigned i = 0; i < n; ++i) {
		auto& in = p(i);
		if (in.opcode > 13) return "opcode-not-allowed";
		if (in.dst > 7 || in.src > 7) return "register-out-of-range";
		switch (in.opcode) {
		case 0: case 1: case 3: if (in.dst == in.src) return std::string("dst-equals-src:") + ssNames[in.opcode]; break;
		case 2: if (in.dst == in.src) return "dst-equals-src:IADD_RS"; if (in.dst == 5) return "IADD_RS-dst-r5"; break;
		case 4: if ((in.getImm32() & 63) == 0) return "IROR_C-count-zero"; break;
		case 13: { uint32_t d = in.getImm32(); if (d == 0 || (d & (d - 1)) == 0) return "IMUL_RCP-divisor-zero-or-pow2"; } break;
		default: break;
		}
		// dependency chains: unit latency, result depends on dst and (if different) src
		const bool usesSrc = in.opcode <= 3 || in.opcode == 11 || in.opcode == 12;
		int ld = chain[in.dst] + 1, ls = (usesSrc && in.src != in.dst) ? chain[in.src] + 1 : 0;
		chain[in.dst] = ld > ls ? ld : ls;
	}
	int best = 0; for (int i = 0; i < 8; ++i) if (chain[i] > best) best = chain[i];
	if (p.getAddressRegister() < 0 || p.getAddressRegister() > 7 || chain[p.getAddressRegister()] != best) return "address-register-not-longest-chain";
	return "";
}
}

RXV_SUBCOMMAND(c09) {
	Rng rng(args.seed, 0xc09, args.shard);
	const uint64_t nKeys = args.cases ? args.cases : 200;
	const uint64_t nativeInputs = args.num("inputs", 64);
	for (const char* f : { "programs_checked", "instructions_checked", "programs_equal_model", "native_executions_compared", "single_program_native", "determinism_reruns",
		"path_throw_away", "path_src_stall", "path_dst_stall", "path_group_4444", "keys_longer_than_60", "keys_len_0" }) R.floorKey(f);
	for (int i = 0; i < 14; ++i) R.floorKey(std::string("opcode_") + ssNames[i]);

	// zero "cache" for native execution: 256 MiB of lazily mapped zero pages
	const size_t cacheBytes = 268435456;
	uint8_t* zero = (uint8_t*)mmap(nullptr, cacheBytes, PROT_READ, MAP_PRIVATE | MAP_ANONYMOUS | MAP_NORESERVE, -1, 0);
	if (zero == MAP_FAILED) R.harnessFail("mmap zero cache");
	const size_t sshInitSize = (const uint8_t*)&randomx_program_end - (const uint8_t*)&randomx_sshash_init;
	randomx::JitCompilerX86* jit;
	{ ip::Api s("new JitCompiler"); jit = new randomx::JitCompilerX86(); }

	for (uint64_t ki = 0; ki < nKeys; ++ki) {
		const uint64_t index = args.shard + args.nshards * ki;
		std::vector<uint8_t> key;
		if (index <= 70) { key.resize(index); rng.fill(key.data(), key.size()); }  // every length 0..70
		else key = cases::makeKey(rng, 1000 + index);
		if (index % 5 == 4) for (auto& b : key) b &= 1;
		const std::string keyHex = hex(key.data(), key.size());
		R.setCase("{\"key\":\"" + keyHex + "\"}");
		if (key.size() > 60) R.count("keys_longer_than_60");
		if (key.empty()) R.count("keys_len_0");

		randomx::SuperscalarProgramList progs, again;
		{
			ip::Api s("generateSuperscalar");
			randomx::Blake2Generator gen(cases::nn(key), key.size());
			for (auto& p : progs) randomx::generateSuperscalar(p, gen);
			randomx::Blake2Generator gen2(cases::nn(key), key.size());
			for (auto& p : again) randomx::generateSuperscalar(p, gen2);
		}
		mdl::BlakeGenerator mgen(key.data(), key.size());
		bool allOk = true;
		for (int pi = 0; pi < 8; ++pi) {
			auto& p = progs[pi];
			std::string bad = wellFormed(p);
			if (!bad.empty()) { allOk = false; R.violation("C09:wellformed:" + bad, "{\"key\":\"" + keyHex + "\",\"program\":" + std::to_string(pi) + ",\"size\":" + std::to_string(p.getSize()) + ",\"head\":" + progJson(p) + "}"); }
			// determinism
			bool same = p.getSize() == again[pi].getSize() && p.getAddressRegister() == again[pi].getAddressRegister() && memcmp(p.programBuffer, again[pi].programBuffer, p.getSize() * 8) == 0;
			if (!same) { allOk = false; R.violation("C09:determinism:two-runs-differ", "{\"key\":\"" + keyHex + "\",\"program\":" + std::to_string(pi) + "}"); }
			R.count("determinism_reruns");
			// model generator
			mdl::SsProgram mp; mdl::generateSuperscalar(mp, mgen);
			bool eq = mp.ins.size() == p.getSize() && mp.addressReg == p.getAddressRegister();
			for (unsigned j = 0; eq && j < p.getSize(); ++j) { auto& a = p(j); auto& b = mp.ins[j]; eq = a.opcode == b.type && a.dst == b.dst && a.src == b.src && a.mod == (uint8_t)b.mod && a.getImm32() == b.imm32; }
			if (!eq) { allOk = false; R.violation("C09:model:program-differs-from-spec-generator", "{\"key\":\"" + keyHex + "\",\"program\":" + std::to_string(pi) + ",\"real_size\":" + std::to_string(p.getSize()) + ",\"model_size\":" + std::to_string(mp.ins.size()) + "}"); }
			else R.count("programs_equal_model");
			R.count("programs_checked"); R.count("instructions_checked", p.getSize());
			R.maxv("max_program_size", p.getSize()); R.minv("min_program_size", p.getSize());
			for (unsigned j = 0; j < p.getSize(); ++j) if (p(j).opcode < 14) R.count(std::string("opcode_") + ssNames[p(j).opcode]);
			if (mp.throwAways) R.count("path_throw_away", mp.throwAways);
			if (mp.srcStalls) R.count("path_src_stall", mp.srcStalls);
			if (mp.dstStalls) R.count("path_dst_stall", mp.dstStalls);
			if (mp.group4444) R.count("path_group_4444", mp.group4444);
			R.count("path_r5_rule", mp.r5rule); R.count("path_abort_decode_buffer", mp.aborts); R.count("path_port_fail", mp.portFail); R.count("path_chained_mul_allowed", mp.chainedMulAllowed);
			if (mp.ins.size() >= 512) R.count("path_size_limit_reached");
		}
		// native vs interpreter (only meaningful for programs the interpreter accepts)
		if (allOk) {
			// the cache stores reciprocals out of line (same steps as initCache)
			std::vector<uint64_t> rcp;
			randomx::SuperscalarProgramList cooked = progs;
			for (auto& p : cooked) for (unsigned j = 0; j < p.getSize(); ++j) if (p(j).opcode == 13) { uint64_t r = randomx_reciprocal(p(j).getImm32()); p(j).setImm32((uint32_t)rcp.size()); rcp.push_back(r); }
			{ ip::Api s("generateSuperscalarHash"); jit->enableWriting(); jit->generateSuperscalarHash(cooked, rcp); jit->enableExecution(); }
			uint8_t* entry = jit->getCode() + 16384 + sshInitSize;
			for (uint64_t t = 0; t < nativeInputs; ++t) {
				uint64_t in[8];
				switch (t % 8) {
				case 0: for (auto& x : in) x = rng.next(); break;
				case 1: for (auto& x : in) x = 0; in[rng.below(8)] = 1ULL << rng.below(64); break;
				case 2: for (auto& x : in) x = ~0ULL; break;
				case 3: for (auto& x : in) x = rng.chance(1, 2) ? 0x8000000000000000ULL : 0x7fffffffffffffffULL; break;
				case 4: for (auto& x : in) x = (uint64_t)(int64_t)(int32_t)rng.u32(); break;
				case 5: for (auto& x : in) x = rng.next() & rng.next() & rng.next(); break;
				case 6: for (auto& x : in) x = 0; break;
				default: for (auto& x : in) x = rng.next() | rng.next() | rng.next(); break;
				}
				uint64_t a[8], b[8]; memcpy(a, in, 64); memcpy(b, in, 64);
				{ ip::Api s("executeSuperscalar"); for (auto& p : cooked) randomx::executeSuperscalar(a, p, &rcp); }
				{ ip::Api s("native-superscalar"); rxv_ss_call(entry, b, zero); }
				if (memcmp(a, b, 64)) R.violation("C09:differential:interpreter-vs-native", "{\"key\":\"" + keyHex + "\",\"input\":\"" + hex(in, 64) + "\",\"interpreter\":\"" + hex(a, 64) + "\",\"native\":\"" + hex(b, 64) + "\"}");
				// and against the model's executor on the model-equal programs
				R.count("native_executions_compared"); R.evaluation();
			}
			// one program alone (others empty) so that a compensating pair of errors in two programs cannot hide
			{
				int pi = (int)rng.below(8);
				randomx::SuperscalarProgramList single = cooked;
				for (int q = 0; q < 8; ++q) if (q != 0) single[q].setSize(0);
				single[0] = cooked[pi];
				{ ip::Api s("generateSuperscalarHash"); jit->enableWriting(); jit->generateSuperscalarHash(single, rcp); jit->enableExecution(); }
				for (int t = 0; t < 8; ++t) {
					uint64_t in[8]; for (auto& x : in) x = rng.next();
					uint64_t a[8], b[8]; memcpy(a, in, 64); memcpy(b, in, 64);
					{ ip::Api s("executeSuperscalar"); randomx::executeSuperscalar(a, single[0], &rcp); }
					{ ip::Api s("native-superscalar"); rxv_ss_call(entry, b, zero); }
					// model executor on the raw program
					mdl::SsProgram mp; for (unsigned j = 0; j < progs[pi].getSize(); ++j) { auto& x = progs[pi](j); mp.ins.push_back({ x.opcode, x.dst, x.src, x.mod, x.getImm32() }); }
					uint64_t c[8]; memcpy(c, in, 64); mdl::executeSuperscalar(c, mp);
					if (memcmp(a, b, 64)) R.violation("C09:differential:interpreter-vs-native-single-program", "{\"key\":\"" + keyHex + "\",\"program\":" + std::to_string(pi) + ",\"input\":\"" + hex(in, 64) + "\"}");
					if (memcmp(a, c, 64)) R.violation("C09:model:interpreter-vs-spec-semantics", "{\"key\":\"" + keyHex + "\",\"program\":" + std::to_string(pi) + ",\"input\":\"" + hex(in, 64) + "\"}");
					R.count("single_program_native");
				}
			}
		}
		// edge immediates: a generated program's 32-bit immediates (IADD_C7/8/9, IXOR_C7/8/9) and reciprocals are free values - any of
		// them is produced by some key - but a given key only carries random ones. Substitute values at the encoding boundaries
		// (imm8 / imm32 sign and size limits, reciprocals of divisors next to powers of two) and compare the three executors again.
		if (allOk && (ki % 2 == 0)) {
			static const uint32_t edgeImm[] = { 0, 1, 0x7f, 0x80, 0x81, 0xff, 0x100, 0x7fff, 0x8000, 0xffff, 0x10000, 0x7fffffff, 0x80000000u, 0x80000001u, 0xffffff7fu, 0xffffff80u, 0xffffff81u, 0xffffffffu, 0xfffffffeu, 0x55555555u, 0xaaaaaaaau };
			static const uint32_t edgeDiv[] = { 3, 5, 0x7fffffffu, 0x80000001u, 0x80000003u, 0xffffffffu, 0xfffffffdu, 0x10001u, 0xffff, 0x40000001u, 0xc0000001u, 0x81u, 0xff };
			for (unsigned round = 0; round < sizeof edgeImm / sizeof edgeImm[0]; ++round) {
				randomx::SuperscalarProgramList ed = progs; std::vector<uint64_t> rcp2; std::vector<mdl::SsProgram> mps(8);
				unsigned nthImm = 0, nthDiv = 0;
				for (int q = 0; q < 8; ++q) for (unsigned j = 0; j < ed[q].getSize(); ++j) {
					auto& ins = ed[q](j);
					if (ins.opcode >= 5 && ins.opcode <= 10) ins.setImm32(edgeImm[(round + nthImm++) % (sizeof edgeImm / sizeof edgeImm[0])]); // IADD_C7..IXOR_C9
					else if (ins.opcode == 13) ins.setImm32(edgeDiv[(round + nthDiv++) % (sizeof edgeDiv / sizeof edgeDiv[0])]);
					mps[q].ins.push_back({ ins.opcode, ins.dst, ins.src, ins.mod, ins.getImm32() });
					if (ins.opcode == 13) { uint64_t r = randomx_reciprocal(ins.getImm32()); ins.setImm32((uint32_t)rcp2.size()); rcp2.push_back(r); }
				}
				{ ip::Api s("generateSuperscalarHash"); jit->enableWriting(); jit->generateSuperscalarHash(ed, rcp2); jit->enableExecution(); }
				uint8_t* entry = jit->getCode() + 16384 + sshInitSize;
				for (int t = 0; t < 3; ++t) {
					uint64_t in[8]; for (auto& x : in) x = t == 0 ? rng.next() : t == 1 ? ~0ULL : (rng.next() & 0xffffffffULL);
					uint64_t a[8], b[8], c[8]; memcpy(a, in, 64); memcpy(b, in, 64); memcpy(c, in, 64);
					{ ip::Api s("executeSuperscalar"); for (auto& p : ed) randomx::executeSuperscalar(a, p, &rcp2); }
					{ ip::Api s("native-superscalar"); rxv_ss_call(entry, b, zero); }
					for (auto& mp : mps) mdl::executeSuperscalar(c, mp);
					if (memcmp(a, b, 64)) R.violation("C09:differential:interpreter-vs-native:edge-immediates", "{\"key\":\"" + keyHex + "\",\"round\":" + std::to_string(round) + ",\"input\":\"" + hex(in, 64) + "\",\"interpreter\":\"" + hex(a, 64) + "\",\"native\":\"" + hex(b, 64) + "\"}");
					if (memcmp(a, c, 64)) R.violation("C09:model:interpreter-vs-spec-semantics:edge-immediates", "{\"key\":\"" + keyHex + "\",\"round\":" + std::to_string(round) + ",\"input\":\"" + hex(in, 64) + "\"}");
					R.count("edge_immediate_executions");
				}
			}
		}
		R.nontrivial(fnv1a(key.data(), key.size()) ^ (key.size() << 56));
		if (ki < 2) R.sample("{\"key\":\"" + keyHex + "\",\"sizes\":[" + [&] { std::string s; for (int i = 0; i < 8; ++i) s += (i ? "," : "") + std::to_string(progs[i].getSize()); return s; }() + "],\"program0_head\":" + progJson(progs[0], 6) + "}");
		R.clearCase();
	}
	{ ip::Api s("delete JitCompiler"); delete jit; }
	return 0;
}
