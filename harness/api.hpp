// Client-boundary wrappers around the public RandomX API: every library call made by the harness
// goes through one of these, so that the interposition layer is active exactly while the library
// runs, mappings are tagged with their owner kind, and (optionally) call/return times are logged.
#pragma once
#include "rxv.hpp"
#include "randomx.h"
#include <atomic>
#include <time.h>

namespace rxv { namespace api {

enum CallKind : uint8_t { C_ALLOC_CACHE, C_INIT_CACHE, C_RELEASE_CACHE, C_ALLOC_DATASET, C_INIT_DATASET, C_RELEASE_DATASET,
	C_CREATE_VM, C_DESTROY_VM, C_SET_CACHE, C_SET_DATASET, C_HASH, C_HASH_FIRST, C_HASH_NEXT, C_HASH_LAST, C_GET_FLAGS, C_COMMIT, C_NKINDS };
static const char* const callKindNames[] = { "alloc_cache", "init_cache", "release_cache", "alloc_dataset", "init_dataset", "release_dataset",
	"create_vm", "destroy_vm", "set_cache", "set_dataset", "hash", "hash_first", "hash_next", "hash_last", "get_flags", "commitment" };

struct CallRec { uint64_t t0, t1; uint32_t thread; uint8_t kind; };
struct CallLog {
	static const size_t cap = 1u << 20;
	CallRec* recs = nullptr;
	std::atomic<size_t> n{ 0 };
	std::atomic<bool> on{ false };
	void enable() { if (!recs) recs = new CallRec[cap]; n = 0; on = true; }
	size_t size() const { size_t k = n.load(); return k > cap ? cap : k; }
};
inline CallLog& callLog() { static CallLog l; return l; }
inline uint64_t nowNs() { timespec ts; clock_gettime(CLOCK_MONOTONIC, &ts); return (uint64_t)ts.tv_sec * 1000000000ULL + ts.tv_nsec; }
inline uint32_t& threadIndex() { static thread_local uint32_t t = 0; return t; }

struct Scope {
	ip::Api api;
	uint8_t kind; uint64_t t0;
	Scope(uint8_t k, const char* name) : api(name), kind(k), t0(callLog().on ? nowNs() : 0) {}
	~Scope() {
		CallLog& l = callLog();
		if (l.on) { size_t i = l.n.fetch_add(1); if (i < CallLog::cap) l.recs[i] = { t0, nowNs(), threadIndex(), kind }; }
	}
};

inline randomx_flags getFlags() { Scope s(C_GET_FLAGS, "get_flags"); return randomx_get_flags(); }
inline randomx_cache* allocCache(randomx_flags f) { ip::tagNextMappings(ip::TAG_CACHE); Scope s(C_ALLOC_CACHE, "alloc_cache"); return randomx_alloc_cache(f); }
inline void initCache(randomx_cache* c, const void* key, size_t n) { ip::tagNextMappings(ip::TAG_CACHE); Scope s(C_INIT_CACHE, "init_cache"); randomx_init_cache(c, key, n); }
inline void releaseCache(randomx_cache* c) { Scope s(C_RELEASE_CACHE, "release_cache"); randomx_release_cache(c); }
inline randomx_dataset* allocDataset(randomx_flags f) { ip::tagNextMappings(ip::TAG_NONE); Scope s(C_ALLOC_DATASET, "alloc_dataset"); return randomx_alloc_dataset(f); }
inline void initDataset(randomx_dataset* d, randomx_cache* c, unsigned long start, unsigned long count) { Scope s(C_INIT_DATASET, "init_dataset"); randomx_init_dataset(d, c, start, count); }
inline void releaseDataset(randomx_dataset* d) { Scope s(C_RELEASE_DATASET, "release_dataset"); randomx_release_dataset(d); }
inline randomx_vm* createVm(randomx_flags f, randomx_cache* c, randomx_dataset* d) {
	ip::tagNextMappings((f & RANDOMX_FLAG_SECURE) ? ip::TAG_SECURE_VM : ip::TAG_PLAIN_VM);
	Scope s(C_CREATE_VM, "create_vm"); return randomx_create_vm(f, c, d);
}
inline void destroyVm(randomx_vm* v) { Scope s(C_DESTROY_VM, "destroy_vm"); randomx_destroy_vm(v); }
inline void setCache(randomx_vm* v, randomx_cache* c) { Scope s(C_SET_CACHE, "vm_set_cache"); randomx_vm_set_cache(v, c); }
inline void setDataset(randomx_vm* v, randomx_dataset* d) { Scope s(C_SET_DATASET, "vm_set_dataset"); randomx_vm_set_dataset(v, d); }
inline void hash(randomx_vm* v, const void* in, size_t n, void* out) { Scope s(C_HASH, "calculate_hash"); randomx_calculate_hash(v, in, n, out); }
inline void hashFirst(randomx_vm* v, const void* in, size_t n) { Scope s(C_HASH_FIRST, "hash_first"); randomx_calculate_hash_first(v, in, n); }
inline void hashNext(randomx_vm* v, const void* in, size_t n, void* out) { Scope s(C_HASH_NEXT, "hash_next"); randomx_calculate_hash_next(v, in, n, out); }
inline void hashLast(randomx_vm* v, void* out) { Scope s(C_HASH_LAST, "hash_last"); randomx_calculate_hash_last(v, out); }
inline void commitment(const void* in, size_t n, const void* h, void* out) { Scope s(C_COMMIT, "commitment"); randomx_calculate_commitment(in, n, h, out); }

}} // namespace
