// C10: the cache is the Argon2d memory fill and is identical across implementations.
#include "rxv.hpp"
#include "api.hpp"
#include "cases.hpp"
#include "vmutil.hpp"
#include "model/argon2d.hpp"
#include "argon2.h"
#include "argon2_core.h"
#include <cstdlib>

using namespace rxv;

namespace {
struct Impl { const char* name; randomx_flags flag; randomx_argon2_impl* fn; };
std::vector<Impl> impls() {
	std::vector<Impl> v;
	const randomx_flags hw = api::getFlags();
	v.push_back({ "ref", RANDOMX_FLAG_DEFAULT, &randomx_argon2_fill_segment_ref });
	if (hw & RANDOMX_FLAG_ARGON2_SSSE3) v.push_back({ "ssse3", RANDOMX_FLAG_ARGON2_SSSE3, randomx_argon2_impl_ssse3() });
	if (hw & RANDOMX_FLAG_ARGON2_AVX2) v.push_back({ "avx2", RANDOMX_FLAG_ARGON2_AVX2, randomx_argon2_impl_avx2() });
	return v;
}
size_t firstDiff(const uint8_t* a, const uint8_t* b, size_t n) { size_t i = 0; while (i < n && a[i] == b[i]) ++i; return i; }

// drives the library's fill entry points on a reduced instance, exactly as initCache does for the full one
void realFill(randomx_argon2_impl* impl, uint8_t* mem, uint32_t m, uint32_t t, const uint8_t* pwd, uint32_t pwdlen, const uint8_t* salt, uint32_t saltlen) {
	argon2_instance_t instance; argon2_context context;
	memset(&instance, 0, sizeof instance); memset(&context, 0, sizeof context);
	context.out = nullptr; context.outlen = 0;
	context.pwd = (uint8_t*)pwd; context.pwdlen = pwdlen;
	context.salt = (uint8_t*)salt; context.saltlen = saltlen;
	context.t_cost = t; context.m_cost = m; context.lanes = 1; context.threads = 1;
	context.flags = ARGON2_DEFAULT_FLAGS; context.version = ARGON2_VERSION_NUMBER;
	instance.version = context.version; instance.passes = t; instance.memory_blocks = m;
	instance.segment_length = m / ARGON2_SYNC_POINTS; instance.lane_length = instance.segment_length * ARGON2_SYNC_POINTS;
	instance.lanes = 1; instance.threads = 1; instance.type = Argon2_d; instance.memory = (block*)mem; instance.impl = impl;
	ip::Api scope("argon2-fill");
	randomx_argon2_initialize(&instance, &context);
	randomx_argon2_fill_memory_blocks(&instance);
}
}

RXV_SUBCOMMAND(c10) {
	Rng rng(args.seed, 0xc10, args.shard);
	const bool thorough = args.thorough();
	auto IM = impls();
	for (const char* f : { "full_caches_compared_impl_pairs", "full_cache_bytes_vs_model", "reduced_instances", "reinit_chains", "impl_ref" }) R.floorKey(f);
	for (auto& im : IM) R.count(std::string("impl_") + im.name);
	R.note("implementations", "\"" + [&] { std::string s; for (auto& im : IM) s += std::string(im.name) + " "; return s; }() + "\"");

	// ---- full-size caches: one key per shard (and more in the thorough tier)
	const uint64_t nKeys = args.num("fullkeys", 1);
	for (uint64_t ki = 0; ki < nKeys; ++ki) {
		// key lengths crossing the Blake2b block boundary of the H0 input (40 fixed bytes precede the key, 4+8+4+4 follow)
		static const size_t lens[] = { 32, 0, 1, 8, 55, 56, 60, 63, 64, 65, 71, 72, 73, 127, 128, 129, 200, 500, 12, 59, 61 };
		const uint64_t index = args.shard + args.nshards * ki;
		std::vector<uint8_t> key(index < sizeof lens / sizeof lens[0] ? lens[index] : rng.below(300));
		rng.fill(key.data(), key.size());
		if (index % 3 == 2) for (auto& b : key) b &= 1;
		const std::string keyHex = hex(key.data(), key.size());
		R.setCase("{\"key\":\"" + keyHex + "\",\"stage\":\"full\"}");
		std::vector<uint64_t> model((size_t)262144 * 128);
		mdl::Argon2d::fill(model.data(), 262144, 3, key.data(), (uint32_t)key.size(), "RandomX\x03", 8);
		std::vector<randomx_cache*> caches;
		for (auto& im : IM) {
			randomx_cache* c = api::allocCache(im.flag);
			if (!c) R.harnessFail(std::string("alloc_cache ") + im.name);
			api::initCache(c, cases::nn(key), key.size());
			caches.push_back(c);
			const uint8_t* mem = (const uint8_t*)randomx_get_cache_memory(c);
			size_t d = firstDiff(mem, (const uint8_t*)model.data(), 268435456);
			if (d != 268435456) R.violation(std::string("C10:model:cache-differs-from-argon2d:") + im.name, "{\"key\":\"" + keyHex + "\",\"first_diff_block\":" + std::to_string(d / 1024) + ",\"offset_in_block\":" + std::to_string(d % 1024) + "}");
			R.count("full_cache_bytes_vs_model", 268435456);
		}
		for (size_t i = 1; i < caches.size(); ++i) {
			size_t d = firstDiff((const uint8_t*)randomx_get_cache_memory(caches[0]), (const uint8_t*)randomx_get_cache_memory(caches[i]), 268435456);
			if (d != 268435456) R.violation(std::string("C10:differential:ref-vs-") + IM[i].name, "{\"key\":\"" + keyHex + "\",\"first_diff_block\":" + std::to_string(d / 1024) + "}");
			R.count("full_caches_compared_impl_pairs");
		}
		// re-initialisation leaves no trace: A -> B -> A on one object (each implementation), compared with the model of B / A;
		// redundant init with the unchanged key in between
		{
			std::vector<uint8_t> keyB = cases::makeKey(rng, 1000 + index);
			if (keyB == key) keyB.push_back(7);
			std::vector<uint64_t> modelB((size_t)262144 * 128);
			mdl::Argon2d::fill(modelB.data(), 262144, 3, keyB.data(), (uint32_t)keyB.size(), "RandomX\x03", 8);
			const size_t which = index % caches.size();
			randomx_cache* c = caches[which];
			api::initCache(c, cases::nn(keyB), keyB.size());
			if (memcmp(randomx_get_cache_memory(c), modelB.data(), 268435456)) R.violation(std::string("C10:model:reinit-leaves-trace:") + IM[which].name, "{\"keyA\":\"" + keyHex + "\",\"keyB\":\"" + hex(keyB.data(), keyB.size()) + "\"}");
			api::initCache(c, cases::nn(keyB), keyB.size()); // redundant
			if (memcmp(randomx_get_cache_memory(c), modelB.data(), 268435456)) R.violation(std::string("C10:model:redundant-init-changed-cache:") + IM[which].name, "{}");
			api::initCache(c, cases::nn(key), key.size());
			if (memcmp(randomx_get_cache_memory(c), model.data(), 268435456)) R.violation(std::string("C10:model:reinit-leaves-trace:") + IM[which].name, "{\"keyA\":\"" + hex(keyB.data(), keyB.size()) + "\",\"keyB\":\"" + keyHex + "\"}");
			R.count("reinit_chains");
		}
		for (auto* c : caches) api::releaseCache(c);
		R.evaluation();
		R.nontrivial(fnv1a(key.data(), key.size()) ^ 0x10);
		R.sample("{\"key\":\"" + keyHex + "\",\"first_block_head\":\"" + hex(model.data(), 16) + "\",\"last_block_head\":\"" + hex(model.data() + (size_t)262143 * 128, 16) + "\"}");
		R.clearCase();
	}

	// ---- reduced instances through the same fill entry points
	const uint32_t ms[] = { 8, 12, 16, 20, 24, 64, 100, 1024, 4096, 65536 };
	uint64_t k = 0;
	const int reps = thorough ? 10 : 1;
	for (int rep = 0; rep < reps; ++rep) for (uint32_t m : ms) for (uint32_t t = 1; t <= 4; ++t) {
		if (k++ % args.nshards != args.shard) continue;
		std::vector<uint8_t> pwd = cases::makeKey(rng, 50 + k);
		std::vector<uint8_t> salt(rep % 2 ? 8 + rng.below(24) : 8); if (rep % 2) rng.fill(salt.data(), salt.size()); else memcpy(salt.data(), "RandomX\x03", 8);
		char cj[400]; snprintf(cj, sizeof cj, "{\"m\":%u,\"t\":%u,\"pwd\":\"%s\",\"salt\":\"%s\"}", m, t, hex(pwd.data(), pwd.size() > 64 ? 64 : pwd.size()).c_str(), hex(salt.data(), salt.size()).c_str());
		R.setCase(cj);
		std::vector<uint64_t> model((size_t)m * 128);
		mdl::Argon2d::fill(model.data(), m, t, pwd.data(), (uint32_t)pwd.size(), salt.data(), (uint32_t)salt.size());
		for (auto& im : IM) {
			void* mem = nullptr; if (posix_memalign(&mem, 64, (size_t)m * 1024) != 0) R.harnessFail("alloc");
			memset(mem, 0xEE, (size_t)m * 1024);
			realFill(im.fn, (uint8_t*)mem, m, t, cases::nn(pwd), (uint32_t)pwd.size(), salt.data(), (uint32_t)salt.size());
			size_t d = firstDiff((const uint8_t*)mem, (const uint8_t*)model.data(), (size_t)m * 1024);
			if (d != (size_t)m * 1024) { char b[600]; snprintf(b, sizeof b, "{\"case\":%s,\"first_diff_block\":%zu}", cj, d / 1024); R.violation(std::string("C10:model:reduced-instance:") + im.name, b); }
			free(mem);
		}
		R.count("reduced_instances"); R.evaluation();
		R.nontrivial(fnv1a(cj, strlen(cj)));
		if (k % 9 == 0) R.sample(cj);
		R.clearCase();
	}
	return 0;
}
