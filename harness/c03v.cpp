// C03, clause "or the heap contents the objects were allocated over" - run under valgrind memcheck (driver job key "valgrind").
// The guard allocator's garbage fill makes a dependence on uninitialised HEAP bytes visible as a wrong digest, but it cannot
// reach stack temporaries and it defines every byte it touches. Memcheck tracks definedness bit by bit through the real code
// (generated code included): a digest, dataset item or branch that depends on a byte nobody wrote is reported when it reaches a
// conditional jump, an address or - for results - the explicit definedness checks below. Values are not judged here.
#include "rxv.hpp"
#include "api.hpp"
#include "vmutil.hpp"
#include "cases.hpp"
#include <valgrind/memcheck.h>

using namespace rxv;

namespace {
void mustBeDefined(const void* p, size_t n, const std::string& what, const std::string& cj) {
	if (!RUNNING_ON_VALGRIND) return;
	const unsigned long bad = VALGRIND_CHECK_MEM_IS_DEFINED(p, n); // also prints a memcheck error with the origin
	if (bad) R.violation("C03:definedness:" + what + "-depends-on-uninitialised-memory", cj);
	R.count("definedness_checks");
}
}

RXV_SUBCOMMAND(c03v) {
	Rng rng(args.seed, 0xc03f, args.shard);
	ip::enableGuards(false); ip::setGarbageSeed(0); // memcheck keeps its own shadow; nothing may pre-define library memory
	ip::setHugePages(1);
	const randomx_flags hw = api::getFlags();
	for (const char* f : { "definedness_checks", "vm_classes", "hashes", "dataset_items", "oracle_positive_controls" }) R.floorKey(f);
	if (!RUNNING_ON_VALGRIND) R.note("warning", "\"not running under valgrind: only the workload ran\"");
	else {
		// positive control: the oracle must see an undefined byte where there is one
		uint8_t* u = (uint8_t*)malloc(32); u[0] = 1;
		VALGRIND_DISABLE_ERROR_REPORTING; const unsigned long bad = VALGRIND_CHECK_MEM_IS_DEFINED(u, 32); VALGRIND_ENABLE_ERROR_REPORTING;
		free(u);
		if (!bad) R.harnessFail("memcheck does not report an undefined byte (positive control)");
		R.count("oracle_positive_controls");
	}
	std::vector<uint8_t> keyA = cases::makeKey(rng, 3 + args.shard), keyB = cases::makeKey(rng, 9 + args.shard);
	std::vector<uint8_t> in0 = cases::makeInput(rng, 2), in1 = cases::makeInput(rng, 8);
	const int argon = (int)(hw & (RANDOMX_FLAG_ARGON2_AVX2 | RANDOMX_FLAG_ARGON2_SSSE3));
	// the interpreted light classes are slow under memcheck: a reduced number of loop iterations keeps every code path
	auto& hk = randomx_verif::hooks();
	const std::string cj = "{\"shard\":" + std::to_string(args.shard) + "}";
	R.setCase(cj);

	randomx_cache* cj1 = api::allocCache((randomx_flags)(RANDOMX_FLAG_JIT | (args.shard & 1 ? argon : 0)));
	randomx_cache* cd1 = api::allocCache((randomx_flags)((args.shard & 1) ? RANDOMX_FLAG_LARGE_PAGES : 0));
	if (!cj1 || !cd1) R.harnessFail("caches");
	api::initCache(cj1, cases::nn(keyA), keyA.size());
	api::initCache(cd1, cases::nn(keyA), keyA.size());
	// cache contents: every byte must have been written (sampled lines + the ends)
	for (randomx_cache* c : { cj1, cd1 }) {
		const uint8_t* m = (const uint8_t*)randomx_get_cache_memory(c);
		mustBeDefined(m, 4096, "cache-head", cj); mustBeDefined(m + 268435456 - 4096, 4096, "cache-tail", cj);
		for (int k = 0; k < 64; ++k) mustBeDefined(m + (rng.below(268435456 / 1024)) * 1024, 1024, "cache-block", cj);
	}
	// dataset items by both initialisers (small counts use the stack bounce buffer)
	{
		std::vector<uint8_t> buf(64 * 16);
		randomx_dataset fake; fake.memory = buf.data(); fake.dealloc = nullptr;
		const unsigned long counts[] = { 1, 2, 3, 4, 5, 7, 8, 13 };
		const unsigned long total = randomx_dataset_item_count();
		for (randomx_cache* c : { cj1, cd1 }) for (int atEnd = 0; atEnd < 2; ++atEnd) for (unsigned long cnt : counts) {
			if (atEnd && cnt > 5) continue;
			std::vector<uint8_t> tmp(64 * cnt);
			const unsigned long start = atEnd ? total - cnt : (unsigned long)rng.below(total - 16);
			fake.memory = tmp.data() - (size_t)start * 64; // item `start` lands at tmp[0]
			api::initDataset(&fake, c, start, cnt);
			mustBeDefined(tmp.data(), tmp.size(), c == cj1 ? "dataset-item-compiled" : "dataset-item-interpreter", cj);
			R.count("dataset_items", cnt);
		}
	}
	const int classes[] = { 0, RANDOMX_FLAG_JIT, RANDOMX_FLAG_JIT | RANDOMX_FLAG_SECURE, RANDOMX_FLAG_SECURE, RANDOMX_FLAG_LARGE_PAGES | RANDOMX_FLAG_JIT };
	for (int ci = 0; ci < 5; ++ci) for (int aes = 0; aes < 2; ++aes) {
		if (aes && !(hw & RANDOMX_FLAG_HARD_AES)) continue;
		if ((ci * 2 + aes) % 2 != (int)(args.shard % 2) && args.nshards > 1) continue; // split the classes over two shards
		const int f = classes[ci] | (aes ? RANDOMX_FLAG_HARD_AES : 0);
		const bool jit = (f & RANDOMX_FLAG_JIT) != 0;
		randomx_vm* vm = api::createVm((randomx_flags)f, jit ? cj1 : cd1, nullptr);
		if (!vm) R.harnessFail("create_vm " + flagsName(f));
		hk.iterLimit = jit ? 256 : 48;
		uint8_t d[4][32];
		for (int v2 = 0; v2 < 2; ++v2) {
			{ ip::Api sc("setFlagV2"); if (v2) vm->setFlagV2(); else vm->clearFlagV2(); }
			api::hash(vm, in0.data(), in0.size(), d[0]);
			mustBeDefined(d[0], 32, "digest", cj);
			api::hashFirst(vm, in0.data(), in0.size()); api::hashNext(vm, in1.data(), in1.size(), d[1]); api::hashLast(vm, d[2]);
			mustBeDefined(d[1], 32, "batch-digest", cj); mustBeDefined(d[2], 32, "batch-digest", cj);
			R.count("hashes", 3);
		}
		// re-key + re-bind, then hash again (history on top of recycled heap blocks)
		if (ci == 1) {
			api::initCache(cj1, cases::nn(keyB), keyB.size()); api::setCache(vm, cj1);
			api::hash(vm, in1.data(), in1.size(), d[3]); mustBeDefined(d[3], 32, "digest-after-rekey", cj);
			R.count("hashes"); // cj1 keeps key B from here on (values are not judged in this job)
		}
		mustBeDefined(vm->getRegisterFile(), 256, "register-file", cj);
		api::destroyVm(vm);
		hk.iterLimit = 0;
		R.count("vm_classes"); R.evaluation(); R.nontrivial(fnv1a(&f, sizeof f, args.shard));
	}
	// commitment
	{ uint8_t h[32], c[32]; memset(h, 7, 32); api::commitment(in0.data(), in0.size(), h, c); mustBeDefined(c, 32, "commitment", cj); }
	R.sample("{\"memcheck\":" + std::string(RUNNING_ON_VALGRIND ? "true" : "false") + ",\"keys\":[\"" + hex(keyA.data(), keyA.size()) + "\",\"" + hex(keyB.data(), keyB.size()) + "\"],\"inputs\":[" + std::to_string(in0.size()) + "," + std::to_string(in1.size()) + "]}");
	api::releaseCache(cj1); api::releaseCache(cd1);
	R.clearCase();
	return 0;
}
