#!/bin/bash
# disasm.sh <code.bin> : disassembles a raw dump of the emitter's code buffer (a64emu::dumpCode) as AArch64
set -euo pipefail
IN=${1:?usage: disasm.sh <code.bin>}
TMP=$(mktemp --suffix=.o)
trap 'rm -f "$TMP"' EXIT
llvm-objcopy-14 -I binary -O elf64-littleaarch64 --rename-section .data=.text,code,alloc "$IN" "$TMP"
llvm-objdump-14 -d --mattr=+crypto --no-show-raw-insn "$TMP" | sed -e 's/^ *\([0-9a-f]*\):/+0x\1:/'
