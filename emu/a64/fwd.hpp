// Pre-included (-include fwd.hpp) when src/jit_compiler_a64.cpp is compiled on a non-AArch64 host:
// common.hpp only forward-declares JitCompilerA64 under __aarch64__, but jit_compiler_a64.hpp needs the
// name for its member-function-pointer typedef before the class definition.
#pragma once
namespace randomx { class JitCompilerA64; }
