#!/bin/bash
# Sensitivity experiment: mutate a scratch COPY of the emitter (jit_compiler_a64.cpp) or of the hand-written runtime
# (jit_compiler_a64_static.S) -- one opcode constant / register / mask per mutant -- rebuild the self-test with the
# mutated file and check that the self-test FAILS (exit 1).  Nothing under $REPO is modified.
#   sensitivity.sh [self-test options; default: -quick]
# environment: REPO (default /repo), SCRATCH (default /tmp/emu-a64-scratch), JOBS (default 4)
set -uo pipefail
HERE=$(cd "$(dirname "$0")" && pwd)
export REPO=${REPO:-/repo}
export SCRATCH=${SCRATCH:-/tmp/emu-a64-scratch}
JOBS=${JOBS:-4}
ARGS=("$@"); [ ${#ARGS[@]} -eq 0 ] && ARGS=(-quick)
MUT="$SCRATCH/mutants"
rm -rf "$MUT"; mkdir -p "$MUT"

# name @@ file (cpp or S) @@ sed program @@ what
MUTANTS=(
'umulh-opcode@@cpp@@s/UMULH       = 0x9BC07C00/UMULH       = 0x9B407C00/@@opcode constant: UMULH emitted as SMULH'
'fdiv-opcode@@cpp@@s/FDIV        = 0x6E60FC00/FDIV        = 0x6E60DC00/@@opcode constant: FDIV emitted as FMUL'
'intregmap@@cpp@@s/IntRegMap\[8\] = { 4, 5, 6, 7,/IntRegMap[8] = { 5, 4, 6, 7,/@@emitted register: r0 and r1 swapped (x4 <-> x5)'
'irol-imm@@cpp@@s/((-instr.getImm32() \& 63) << 10)/((instr.getImm32() \& 63) << 10)/@@IROL_R immediate not negated'
'cbranch-bit@@cpp@@s/\& ~(1U << (shift - 1))/\& ~(1U << (shift - 2))/@@CBRANCH clears the wrong immediate bit'
'cfround-bfi@@cpp@@s/0xB3580400 | fpcr_tmp_reg/0xB3590400 | fpcr_tmp_reg/@@CFROUND: bfi inserts at bit 39 instead of 40'
'fp-l1-mask@@cpp@@0,/Log2(RANDOMX_SCRATCHPAD_L1) - 4/s//Log2(RANDOMX_SCRATCHPAD_L1) - 5/@@integer memory load: L1 mask one bit short'
'istore-l3@@cpp@@s/instr.getModCond() < StoreL3Condition)$/instr.getModCond() <= StoreL3Condition)/@@ISTORE: L3 condition off by one (first occurrence: immediate mask)'
'ss-imulh@@cpp@@s/emit32(ARMV8A::UMULH | dst | (dst << 5) | (src << 16), code, codePos);/emit32(ARMV8A::SMULH | dst | (dst << 5) | (src << 16), code, codePos);/@@SuperscalarHash IMULH_R emitted as SMULH'
'ss-ror@@cpp@@s/ROR_IMM | dst | (dst << 5) | ((instr.getImm32() \& 63) << 10) | (dst << 16), code, codePos);\(.*\)$/ROR_IMM | dst | (dst << 5) | ((instr.getImm32() \& 31) << 10) | (dst << 16), code, codePos);\1/@@IROR_C / IROR_R rotate count masked with 31'
'f1-revert@@cpp@@s/if (neg < (1 << 24))/if (true)/@@re-introduces finding F1 (ISUB_R imm32 = 0x80000000)'
'static-fe-mix@@S@@s/eor	v17.16b, v17.16b, v21.16b/eor	v17.16b, v17.16b, v20.16b/@@runtime: f1 ^= e0 instead of e1'
'static-aesd@@S@@s/aesd	v19.16b, v28.16b/aese	v19.16b, v28.16b/@@runtime: f3 uses AESE instead of AESD'
'static-ssconst@@S@@s/superscalarAdd3: .quad 9306329213124626780/superscalarAdd3: .quad 9306329213124626781/@@runtime: SuperscalarHash constant +1'
'static-scale@@S@@s/mov	x16, 0x80f0000000000000/mov	x16, 0x80e0000000000000/@@runtime: FSCAL_R mask'
)

run_one() {
	local spec="$1"
	local name kind sedprog what rest
	name=${spec%%@@*}; rest=${spec#*@@}; kind=${rest%%@@*}; rest=${rest#*@@}; sedprog=${rest%%@@*}; what=${rest#*@@}
	local dir="$MUT/$name"; mkdir -p "$dir/src"
	local status
	if [ "$kind" = cpp ]; then
		sed -e "$sedprog" "$REPO/src/jit_compiler_a64.cpp" > "$dir/jit_compiler_a64.cpp"
		if cmp -s "$REPO/src/jit_compiler_a64.cpp" "$dir/jit_compiler_a64.cpp"; then echo "$name|NOT-APPLIED|$what"; return; fi
		SKIP_HOSTLIB=1 BUILD_ONLY=1 BUILD_TAG="$name" EMITTER_SRC="$dir/jit_compiler_a64.cpp" "$HERE/build_test.sh" > "$dir/build.log" 2>&1 || { echo "$name|BUILD ERROR|$what"; return; }
	else
		cp "$REPO/src/configuration.h" "$dir/src/"
		sed -e "$sedprog" "$REPO/src/jit_compiler_a64_static.S" > "$dir/src/jit_compiler_a64_static.S"
		if cmp -s "$REPO/src/jit_compiler_a64_static.S" "$dir/src/jit_compiler_a64_static.S"; then echo "$name|NOT-APPLIED|$what"; return; fi
		SKIP_HOSTLIB=1 BUILD_ONLY=1 BUILD_TAG="$name" STATIC_REPO="$dir" "$HERE/build_test.sh" > "$dir/build.log" 2>&1 || { echo "$name|BUILD ERROR|$what"; return; }
	fi
	"$SCRATCH/build-plain-$name/a64emu_selftest" "${ARGS[@]}" > "$dir/log" 2>&1; status=$?
	local detail
	detail=$(grep -a -c "MISMATCH\|EMULATOR ERROR" "$dir/log")
	if [ $status -eq 1 ]; then echo "$name|DETECTED ($detail mismatch lines)|$what"; elif [ $status -eq 0 ]; then echo "$name|MISSED|$what"; else echo "$name|SETUP ERROR (exit $status)|$what"; fi
}

# the host library must exist before the parallel builds start (they share it)
BUILD_ONLY=1 "$HERE/build_test.sh" > "$MUT/baseline-build.log" 2>&1 || { cat "$MUT/baseline-build.log"; exit 2; }
"$SCRATCH/build-plain/a64emu_selftest" "${ARGS[@]}" > "$MUT/baseline.log" 2>&1; base=$?
echo "baseline (unmutated $REPO): exit $base ($(grep -a '^RESULT' "$MUT/baseline.log"))"

results="$MUT/results.txt"; : > "$results"
i=0
for m in "${MUTANTS[@]}"; do
	( run_one "$m" >> "$results" ) &
	i=$((i + 1)); if [ $((i % JOBS)) -eq 0 ]; then wait; fi
done
wait
sort "$results" | awk -F'|' '{ printf "%-16s %-34s %s\n", $1, $2, $3 }'
missed=$(grep -c "MISSED\|NOT-APPLIED\|ERROR" "$results")
echo "mutants: ${#MUTANTS[@]}, not detected / not applied / errors: $missed"
[ "$base" -eq 0 ] && [ "$missed" -eq 0 ]
