// AArch64 instruction-subset emulator + driver for the RandomX ARM64 JIT back-end (property C19).
//
// The emulator executes the machine code that the REAL, unmodified emitter src/jit_compiler_a64.cpp (compiled for the
// x86-64 host) writes into its code buffer, together with the REAL hand-written runtime jit_compiler_a64_static.S
// (cross-assembled for AArch64 and linked into the host binary as a data blob, see gen_static.sh).
// Guest addresses are host addresses.  See README.md.
#pragma once
#include <cstdint>
#include <cstddef>
#include <string>
#include <vector>
#include <memory>

struct randomx_cache;

namespace a64emu {

	struct RunResult {
		bool ok = false;              // the call returned to the caller and nothing below is set
		bool unmodelled = false;      // INCONCLUSIVE: an encoding / architectural corner the emulator does not model
		bool outOfBounds = false;     // FINDING: data access, store to read-only memory or control transfer outside the whitelist
		std::string error;            // empty when ok
		uint8_t reg[256] = {};        // randomx::RegisterFile after the call (runProgram only)
		uint64_t executed = 0;        // number of A64 instructions executed
		uint32_t fpcrRMode = 0;       // rounding mode at return, RANDOMX numbering (0 nearest, 1 down, 2 up, 3 zero)
		// extras (not required by the harness)
		bool budgetExhausted = false; // INCONCLUSIVE: instruction budget used up (see setInstructionBudget)
		bool undefinedInstr = false;  // FINDING: an architecturally UNDEFINED word (UDF / all-zero pool data) was executed
		bool abiViolation = false;    // FINDING: callee-saved register / SP not restored, misaligned SP used as base
		uint32_t fpcr = 0;            // raw FPCR at return
		uint64_t entryOffset = 0;     // offset of the entry point in the code buffer
	};

	// ---------------------------------------------------------------------------------------------------------------
	// Low-level CPU.  Usable on its own (the self-test uses it for unit tests of single encodings).
	// ---------------------------------------------------------------------------------------------------------------
	struct Region {
		uintptr_t base;
		size_t size;
		bool writable;
		std::string name;
	};

	struct VReg { uint64_t d[2]; };

	struct Insn;   // decoded instruction (a64emu.cpp)

	class Cpu {
	public:
		Cpu();
		~Cpu();
		Cpu(const Cpu&) = delete;
		Cpu& operator=(const Cpu&) = delete;

		// architectural state
		uint64_t x[31];
		uint64_t sp;
		VReg v[32];
		bool n, z, c, vf;     // NZCV
		uint32_t fpcr;

		// memory whitelist
		void clearRegions();
		void addRegion(const void* base, size_t size, bool writable, const char* name);
		// executable region: instruction fetch is only allowed here; it is also registered as a read-only data region
		void setCode(const void* base, size_t size);

		// Calls `entry` with the current register state: LR is set to a sentinel, execution ends when control returns
		// to it.  Returns true on a clean return.  On failure `error` and the classification flags are set.
		bool call(const void* entry, uint64_t instructionBudget);

		uint64_t executed = 0;
		std::string error;
		bool unmodelled = false, outOfBounds = false, budgetExhausted = false, undefinedInstr = false, abiViolation = false;

		// statistics: how many times each decoded class was executed, by name (filled when collectStats is set)
		bool collectStats = false;
		std::vector<uint64_t> opCount;
		static const char* opName(unsigned op);
		static unsigned opKinds();

		// decodes one word; returns the class name or nullptr when the encoding is not modelled (used by `a64scan`)
		static const char* classify(uint32_t word);

	private:
		std::vector<Region> regions_;
		const uint8_t* codeBase_ = nullptr;
		size_t codeSize_ = 0;
		std::vector<Insn> decoded_;
		int hintR_ = -1, hintW_ = -1;

		uint8_t* mem(uint64_t addr, size_t bytes, bool write, uint64_t pcOff);
		void failAccess(uint64_t addr, size_t bytes, bool write, uint64_t pcOff, const char* why);
		bool fail(const char* fmt, ...) __attribute__((format(printf, 2, 3)));
	};

	// ---------------------------------------------------------------------------------------------------------------
	// Driver: mirrors what randomx::CompiledVm / CompiledLightVm and randomx_init_dataset do around the generated code.
	// A Machine owns one JitCompilerA64 for its lifetime, exactly like a VM (or a cache) does, so code-buffer contents
	// of earlier programs persist into later ones as they do in the library.
	// ---------------------------------------------------------------------------------------------------------------
	class Machine {
	public:
		// flags: randomx_flags bit set given to JitCompilerA64::setFlags (RANDOMX_FLAG_V2 and RANDOMX_FLAG_HARD_AES are
		// the only bits the A64 emitter looks at; others are passed through unchanged)
		explicit Machine(int flags);
		~Machine();

		// CompiledVm::setFlagV2 / clearFlagV2 -> compiler.setFlags(): the same compiler (code buffer) is reused
		void setFlags(int flags);
		int flags() const;

		// light mode: CompiledLightVm::setCache -> generateSuperscalarHash(cache->programs, cache->reciprocalCache)
		void setCache(randomx_cache* cache);
		// full mode: CompiledVm::setDataset (pointer to a buffer of randomx::DatasetSize bytes)
		void setDataset(const uint8_t* datasetMemory);

		// CompiledVm::run / CompiledLightVm::run with `program` instead of the AES-generated program
		RunResult run(const uint8_t* program, uint8_t* scratchpad, unsigned iterations, unsigned entryRoundingMode);

		// randomx_init_dataset on a JIT-enabled cache: generateSuperscalarHash + generateDatasetInitCode, then
		// DatasetInitFunc(cache, out, startItem, endItem)
		RunResult initDataset(randomx_cache* cache, uint8_t* out, uint32_t startItem, uint32_t endItem);

		// the emitter's code buffer and sizes (for dumps)
		const uint8_t* code() const;
		size_t codeBufferSize() const;       // CodeSize + CalcDatasetItemSize
		size_t programCodeSize() const;      // CodeSize
		// extra entry FPCR bits (e.g. 1u<<24 = FZ); default 0 = what a Linux process has
		uint32_t entryFpcrExtra = 0;
		bool collectStats = false;
		std::vector<uint64_t> opCount;       // accumulated over runs when collectStats
		// additional read-only regions the caller wants to allow (none needed for the pinned tree)
		std::vector<Region> extraRegions;

	private:
		struct Impl;
		std::unique_ptr<Impl> impl_;
	};

	// One-shot helpers with the interface requested by the harness.  Each call uses a fresh Machine (fresh code buffer).
	RunResult runProgram(const uint8_t* program /*3200 bytes*/, uint8_t* scratchpad /*2 MiB, in/out*/, int flags,
		bool lightMode, randomx_cache* cache, const uint8_t* datasetMemory, unsigned iterations, unsigned entryRoundingMode);
	RunResult initDataset(randomx_cache* cache, uint8_t* out, uint32_t startItem, uint32_t endItem);

	// default 0 = automatic: 4,000,000 + 400,000 per iteration (program) / 100,000 per item (dataset init)
	void setInstructionBudget(uint64_t instructions);

	// writes the current code buffer of a fresh compile to `path` (for llvm-objdump -D -b binary -m aarch64)
	bool dumpCode(const Machine& m, const char* path);
}
