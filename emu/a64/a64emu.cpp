// AArch64 instruction-subset emulator + RandomX driver glue.  See a64emu.hpp / README.md.
//
// Build (host x86-64, g++ >= 12):
//   g++ -std=gnu++17 -O2 -DRANDOMX_VERIF -DNDEBUG -I<repo>/src -I/verif/model -c a64emu.cpp
//   g++ -std=gnu++17 -O2 -DRANDOMX_VERIF -DNDEBUG -I<repo>/src -include fwd.hpp -c <repo>/src/jit_compiler_a64.cpp
//   gcc -c <out>/a64_static_blob.S            (from gen_static.sh)
//   link with the host librandomx.a built with -DRANDOMX_VERIF (virtual_memory.c, reciprocal.c, soft_aes.cpp, ...)
#include "a64emu.hpp"

#include <cstdarg>
#include <cstdio>
#include <cstring>
#include <cinttypes>
#include <stdexcept>
#include <algorithm>

#include "softfloat.hpp"   // /verif/model
#include "aes.hpp"         // /verif/model

// ---- RandomX headers (host build of the pinned tree) ----
namespace randomx { class JitCompilerA64; }
#ifndef RANDOMX_VERIF
#error "compile with -DRANDOMX_VERIF (must match the host librandomx build: class layouts / hooks)"
#endif
#include "randomx.h"
#include "common.hpp"
#include "program.hpp"
#include "dataset.hpp"
#include "superscalar_program.hpp"
#include "virtual_machine.hpp"
#include "soft_aes.h"
#include "jit_compiler_a64.hpp"

// Note: no randomx_verif::Access is defined here (JitCompilerA64::getCode() is public), so the harness may define its own.

namespace a64emu {

	typedef unsigned __int128 u128;

	// =============================================================================================================
	// Decoded instruction
	// =============================================================================================================
	enum Op : uint16_t {
		OP_NONE = 0,
		// data processing, immediate
		OP_ADDSUB_IMM, OP_LOGIC_IMM, OP_MOVZ, OP_MOVN, OP_MOVK, OP_BFM, OP_EXTR, OP_ADR,
		// data processing, register
		OP_LOGIC_SREG, OP_ADDSUB_SREG, OP_MADD, OP_SMULH, OP_UMULH, OP_RORV, OP_RBIT,
		// branches / system
		OP_B, OP_BL, OP_BCOND, OP_RET, OP_MRS_FPCR, OP_MSR_FPCR,
		// loads / stores
		OP_LDR_LIT_X, OP_LDR_LIT_Q,
		OP_LDST_UIMM, OP_LDST_PRE, OP_LDST_POST, OP_LDST_REGOFF, OP_PRFM_UIMM,
		OP_LDSTP_OFF, OP_LDSTP_PRE, OP_LDSTP_POST,
		// SIMD / FP
		OP_INS_GEN, OP_UMOV, OP_SMOV, OP_INS_ELEM,
		OP_VORR, OP_VEOR, OP_VBIF,
		OP_FADD_2D, OP_FSUB_2D, OP_FMUL_2D, OP_FDIV_2D, OP_FSQRT_2D, OP_SCVTF_2D,
		OP_MOVI_4S, OP_FMOV_S_W,
		OP_AESE, OP_AESD, OP_AESMC, OP_AESIMC,
		OP_UDF,
		OP_COUNT
	};

	static const char* const kOpNames[OP_COUNT] = {
		"(none)",
		"add/sub/subs Xd|SP, Xn|SP, #imm12{, lsl 12}", "and Wd/Xd, orr Xd (mov bitmask), ands Xd (tst) #bitmask", "movz Xd", "movn Xd", "movk Xd", "ubfm/bfm Xd (lsr, bfi)", "extr Xd (ror #imm)", "adr",
		"orr/eor Wd|Xd, Rn, Rm (mov, eor)", "add/sub/subs Xd, Xn, Xm{, lsl #n} (neg, cmp)", "madd Xd (mul)", "smulh", "umulh", "rorv Xd", "rbit Xd",
		"b", "bl", "b.cond", "ret", "mrs Xt, FPCR", "msr FPCR, Xt",
		"ldr Xt, literal", "ldr Qt, literal",
		"ldr/str Xt|Qt, [Xn|SP, #uimm]", "str Xt, [Xn|SP, #simm]!", "ldr Xt, [Xn|SP], #simm", "ldr/str Wt|Xt, [Xn, Xm{, lsl #s}]", "prfm [Xn, #uimm]",
		"ldp/stp Xt|Dt|Qt, ldpsw [Xn|SP, #simm]", "stp Xt, Xt2, [Xn|SP, #simm]!", "ldp Xt, Xt2, [Xn|SP], #simm",
		"ins Vd.S|D[i], Rn", "umov Wd, Vn.B|S[i]", "smov Xd, Vn.S[i]", "ins Vd.D[i], Vn.D[j]",
		"orr v.16b (mov)", "eor v.16b", "bif v.16b",
		"fadd v.2d", "fsub v.2d", "fmul v.2d", "fdiv v.2d", "fsqrt v.2d", "scvtf v.2d (int64 -> f64)",
		"movi v.4s, #imm8", "fmov Sd, Wn",
		"aese", "aesd", "aesmc", "aesimc",
		"udf / undefined",
	};

	struct Insn {
		uint16_t op;
		uint8_t rd, rn, rm, ra;
		uint8_t sf;        // 1 = 64-bit integer operation
		uint8_t a, b, c;   // small fields, meaning depends on op
		int64_t imm;
	};

	const char* Cpu::opName(unsigned op) { return op < OP_COUNT ? kOpNames[op] : "?"; }
	unsigned Cpu::opKinds() { return OP_COUNT; }

	static inline uint32_t bits(uint32_t w, int hi, int lo) { return (w >> lo) & ((1u << (hi - lo + 1)) - 1u); }
	static inline uint32_t bit(uint32_t w, int b) { return (w >> b) & 1u; }
	static inline int64_t sext(uint64_t v, int nbits) { const uint64_t m = 1ULL << (nbits - 1); v &= (nbits == 64) ? ~0ULL : ((1ULL << nbits) - 1); return (int64_t)((v ^ m) - m); }
	static inline uint64_t ror64(uint64_t v, unsigned s) { s &= 63; return s ? (v >> s) | (v << (64 - s)) : v; }

	// Arm ARM DecodeBitMasks (immediate = true); returns false for reserved encodings
	static bool decodeBitMasks(unsigned N, unsigned imms, unsigned immr, int datasize, uint64_t& wmask) {
		const unsigned combined = (N << 6) | (~imms & 0x3f);
		if (combined == 0) return false;
		int len = 6;
		while (!((combined >> len) & 1)) --len;   // highest set bit
		if (len < 1) return false;
		const int esize = 1 << len;
		if (esize > datasize) return false;
		const unsigned levels = esize - 1;
		const unsigned S = imms & levels, R = immr & levels;
		if (S == levels) return false;
		uint64_t welem = (S + 1 == 64) ? ~0ULL : ((1ULL << (S + 1)) - 1);
		// rotate right by R within esize
		if (R) {
			const uint64_t emask = (esize == 64) ? ~0ULL : ((1ULL << esize) - 1);
			welem = ((welem >> R) | (welem << (esize - R))) & emask;
		}
		uint64_t r = 0;
		for (int i = 0; i < datasize; i += esize) r |= welem << i;
		if (datasize == 32) r &= 0xffffffffULL;
		wmask = r;
		return true;
	}

	// -------------------------------------------------------------------------------------------------------------
	// Decoder.  Every fixed bit of the modelled encodings is checked; anything else -> false (unmodelled).
	// -------------------------------------------------------------------------------------------------------------
	static bool decode(uint32_t w, Insn& in) {
		memset(&in, 0, sizeof(in));
		in.rd = bits(w, 4, 0); in.rn = bits(w, 9, 5); in.rm = bits(w, 20, 16); in.ra = bits(w, 14, 10);
		in.sf = bit(w, 31);

		if (bits(w, 31, 16) == 0) { in.op = OP_UDF; in.imm = w; return true; }   // UDF #imm16 (permanently undefined)

		const uint32_t op0 = bits(w, 28, 25);

		// ---------------- data processing, immediate ----------------
		if ((op0 & 0xE) == 0x8) {
			const uint32_t sub = bits(w, 25, 23);
			if (sub == 0 || sub == 1) {      // ADR (ADRP is not used)
				if (bit(w, 31)) return false;
				in.op = OP_ADR; in.imm = sext(((uint64_t)bits(w, 23, 5) << 2) | bits(w, 30, 29), 21);
				return true;
			}
			if (sub == 2) {                  // add/sub immediate, 64-bit only; flag-setting only as SUBS
				if (!in.sf) return false;
				if (bit(w, 29) && !bit(w, 30)) return false;
				in.op = OP_ADDSUB_IMM; in.a = bit(w, 30) /*sub*/; in.b = bit(w, 29) /*S*/;
				in.imm = (int64_t)bits(w, 21, 10) << (bit(w, 22) ? 12 : 0);
				return true;
			}
			if (sub == 4) {                  // logical immediate
				const unsigned N = bit(w, 22);
				if (!in.sf && N) return false;
				uint64_t mask;
				if (!decodeBitMasks(N, bits(w, 15, 10), bits(w, 21, 16), in.sf ? 64 : 32, mask)) return false;
				const unsigned opc = bits(w, 30, 29);
				if (opc == 2) return false;                       // eor immediate: not used
				if ((opc == 1 || opc == 3) && !in.sf) return false;   // orr / ands immediate are only used in 64-bit form
				in.op = OP_LOGIC_IMM; in.a = (uint8_t)opc; in.imm = (int64_t)mask;
				return true;
			}
			if (sub == 5) {                  // move wide
				const unsigned opc = bits(w, 30, 29), hw = bits(w, 22, 21);
				if (opc == 1) return false;
				if (!in.sf) return false;                         // only the 64-bit forms are used
				in.op = opc == 0 ? OP_MOVN : opc == 2 ? OP_MOVZ : OP_MOVK;
				in.a = hw * 16; in.imm = bits(w, 20, 5);
				return true;
			}
			if (sub == 6) {                  // bitfield
				const unsigned opc = bits(w, 30, 29), N = bit(w, 22), immr = bits(w, 21, 16), imms = bits(w, 15, 10);
				if (opc == 3 || opc == 0) return false;           // sbfm: not used
				if (!in.sf || N != 1) return false;               // only the 64-bit forms are used
				in.op = OP_BFM; in.a = opc; in.b = immr; in.c = imms;
				return true;
			}
			if (sub == 7) {                  // extract
				if (bits(w, 30, 29) != 0 || bit(w, 21) != 0) return false;
				if (!in.sf || bit(w, 22) != 1) return false;      // only the 64-bit form is used
				const unsigned imms = bits(w, 15, 10);
				in.op = OP_EXTR; in.c = imms;
				return true;
			}
			return false;
		}

		// ---------------- branches, system ----------------
		if ((op0 & 0xE) == 0xA) {
			if (bits(w, 30, 26) == 0x05) {   // B / BL
				in.op = bit(w, 31) ? OP_BL : OP_B; in.imm = sext(bits(w, 25, 0), 26) * 4;
				return true;
			}
			if (bits(w, 31, 24) == 0x54 && bit(w, 4) == 0) {   // B.cond
				in.op = OP_BCOND; in.a = bits(w, 3, 0); in.imm = sext(bits(w, 23, 5), 19) * 4;
				return true;
			}
			if ((w & 0xFFFFFC1F) == 0xD65F0000) { in.op = OP_RET; return true; }
			if ((w & 0xFFFFFFE0) == 0xD53B4400) { in.op = OP_MRS_FPCR; return true; }
			if ((w & 0xFFFFFFE0) == 0xD51B4400) { in.op = OP_MSR_FPCR; return true; }
			return false;
		}

		// ---------------- data processing, register ----------------
		if ((op0 & 0x7) == 0x5) {
			if (bit(w, 28) == 0) {
				if (bit(w, 24) == 0) {        // logical, shifted register
					const unsigned opc = bits(w, 30, 29);
					if (opc != 1 && opc != 2) return false;       // only orr (mov) and eor are used ...
					if (bit(w, 21) || bits(w, 23, 22) || bits(w, 15, 10)) return false;   // ... without inversion and without shift
					in.op = OP_LOGIC_SREG; in.a = (uint8_t)opc;
					return true;
				}
				if (bit(w, 21) == 0) {        // add/sub, shifted register
					const unsigned shift = bits(w, 23, 22), imm6 = bits(w, 15, 10);
					if (shift != 0) return false;                 // only LSL is used
					if (!in.sf) return false;                     // only the 64-bit forms are used
					if (bit(w, 29) && !bit(w, 30)) return false;  // flag-setting only as SUBS (cmp)
					in.op = OP_ADDSUB_SREG; in.a = bit(w, 30); in.b = bit(w, 29); in.c = shift; in.imm = imm6;
					return true;
				}
				return false;                 // add/sub extended register: not used
			}
			// bit 28 == 1
			if (bit(w, 24) == 1) {            // 3 source
				if (bits(w, 30, 29) != 0) return false;
				const unsigned op31 = bits(w, 23, 21), o0 = bit(w, 15);
				if (op31 == 0) { if (o0 || !in.sf) return false; in.op = OP_MADD; return true; }
				if (!in.sf || o0 || in.ra != 31) return false;
				if (op31 == 2) { in.op = OP_SMULH; return true; }
				if (op31 == 6) { in.op = OP_UMULH; return true; }
				return false;
			}
			if (bits(w, 24, 21) == 0x6) {
				if (bit(w, 29) != 0) return false;
				if (bit(w, 30) == 0) {        // 2 source
					if (bits(w, 15, 10) == 0x0B && in.sf) { in.op = OP_RORV; return true; }
					return false;
				}
				// 1 source
				if (bits(w, 20, 16) == 0 && bits(w, 15, 10) == 0 && in.sf) { in.op = OP_RBIT; return true; }
				return false;
			}
			return false;
		}

		// ---------------- loads and stores ----------------
		if ((op0 & 0x5) == 0x4) {
			const unsigned top = bits(w, 29, 27);
			const unsigned V = bit(w, 26);
			if (top == 3 && bits(w, 25, 24) == 0) {   // load register (literal)
				const unsigned opc = bits(w, 31, 30);
				in.imm = sext(bits(w, 23, 5), 19) * 4;
				if (!V && opc == 1) { in.op = OP_LDR_LIT_X; return true; }
				if (V && opc == 2) { in.op = OP_LDR_LIT_Q; return true; }
				return false;
			}
			if (top == 5) {                            // load/store pair
				const unsigned opc = bits(w, 31, 30), mode = bits(w, 24, 23), L = bit(w, 22);
				int log2size; bool signedLoad = false;
				if (!V) {
					if (opc == 2) log2size = 3;                                     // X pair
					else if (opc == 1 && L) { log2size = 2; signedLoad = true; }   // LDPSW
					else return false;                                              // W pair: not used
				}
				else {
					if (opc == 1) log2size = 3; else if (opc == 2) log2size = 4; else return false;   // D, Q pairs (S: not used)
				}
				if (mode == 2) in.op = OP_LDSTP_OFF;
				else if (mode == 3) { if (V || signedLoad || L) return false; in.op = OP_LDSTP_PRE; }     // only stp Xt, Xt2, [..]!
				else if (mode == 1) { if (V || signedLoad || !L) return false; in.op = OP_LDSTP_POST; }   // only ldp Xt, Xt2, [..], #imm
				else return false;
				in.a = L; in.b = (uint8_t)log2size; in.c = (V ? 1 : 0) | (signedLoad ? 2 : 0);
				in.ra = bits(w, 14, 10);   // Rt2
				in.imm = sext(bits(w, 21, 15), 7) * (1 << log2size);
				return true;
			}
			if (top == 7) {                            // load/store register
				const unsigned size = bits(w, 31, 30), opc = bits(w, 23, 22);
				int log2size; bool load;
				if (!V) {
					if (size == 3 && opc == 2 && bits(w, 25, 24) == 1) { in.op = OP_PRFM_UIMM; in.imm = (int64_t)bits(w, 21, 10) << 3; return true; }
					if (opc > 1) return false;             // sign-extending loads: not used
					log2size = (int)size; load = opc == 1;
				}
				else {
					if (opc < 2) { log2size = (int)size; load = opc == 1; }
					else { if (size != 0) return false; log2size = 4; load = opc == 3; }
				}
				in.a = load; in.b = (uint8_t)log2size; in.c = V;
				if (bits(w, 25, 24) == 1) {                // unsigned offset: Xt and Qt only
					if (!(V ? log2size == 4 : log2size == 3)) return false;
					in.op = OP_LDST_UIMM; in.imm = (int64_t)bits(w, 21, 10) << log2size; return true;
				}
				if (bits(w, 25, 24) != 0) return false;
				if (bit(w, 21) == 0) {
					const unsigned m = bits(w, 11, 10);
					in.imm = sext(bits(w, 20, 12), 9);
					if (V || log2size != 3) return false;  // only Xt
					if (m == 1 && load) { in.op = OP_LDST_POST; return true; }    // ldr Xt, [..], #imm
					if (m == 3 && !load) { in.op = OP_LDST_PRE; return true; }    // str Xt, [.., #imm]!
					return false;                          // ldur/ldtr and the other directions: not used
				}
				if (bits(w, 11, 10) == 2) {                // register offset
					const unsigned option = bits(w, 15, 13), S = bit(w, 12);
					if (option != 3) return false;         // only LSL (64-bit index) is used
					if (V || !(log2size == 3 || (log2size == 2 && load))) return false;   // ldr/str Xt, ldr Wt
					in.op = OP_LDST_REGOFF; in.imm = S ? log2size : 0;
					return true;
				}
				return false;
			}
			return false;
		}

		// ---------------- SIMD and FP ----------------
		if ((op0 & 0x7) == 0x7) {
			const unsigned Q = bit(w, 30), U = bit(w, 29);
			if ((w & 0xFFFFFC00) == 0x1E270000) { in.op = OP_FMOV_S_W; return true; }
			if ((w & 0xFFFF0C00) == 0x4E280800) {      // crypto AES
				switch (bits(w, 16, 12)) {
				case 4: in.op = OP_AESE; return true;
				case 5: in.op = OP_AESD; return true;
				case 6: in.op = OP_AESMC; return true;
				case 7: in.op = OP_AESIMC; return true;
				default: return false;
				}
			}
			if (bit(w, 31) == 0 && bits(w, 28, 21) == 0x70 && bit(w, 15) == 0 && bit(w, 10) == 1) {   // AdvSIMD copy
				const unsigned imm5 = bits(w, 20, 16), imm4 = bits(w, 14, 11);
				int size;   // log2 of the element size
				if (imm5 & 1) size = 0; else if (imm5 & 2) size = 1; else if (imm5 & 4) size = 2; else if (imm5 & 8) size = 3; else return false;
				const unsigned idx = imm5 >> (size + 1);
				if (U == 0) {
					if (imm4 == 3) { if (!Q || size < 2) return false; in.op = OP_INS_GEN; in.a = (uint8_t)size; in.b = (uint8_t)idx; return true; }   // ins Vd.S|D[i]
					if (imm4 == 7) {      // UMOV Wd, Vn.B[i] / Vn.S[i]
						if (Q || !(size == 0 || size == 2)) return false;
						in.op = OP_UMOV; in.a = (uint8_t)size; in.b = (uint8_t)idx; return true;
					}
					if (imm4 == 5) {      // SMOV
						if (!(Q && size == 2)) return false;   // only smov Xd, Vn.S[i] is used
						in.op = OP_SMOV; in.a = (uint8_t)size; in.b = (uint8_t)idx; return true;
					}
					return false;
				}
				// INS (element)
				if (!Q || size != 3) return false;            // only ins Vd.D[i], Vn.D[j]
				if (imm4 & ((1u << size) - 1)) return false;  // low bits of imm4 are ignored by hardware; the emitter leaves them zero
				in.op = OP_INS_ELEM; in.a = (uint8_t)size; in.b = (uint8_t)idx; in.c = (uint8_t)(imm4 >> size);
				return true;
			}
			if (bit(w, 31) == 0 && bits(w, 28, 24) == 0x0E && bit(w, 21) == 1 && bit(w, 10) == 1) {   // AdvSIMD three same
				const unsigned size = bits(w, 23, 22), opcode = bits(w, 15, 11);
				if (!Q) return false;
				if (opcode == 0x03) {     // logical
					if (U == 0 && size == 2) { in.op = OP_VORR; return true; }
					if (U == 1 && size == 0) { in.op = OP_VEOR; return true; }
					if (U == 1 && size == 3) { in.op = OP_VBIF; return true; }
					return false;                 // and/bic/orn/bsl/bit: not used
				}
				if (opcode == 0x1A && U == 0 && size == 1) { in.op = OP_FADD_2D; return true; }
				if (opcode == 0x1A && U == 0 && size == 3) { in.op = OP_FSUB_2D; return true; }
				if (opcode == 0x1B && U == 1 && size == 1) { in.op = OP_FMUL_2D; return true; }
				if (opcode == 0x1F && U == 1 && size == 1) { in.op = OP_FDIV_2D; return true; }
				return false;
			}
			if (bit(w, 31) == 0 && bits(w, 28, 24) == 0x0E && bits(w, 21, 17) == 0x10 && bits(w, 11, 10) == 2) {   // two-reg misc
				const unsigned size = bits(w, 23, 22), opcode = bits(w, 16, 12);
				if (!Q) return false;
				if (U == 1 && size == 3 && opcode == 0x1F) { in.op = OP_FSQRT_2D; return true; }
				if (U == 0 && size == 1 && opcode == 0x1D) { in.op = OP_SCVTF_2D; return true; }
				return false;
			}
			if (bit(w, 31) == 0 && bits(w, 28, 19) == 0x1E0 && bits(w, 11, 10) == 1) {   // AdvSIMD modified immediate
				const unsigned cmode = bits(w, 15, 12);
				if (!(Q == 1 && U == 0 && cmode == 0)) return false;   // movi Vd.4S, #imm8 (LSL #0)
				in.op = OP_MOVI_4S; in.imm = (bits(w, 18, 16) << 5) | bits(w, 9, 5);
				return true;
			}
			return false;
		}
		return false;
	}

	const char* Cpu::classify(uint32_t word) {
		Insn in;
		if (!decode(word, in)) return nullptr;
		return kOpNames[in.op];
	}

	// =============================================================================================================
	// FP helpers (soft float, guest FPCR)
	// =============================================================================================================
	static const uint64_t kDefaultNaN = 0x7FF8000000000000ULL;

	struct FpEnv {
		int mode;       // mdl::sf numbering
		bool fz, dn;
		const char* trouble = nullptr;   // set when a case outside the model is hit
	};

	static inline FpEnv fpEnv(uint32_t fpcr) {
		static const int map[4] = { mdl::sf::RN, mdl::sf::RU, mdl::sf::RD, mdl::sf::RZ };   // FPCR.RMode 00 RN, 01 RP(+inf), 10 RM(-inf), 11 RZ
		FpEnv e; e.mode = map[(fpcr >> 22) & 3]; e.fz = (fpcr >> 24) & 1; e.dn = (fpcr >> 25) & 1;
		return e;
	}

	static inline bool isSNaN(uint64_t x) { return mdl::sf::isNaN(x) && !(x & (1ULL << 51)); }

	// Arm ARM FPProcessNaNs for two operands; returns true when the result is decided by NaN propagation
	static inline bool processNaNs(const FpEnv& e, uint64_t a, uint64_t b, uint64_t& r) {
		const bool na = mdl::sf::isNaN(a), nb = mdl::sf::isNaN(b);
		if (!na && !nb) return false;
		uint64_t pick;
		if (isSNaN(a)) pick = a; else if (isSNaN(b)) pick = b; else if (na) pick = a; else pick = b;
		r = e.dn ? kDefaultNaN : (pick | (1ULL << 51));
		return true;
	}

	// checks the soft-float flags against what the guest FPCR asks for
	static inline uint64_t fpFinish(FpEnv& e, uint64_t r, int flags) {
		if (mdl::sf::isNaN(r)) return kDefaultNaN;     // generated NaN (invalid operation): Arm default NaN, sign 0
		if (flags & (mdl::sf::F_UNDERFLOW | mdl::sf::F_SUBNORMAL_IN)) {
			// The soft-float model flushes subnormal inputs and tiny results to zero = FPCR.FZ == 1 (with tininess
			// detected after rounding).  With FZ == 0 the hardware computes with gradual underflow: not modelled.
			if (!e.fz) e.trouble = "subnormal operand or tiny result with FPCR.FZ=0 (gradual underflow is not modelled)";
		}
		// FZ=1 on Arm detects tininess BEFORE rounding: a result that was rounded up to the smallest normal would be
		// flushed by hardware but is returned as DBL_MIN by the model; refuse to guess in that single case.
		if (e.fz && (r & ~mdl::sf::SIGN) == 0x0010000000000000ULL && (flags & mdl::sf::F_INEXACT))
			e.trouble = "inexact result equal to the smallest normal with FPCR.FZ=1 (tininess-before-rounding is not modelled)";
		return r;
	}

	static inline uint64_t fpAdd(FpEnv& e, uint64_t a, uint64_t b) { uint64_t r; if (processNaNs(e, a, b, r)) return r; int f = 0; r = mdl::sf::add(a, b, e.mode, f); return fpFinish(e, r, f); }
	static inline uint64_t fpSub(FpEnv& e, uint64_t a, uint64_t b) { uint64_t r; if (processNaNs(e, a, b, r)) return r; int f = 0; r = mdl::sf::sub(a, b, e.mode, f); return fpFinish(e, r, f); }
	static inline uint64_t fpMul(FpEnv& e, uint64_t a, uint64_t b) { uint64_t r; if (processNaNs(e, a, b, r)) return r; int f = 0; r = mdl::sf::mul(a, b, e.mode, f); return fpFinish(e, r, f); }
	static inline uint64_t fpDiv(FpEnv& e, uint64_t a, uint64_t b) { uint64_t r; if (processNaNs(e, a, b, r)) return r; int f = 0; r = mdl::sf::div(a, b, e.mode, f); return fpFinish(e, r, f); }
	static inline uint64_t fpSqrt(FpEnv& e, uint64_t a) {
		if (mdl::sf::isNaN(a)) return e.dn ? kDefaultNaN : (a | (1ULL << 51));
		int f = 0; uint64_t r = mdl::sf::sqrt(a, e.mode, f); return fpFinish(e, r, f);
	}
	// SCVTF (vector, integer), 64-bit elements: signed 64-bit integer -> binary64 with the current rounding mode
	static inline uint64_t fpFromInt64(FpEnv& e, int64_t x) {
		if (x == (int32_t)x) return mdl::sf::fromInt32((int32_t)x);      // exact
		const bool sign = x < 0;
		const uint64_t mag = sign ? (0 - (uint64_t)x) : (uint64_t)x;
		int p = 63; while (!((mag >> p) & 1)) --p;
		int f = 0;
		return mdl::sf::roundPack(sign, p, mag << (63 - p), false, e.mode, f);
	}

	// =============================================================================================================
	// AES helpers (Arm ARM: AESE = SubBytes(ShiftRows(Vd ^ Vn)), AESD = InvSubBytes(InvShiftRows(Vd ^ Vn)),
	// AESMC = MixColumns(Vn), AESIMC = InvMixColumns(Vn)); state byte i = row i%4, column i/4
	// =============================================================================================================
	static inline void vToBytes(const VReg& v, uint8_t* b) { memcpy(b, v.d, 16); }
	static inline void bytesToV(const uint8_t* b, VReg& v) { memcpy(v.d, b, 16); }

	static void aesE(VReg& vd, const VReg& vn) {
		const mdl::AesTables& T = mdl::aesTables();
		uint8_t s[16], o[16]; VReg t = { { vd.d[0] ^ vn.d[0], vd.d[1] ^ vn.d[1] } }; vToBytes(t, s);
		for (int c = 0; c < 4; ++c) for (int r = 0; r < 4; ++r) o[r + 4 * c] = T.sbox[s[r + 4 * ((c + r) & 3)]];
		bytesToV(o, vd);
	}
	static void aesD(VReg& vd, const VReg& vn) {
		const mdl::AesTables& T = mdl::aesTables();
		uint8_t s[16], o[16]; VReg t = { { vd.d[0] ^ vn.d[0], vd.d[1] ^ vn.d[1] } }; vToBytes(t, s);
		for (int c = 0; c < 4; ++c) for (int r = 0; r < 4; ++r) o[r + 4 * c] = T.inv[s[r + 4 * ((c - r) & 3)]];
		bytesToV(o, vd);
	}
	static void aesMC(VReg& vd, const VReg& vn) {
		typedef mdl::AesTables A;
		uint8_t s[16], o[16]; vToBytes(vn, s);
		for (int c = 0; c < 4; ++c) {
			const uint8_t* a = s + 4 * c;
			o[4 * c + 0] = (uint8_t)(A::gmul(a[0], 2) ^ A::gmul(a[1], 3) ^ a[2] ^ a[3]);
			o[4 * c + 1] = (uint8_t)(a[0] ^ A::gmul(a[1], 2) ^ A::gmul(a[2], 3) ^ a[3]);
			o[4 * c + 2] = (uint8_t)(a[0] ^ a[1] ^ A::gmul(a[2], 2) ^ A::gmul(a[3], 3));
			o[4 * c + 3] = (uint8_t)(A::gmul(a[0], 3) ^ a[1] ^ a[2] ^ A::gmul(a[3], 2));
		}
		bytesToV(o, vd);
	}
	static void aesIMC(VReg& vd, const VReg& vn) {
		typedef mdl::AesTables A;
		uint8_t s[16], o[16]; vToBytes(vn, s);
		for (int c = 0; c < 4; ++c) {
			const uint8_t* a = s + 4 * c;
			o[4 * c + 0] = (uint8_t)(A::gmul(a[0], 14) ^ A::gmul(a[1], 11) ^ A::gmul(a[2], 13) ^ A::gmul(a[3], 9));
			o[4 * c + 1] = (uint8_t)(A::gmul(a[0], 9) ^ A::gmul(a[1], 14) ^ A::gmul(a[2], 11) ^ A::gmul(a[3], 13));
			o[4 * c + 2] = (uint8_t)(A::gmul(a[0], 13) ^ A::gmul(a[1], 9) ^ A::gmul(a[2], 14) ^ A::gmul(a[3], 11));
			o[4 * c + 3] = (uint8_t)(A::gmul(a[0], 11) ^ A::gmul(a[1], 13) ^ A::gmul(a[2], 9) ^ A::gmul(a[3], 14));
		}
		bytesToV(o, vd);
	}

	// =============================================================================================================
	// Cpu
	// =============================================================================================================
	static const uint64_t kReturnSentinel = 0x00005E47'1E7E0000ULL;   // never a mapped address of a registered region

	Cpu::Cpu() {
		memset(x, 0, sizeof(x)); memset(v, 0, sizeof(v)); sp = 0; n = z = c = vf = false; fpcr = 0;
		opCount.assign(OP_COUNT, 0);
	}
	Cpu::~Cpu() {}

	void Cpu::clearRegions() { regions_.clear(); hintR_ = hintW_ = -1; codeBase_ = nullptr; codeSize_ = 0; }

	void Cpu::addRegion(const void* base, size_t size, bool writable, const char* name) {
		Region r; r.base = (uintptr_t)base; r.size = size; r.writable = writable; r.name = name;
		regions_.push_back(r);
	}

	void Cpu::setCode(const void* base, size_t size) {
		codeBase_ = (const uint8_t*)base; codeSize_ = size;
		addRegion(base, size, false, "code");
		decoded_.assign(size / 4, Insn());   // op == OP_NONE
	}

	bool Cpu::fail(const char* fmt, ...) {
		char buf[512];
		va_list ap; va_start(ap, fmt); vsnprintf(buf, sizeof(buf), fmt, ap); va_end(ap);
		error = buf;
		return false;
	}

	void Cpu::failAccess(uint64_t addr, size_t bytes, bool write, uint64_t pcOff, const char* why) {
		// nearest region
		const Region* best = nullptr; uint64_t bestDist = ~0ULL;
		for (const Region& r : regions_) {
			uint64_t d;
			if (addr < r.base) d = r.base - addr; else if (addr >= r.base + r.size) d = addr - (r.base + r.size) + 1; else d = 0;
			if (d < bestDist) { bestDist = d; best = &r; }
		}
		char buf[512];
		if (best) {
			const int64_t rel = (int64_t)(addr - best->base);
			snprintf(buf, sizeof(buf), "out-of-bounds %s of %zu bytes at 0x%" PRIx64 " (%snearest region %s [0x%" PRIxPTR ",+0x%zx), offset %" PRId64 ") at +0x%" PRIx64,
				write ? "write" : "read", bytes, addr, why, best->name.c_str(), best->base, best->size, rel, pcOff);
		}
		else snprintf(buf, sizeof(buf), "out-of-bounds %s of %zu bytes at 0x%" PRIx64 " (no regions) at +0x%" PRIx64, write ? "write" : "read", bytes, addr, pcOff);
		error = buf; outOfBounds = true;
	}

	inline uint8_t* Cpu::mem(uint64_t addr, size_t bytes, bool write, uint64_t pcOff) {
		int& hint = write ? hintW_ : hintR_;
		if (hint >= 0) {
			const Region& r = regions_[hint];
			if (addr >= r.base && addr - r.base <= r.size - bytes && r.size >= bytes) return (uint8_t*)(uintptr_t)addr;
		}
		for (size_t i = 0; i < regions_.size(); ++i) {
			const Region& r = regions_[i];
			if (r.size >= bytes && addr >= r.base && addr - r.base <= r.size - bytes) {
				if (write && !r.writable) { failAccess(addr, bytes, write, pcOff, "read-only region; "); return nullptr; }
				hint = (int)i;
				return (uint8_t*)(uintptr_t)addr;
			}
		}
		failAccess(addr, bytes, write, pcOff, "");
		return nullptr;
	}

	static inline bool condHolds(unsigned cond, bool n, bool z, bool c, bool v) {
		bool r;
		switch (cond >> 1) {
		case 0: r = z; break;
		case 1: r = c; break;
		case 2: r = n; break;
		case 3: r = v; break;
		case 4: r = c && !z; break;
		case 5: r = n == v; break;
		case 6: r = n == v && !z; break;
		default: r = true; break;
		}
		if ((cond & 1) && cond != 15) r = !r;
		return r;
	}

	bool Cpu::call(const void* entry, uint64_t budget) {
		error.clear(); unmodelled = outOfBounds = budgetExhausted = undefinedInstr = abiViolation = false;
		executed = 0;
		if (!codeBase_) return fail("no code region");
		uint64_t pc = (uint64_t)(uintptr_t)entry;
		x[30] = kReturnSentinel;
		const uint64_t codeLo = (uint64_t)(uintptr_t)codeBase_;
		uint64_t count = 0;

#define XR(r) ((r) == 31 ? 0ULL : x[r])                       /* register operand, 31 = ZR */
#define XSP(r) ((r) == 31 ? sp : x[r])                        /* register operand, 31 = SP */
#define SETX(r, val) do { if ((r) != 31) x[r] = (val); } while (0)
#define SETXSP(r, val) do { if ((r) == 31) sp = (val); else x[r] = (val); } while (0)
#define MEMR(ptr, addr, nbytes) uint8_t* ptr = mem((addr), (nbytes), false, off); if (!ptr) goto done
#define MEMW(ptr, addr, nbytes) uint8_t* ptr = mem((addr), (nbytes), true, off); if (!ptr) goto done
#define CHECK_SP_BASE(r) do { if ((r) == 31 && (sp & 15)) { abiViolation = true; fail("SP alignment fault: sp=0x%" PRIx64 " used as base at +0x%" PRIx64, sp, off); goto done; } } while (0)

		for (;;) {
			if (pc == kReturnSentinel) break;
			const uint64_t off = pc - codeLo;
			if (off >= codeSize_ || (off & 3)) {
				outOfBounds = true;
				fail("out-of-bounds execute at 0x%" PRIx64 " (code [0x%" PRIx64 ",+0x%zx))", pc, codeLo, codeSize_);
				goto done;
			}
			if (count >= budget) { budgetExhausted = true; fail("instruction budget of %" PRIu64 " exhausted at +0x%" PRIx64, budget, off); goto done; }
			Insn& in = decoded_[off >> 2];
			if (in.op == OP_NONE) {
				uint32_t w; memcpy(&w, codeBase_ + off, 4);
				if (!decode(w, in)) {
					in.op = OP_NONE;
					unmodelled = true;
					fail("unmodelled encoding 0x%08x at +0x%" PRIx64, w, off);
					goto done;
				}
			}
			++count;
			if (collectStats) ++opCount[in.op];
			uint64_t next = pc + 4;
			const bool sf = in.sf;

			switch (in.op) {
			case OP_UDF: {
				undefinedInstr = true;
				fail("undefined instruction 0x%08x executed at +0x%" PRIx64, (uint32_t)in.imm, off);
				goto done;
			}

			// ------------------------------------------------------------------ integer, immediate
			case OP_ADDSUB_IMM: {        // 64-bit; in.a = subtract, in.b = set flags (SUBS only)
				const uint64_t a = XSP(in.rn), b = (uint64_t)in.imm;
				const uint64_t bb = in.a ? ~b : b; const unsigned cin = in.a ? 1 : 0;
				const u128 us = (u128)a + bb + cin; const uint64_t r = (uint64_t)us;
				if (in.b) {
					n = (int64_t)r < 0; z = r == 0; c = (us >> 64) != 0; vf = ((~(a ^ bb) & (a ^ r)) >> 63) & 1;
					SETX(in.rd, r);
				}
				else SETXSP(in.rd, r);
				break;
			}
			case OP_LOGIC_IMM: {
				const uint64_t a = XR(in.rn), m = (uint64_t)in.imm;
				uint64_t r;
				switch (in.a) { case 0: r = a & m; break; case 1: r = a | m; break; default: r = a & m; break; }
				if (!sf) r &= 0xffffffffULL;
				if (in.a == 3) { n = sf ? ((int64_t)r < 0) : ((int32_t)(uint32_t)r < 0); z = r == 0; c = false; vf = false; SETX(in.rd, r); }
				else SETXSP(in.rd, r);
				break;
			}
			case OP_MOVZ: SETX(in.rd, (uint64_t)in.imm << in.a); break;
			case OP_MOVN: SETX(in.rd, ~((uint64_t)in.imm << in.a)); break;
			case OP_MOVK: { const uint64_t r = XR(in.rd); SETX(in.rd, (r & ~(0xffffULL << in.a)) | ((uint64_t)in.imm << in.a)); break; }
			case OP_BFM: {               // 64-bit UBFM (in.a == 2) / BFM (in.a == 1); Arm ARM pseudo-code with DecodeBitMasks(N, imms, immr, FALSE)
				const unsigned R = in.b, S = in.c;
				const uint64_t src = XR(in.rn), dstv = XR(in.rd);
				const uint64_t welem = (S + 1 == 64) ? ~0ULL : ((1ULL << (S + 1)) - 1);
				const uint64_t wmask = ror64(welem, R);                       // ROR(Ones(S+1), R)
				const unsigned d = (S - R) & 63;
				const uint64_t tmask = (d + 1 == 64) ? ~0ULL : ((1ULL << (d + 1)) - 1);   // Ones(d+1)
				const uint64_t rot = ror64(src, R);
				uint64_t r;
				if (in.a == 1) { const uint64_t bot = (dstv & ~wmask) | (rot & wmask); r = (dstv & ~tmask) | (bot & tmask); }
				else r = (rot & wmask) & tmask;
				SETX(in.rd, r);
				break;
			}
			case OP_EXTR: {              // 64-bit
				const unsigned lsb = in.c; const uint64_t hi = XR(in.rn), lo = XR(in.rm);
				SETX(in.rd, lsb ? (lo >> lsb) | (hi << (64 - lsb)) : lo);
				break;
			}
			case OP_ADR: SETX(in.rd, pc + (uint64_t)in.imm); break;

			// ------------------------------------------------------------------ integer, register
			case OP_LOGIC_SREG: {
				const uint64_t a = XR(in.rn), b = XR(in.rm);
				uint64_t r = in.a == 1 ? (a | b) : (a ^ b);
				if (!sf) r &= 0xffffffffULL;
				SETX(in.rd, r);
				break;
			}
			case OP_ADDSUB_SREG: {       // 64-bit, Rm LSL #imm; in.a = subtract, in.b = set flags (SUBS only)
				const uint64_t a = XR(in.rn), b = XR(in.rm) << in.imm;
				const uint64_t bb = in.a ? ~b : b; const unsigned cin = in.a ? 1 : 0;
				const u128 us = (u128)a + bb + cin; const uint64_t r = (uint64_t)us;
				if (in.b) { n = (int64_t)r < 0; z = r == 0; c = (us >> 64) != 0; vf = ((~(a ^ bb) & (a ^ r)) >> 63) & 1; }
				SETX(in.rd, r);
				break;
			}
			case OP_MADD: SETX(in.rd, XR(in.ra) + XR(in.rn) * XR(in.rm)); break;
			case OP_UMULH: SETX(in.rd, (uint64_t)(((u128)XR(in.rn) * XR(in.rm)) >> 64)); break;
			case OP_SMULH: SETX(in.rd, (uint64_t)(((__int128)(int64_t)XR(in.rn) * (int64_t)XR(in.rm)) >> 64)); break;
			case OP_RORV: SETX(in.rd, ror64(XR(in.rn), (unsigned)(XR(in.rm) & 63))); break;
			case OP_RBIT: {
				const uint64_t sv = XR(in.rn); uint64_t r = 0;
				for (int i = 0; i < 64; ++i) r |= ((sv >> i) & 1) << (63 - i);
				SETX(in.rd, r);
				break;
			}

			// ------------------------------------------------------------------ branches, system
			case OP_B: next = pc + (uint64_t)in.imm; break;
			case OP_BL: x[30] = pc + 4; next = pc + (uint64_t)in.imm; break;
			case OP_BCOND: if (condHolds(in.a, n, z, c, vf)) next = pc + (uint64_t)in.imm; break;
			case OP_RET: next = XR(in.rn); break;
			case OP_MRS_FPCR: SETX(in.rd, (uint64_t)fpcr); break;
			case OP_MSR_FPCR: {
				const uint64_t val = XR(in.rd);
				// modelled control bits: RMode [23:22], FZ [24], DN [25].  AHP [26] and FZ16 [19] do not affect binary64.
				const uint64_t harmless = (3ULL << 22) | (1ULL << 24) | (1ULL << 25) | (1ULL << 26) | (1ULL << 19);
				if (val & ~harmless) {
					unmodelled = true;
					fail("unmodelled FPCR value 0x%" PRIx64 " written at +0x%" PRIx64 " (trap enables / reserved bits)", val, off);
					goto done;
				}
				fpcr = (uint32_t)val;
				break;
			}

			// ------------------------------------------------------------------ loads / stores
			case OP_LDR_LIT_X: { MEMR(p, pc + (uint64_t)in.imm, 8); uint64_t t; memcpy(&t, p, 8); SETX(in.rd, t); break; }
			case OP_LDR_LIT_Q: { MEMR(p, pc + (uint64_t)in.imm, 16); memcpy(v[in.rd].d, p, 16); break; }
			case OP_PRFM_UIMM: break;    // prefetch never faults and has no architectural effect
			case OP_LDST_UIMM: case OP_LDST_PRE: case OP_LDST_POST: case OP_LDST_REGOFF: {
				CHECK_SP_BASE(in.rn);
				const uint64_t base = XSP(in.rn);
				uint64_t addr;
				if (in.op == OP_LDST_UIMM) addr = base + (uint64_t)in.imm;
				else if (in.op == OP_LDST_PRE) addr = base + (uint64_t)in.imm;
				else if (in.op == OP_LDST_POST) addr = base;
				else addr = base + (XR(in.rm) << in.imm);
				const size_t nbytes = (size_t)1 << in.b;
				if (in.a) {   // load
					MEMR(p, addr, nbytes);
					if (in.c) { VReg t = { { 0, 0 } }; memcpy(t.d, p, nbytes); v[in.rd] = t; }
					else { uint64_t t = 0; memcpy(&t, p, nbytes); SETX(in.rd, t); }
				}
				else {
					MEMW(p, addr, nbytes);
					if (in.c) memcpy(p, v[in.rd].d, nbytes);
					else { const uint64_t t = XR(in.rd); memcpy(p, &t, nbytes); }
				}
				if (in.op == OP_LDST_PRE) SETXSP(in.rn, addr);
				else if (in.op == OP_LDST_POST) SETXSP(in.rn, base + (uint64_t)in.imm);
				break;
			}
			case OP_LDSTP_OFF: case OP_LDSTP_PRE: case OP_LDSTP_POST: {
				CHECK_SP_BASE(in.rn);
				const uint64_t base = XSP(in.rn);
				const uint64_t addr = (in.op == OP_LDSTP_POST) ? base : base + (uint64_t)in.imm;
				const size_t nbytes = (size_t)1 << in.b;
				const bool vec = in.c & 1, sgn = in.c & 2;
				const unsigned rt = in.rd, rt2 = in.ra;
				if (in.a) {
					MEMR(p, addr, 2 * nbytes);
					if (vec) {
						VReg t1 = { { 0, 0 } }, t2 = { { 0, 0 } }; memcpy(t1.d, p, nbytes); memcpy(t2.d, p + nbytes, nbytes);
						v[rt] = t1; v[rt2] = t2;
					}
					else {
						uint64_t t1 = 0, t2 = 0; memcpy(&t1, p, nbytes); memcpy(&t2, p + nbytes, nbytes);
						if (sgn) { t1 = (uint64_t)(int64_t)(int32_t)(uint32_t)t1; t2 = (uint64_t)(int64_t)(int32_t)(uint32_t)t2; }
						SETX(rt, t1); SETX(rt2, t2);
					}
				}
				else {
					MEMW(p, addr, 2 * nbytes);
					if (vec) { memcpy(p, v[rt].d, nbytes); memcpy(p + nbytes, v[rt2].d, nbytes); }
					else { const uint64_t t1 = XR(rt), t2 = XR(rt2); memcpy(p, &t1, nbytes); memcpy(p + nbytes, &t2, nbytes); }
				}
				if (in.op == OP_LDSTP_PRE) SETXSP(in.rn, addr);
				else if (in.op == OP_LDSTP_POST) SETXSP(in.rn, base + (uint64_t)in.imm);
				break;
			}

			// ------------------------------------------------------------------ SIMD copy
			case OP_INS_GEN: {
				const uint64_t val = XR(in.rn);
				uint8_t b[16]; vToBytes(v[in.rd], b);
				memcpy(b + ((size_t)in.b << in.a), &val, (size_t)1 << in.a);
				bytesToV(b, v[in.rd]);
				break;
			}
			case OP_UMOV: {
				uint8_t b[16]; vToBytes(v[in.rn], b);
				uint64_t t = 0; memcpy(&t, b + ((size_t)in.b << in.a), (size_t)1 << in.a);
				SETX(in.rd, t);
				break;
			}
			case OP_SMOV: {
				uint8_t b[16]; vToBytes(v[in.rn], b);
				uint32_t t; memcpy(&t, b + 4 * (size_t)in.b, 4);
				SETX(in.rd, (uint64_t)(int64_t)(int32_t)t);
				break;
			}
			case OP_INS_ELEM: {
				uint8_t s[16], d[16]; vToBytes(v[in.rn], s); vToBytes(v[in.rd], d);
				memcpy(d + ((size_t)in.b << in.a), s + ((size_t)in.c << in.a), (size_t)1 << in.a);
				bytesToV(d, v[in.rd]);
				break;
			}

			// ------------------------------------------------------------------ SIMD logical
#define VLOGIC(expr) do { const VReg N_ = v[in.rn], M_ = v[in.rm], D_ = v[in.rd]; VReg R_; for (int i_ = 0; i_ < 2; ++i_) { const uint64_t vn = N_.d[i_], vm = M_.d[i_], vd = D_.d[i_]; (void)vd; R_.d[i_] = (expr); } v[in.rd] = R_; } while (0)
			case OP_VORR: VLOGIC(vn | vm); break;
			case OP_VEOR: VLOGIC(vn ^ vm); break;
			case OP_VBIF: VLOGIC(vd ^ ((vd ^ vn) & ~vm)); break;         // insert Vn where Vm is 0

			// ------------------------------------------------------------------ FP
#define FP2(fn) do { FpEnv e_ = fpEnv(fpcr); const VReg N_ = v[in.rn], M_ = v[in.rm]; VReg R_; R_.d[0] = fn(e_, N_.d[0], M_.d[0]); R_.d[1] = fn(e_, N_.d[1], M_.d[1]); \
				if (e_.trouble) { unmodelled = true; fail("unmodelled FP case at +0x%" PRIx64 ": %s", off, e_.trouble); goto done; } v[in.rd] = R_; } while (0)
			case OP_FADD_2D: FP2(fpAdd); break;
			case OP_FSUB_2D: FP2(fpSub); break;
			case OP_FMUL_2D: FP2(fpMul); break;
			case OP_FDIV_2D: FP2(fpDiv); break;
			case OP_FSQRT_2D: {
				FpEnv e = fpEnv(fpcr); const VReg N = v[in.rn]; VReg R;
				R.d[0] = fpSqrt(e, N.d[0]); R.d[1] = fpSqrt(e, N.d[1]);
				if (e.trouble) { unmodelled = true; fail("unmodelled FP case at +0x%" PRIx64 ": %s", off, e.trouble); goto done; }
				v[in.rd] = R;
				break;
			}
			case OP_SCVTF_2D: {
				FpEnv e = fpEnv(fpcr); const VReg N = v[in.rn]; VReg R;
				R.d[0] = fpFromInt64(e, (int64_t)N.d[0]); R.d[1] = fpFromInt64(e, (int64_t)N.d[1]);
				v[in.rd] = R;
				break;
			}
			case OP_MOVI_4S: { const uint64_t t = (uint64_t)in.imm | ((uint64_t)in.imm << 32); v[in.rd].d[0] = t; v[in.rd].d[1] = t; break; }
			case OP_FMOV_S_W: { v[in.rd].d[0] = (uint32_t)XR(in.rn); v[in.rd].d[1] = 0; break; }

			// ------------------------------------------------------------------ AES
			case OP_AESE: aesE(v[in.rd], v[in.rn]); break;
			case OP_AESD: aesD(v[in.rd], v[in.rn]); break;
			case OP_AESMC: { const VReg s = v[in.rn]; aesMC(v[in.rd], s); break; }
			case OP_AESIMC: { const VReg s = v[in.rn]; aesIMC(v[in.rd], s); break; }

			default:
				unmodelled = true;
				fail("internal: decoded op %u without semantics at +0x%" PRIx64, in.op, off);
				goto done;
			}
			pc = next;
		}
	done:
		executed = count;
#undef XR
#undef XSP
#undef SETX
#undef SETXSP
#undef MEMR
#undef MEMW
#undef CHECK_SP_BASE
#undef VLOGIC
#undef FP2
		return error.empty();
	}

	// =============================================================================================================
	// Driver glue
	// =============================================================================================================
	static uint64_t g_budget = 0;
	void setInstructionBudget(uint64_t n) { g_budget = n; }

	// A randomx_vm whose only purpose is to run the REAL randomx_vm::initialize() of the tree under test (it derives
	// reg.a, mem.ma/mx, config.readReg*, config.eMask and datasetOffset from the 128 configuration bytes) and to hold
	// the same member objects a CompiledVm has.  No friend access is needed: the members are protected.
	struct GlueVm final : randomx_vm {
		void allocate() override {}
		void getFinalResult(void*, size_t) override {}
		void hashAndFill(void*, size_t, uint64_t*) override {}
		void initScratchpad(void*) override {}
		void run(void*) override {}
		randomx::Program& programRef() { return program; }
		randomx::RegisterFile& regRef() { return reg; }
		randomx::MemoryRegisters& memRef() { return mem; }
		randomx::ProgramConfiguration& configRef() { return config; }
		uint64_t& datasetOffsetRef() { return datasetOffset; }
		void doInitialize() { randomx_vm::initialize(); }
	};

	struct Machine::Impl {
		randomx::JitCompilerA64 compiler;
		GlueVm vm;
		randomx_flags flags;
		randomx_cache* cache = nullptr;
		const uint8_t* dataset = nullptr;
		std::vector<uint8_t> stack;
		Impl() : stack(64 * 1024 + 64) { memset(&vm.regRef(), 0, sizeof(randomx::RegisterFile)); }
		uint8_t* stackBase() { return (uint8_t*)(((uintptr_t)stack.data() + 63) & ~(uintptr_t)63); }
		size_t stackSize() const { return 64 * 1024; }
	};

	Machine::Machine(int flags) : impl_(new Impl) {
		impl_->flags = (randomx_flags)flags;
		// CompiledVm::CompiledVm: enableAll() (non-secure) + setFlags(flags)
		impl_->compiler.enableAll();
		impl_->compiler.setFlags((randomx_flags)flags);
		opCount.assign(Cpu::opKinds(), 0);
	}
	Machine::~Machine() {}

	void Machine::setFlags(int flags) { impl_->flags = (randomx_flags)flags; impl_->compiler.setFlags((randomx_flags)flags); }
	int Machine::flags() const { return (int)impl_->flags; }

	const uint8_t* Machine::code() const { return impl_->compiler.getCode(); }
	size_t Machine::programCodeSize() const { return impl_->compiler.getCodeSize(); }
	size_t Machine::codeBufferSize() const {
		// CodeSize + CalcDatasetItemSize; CalcDatasetItemSize is file-static in the emitter: recompute it the same way
		const size_t calc =
			((uint8_t*)randomx_calc_dataset_item_aarch64_prefetch - (uint8_t*)randomx_calc_dataset_item_aarch64) +
			RANDOMX_CACHE_ACCESSES * (
				((uint8_t*)randomx_calc_dataset_item_aarch64_mix - ((uint8_t*)randomx_calc_dataset_item_aarch64_prefetch)) + 4 +
				((RANDOMX_SUPERSCALAR_LATENCY * 3) + 2) * 16 +
				((uint8_t*)randomx_calc_dataset_item_aarch64_store_result - (uint8_t*)randomx_calc_dataset_item_aarch64_mix) + 4
			) +
			((uint8_t*)randomx_calc_dataset_item_aarch64_end - (uint8_t*)randomx_calc_dataset_item_aarch64_store_result);
		return programCodeSize() + calc;
	}

	void Machine::setCache(randomx_cache* cache) {
		impl_->cache = cache;
		// CompiledLightVm::setCache
		impl_->compiler.generateSuperscalarHash(cache->programs, cache->reciprocalCache);
	}
	void Machine::setDataset(const uint8_t* datasetMemory) { impl_->dataset = datasetMemory; }

	static void addCommonRegions(Cpu& cpu, Machine& m, uint8_t* stackBase, size_t stackSize) {
		cpu.clearRegions();
		cpu.setCode(m.code(), m.codeBufferSize());
		cpu.addRegion(stackBase, stackSize, true, "stack");
		for (const Region& r : m.extraRegions) cpu.addRegion((const void*)r.base, r.size, r.writable, r.name.c_str());
	}

	static void seedRegisters(Cpu& cpu, uint64_t salt) {
		// recognisable garbage in every register the ABI does not define at entry
		for (int i = 0; i < 31; ++i) cpu.x[i] = 0xBAD0000000000000ULL ^ (salt * 0x9E3779B97F4A7C15ULL) ^ ((uint64_t)i << 40) ^ 0x5a5a5a5aULL;
		for (int i = 0; i < 32; ++i) { cpu.v[i].d[0] = 0x7ff4dead00000000ULL | (uint64_t)i; cpu.v[i].d[1] = 0xfff4beef00000000ULL | (uint64_t)i; }
		cpu.n = cpu.z = cpu.c = cpu.vf = false;
	}

	static void finishResult(Cpu& cpu, RunResult& res, const uint64_t* savedX, const VReg* savedV, uint64_t sp0) {
		res.executed = cpu.executed;
		res.error = cpu.error;
		res.unmodelled = cpu.unmodelled; res.outOfBounds = cpu.outOfBounds; res.budgetExhausted = cpu.budgetExhausted;
		res.undefinedInstr = cpu.undefinedInstr; res.abiViolation = cpu.abiViolation;
		res.fpcr = cpu.fpcr;
		static const uint32_t toRx[4] = { 0, 2, 1, 3 };   // FPCR.RMode 00 RN, 01 RP(up), 10 RM(down), 11 RZ  ->  RandomX 0 nearest, 1 down, 2 up, 3 zero
		res.fpcrRMode = toRx[(cpu.fpcr >> 22) & 3];
		res.ok = cpu.error.empty();
		if (!res.ok) return;
		// AAPCS64: x19-x29 (x18 is the platform register), SP and the low halves of v8-v15 are preserved by the callee
		char buf[256];
		if (cpu.sp != sp0) { snprintf(buf, sizeof(buf), "ABI: SP not restored (0x%" PRIx64 " -> 0x%" PRIx64 ")", sp0, cpu.sp); res.error = buf; }
		for (int i = 18; i <= 29 && res.error.empty(); ++i)
			if (cpu.x[i] != savedX[i]) { snprintf(buf, sizeof(buf), "ABI: callee-saved x%d not restored", i); res.error = buf; }
		for (int i = 8; i <= 15 && res.error.empty(); ++i)
			if (cpu.v[i].d[0] != savedV[i].d[0]) { snprintf(buf, sizeof(buf), "ABI: callee-saved d%d not restored", i); res.error = buf; }
		if (!res.error.empty()) { res.ok = false; res.abiViolation = true; }
	}

	RunResult Machine::run(const uint8_t* programBytes, uint8_t* scratchpad, unsigned iterations, unsigned entryRoundingMode) {
		RunResult res;
		Impl& I = *impl_;
		const bool light = I.cache != nullptr;
		if (!light && !I.dataset) { res.error = "driver: neither cache nor dataset set"; return res; }
		if (iterations == 0) { res.error = "driver: iterations must be >= 1 (the generated loop is do-while)"; return res; }

		// ---- VmBase::generateProgram with programOverride ----
		static_assert(sizeof(randomx::Program) == 128 + 8 * RANDOMX_PROGRAM_MAX_SIZE, "unexpected Program layout");
		randomx::Program& program = I.vm.programRef();
		memcpy((void*)&program, programBytes, sizeof(program));

		// ---- randomx_vm::initialize (the real one) ----
		randomx::RegisterFile& reg = I.vm.regRef();           // persists between runs, as in a VM
		randomx::MemoryRegisters& mem = I.vm.memRef();
		randomx::ProgramConfiguration& config = I.vm.configRef();
		I.vm.doInitialize();
		const uint64_t datasetOffset = I.vm.datasetOffsetRef();

		// ---- CompiledVm::run / CompiledLightVm::run ----
		if (light) {
			mem.memory = I.cache->memory;                                  // CompiledLightVm::setCache
			I.compiler.generateProgramLight(program, config, (uint32_t)datasetOffset);
		}
		else {
			I.compiler.generateProgram(program, config);
			mem.memory = const_cast<uint8_t*>(I.dataset) + datasetOffset;
		}
		// ---- CompiledVm::execute ----  #if defined(__aarch64__)
		memcpy(reg.f, config.eMask, sizeof(config.eMask));

		// ---- call ProgramFunc(reg, mem, scratchpad, iterations) ----
		Cpu cpu;
		cpu.collectStats = collectStats;
		addCommonRegions(cpu, *this, I.stackBase(), I.stackSize());
		cpu.addRegion(scratchpad, randomx::ScratchpadSize, true, "scratchpad");
		cpu.addRegion(&reg, sizeof(reg), true, "RegisterFile");
		cpu.addRegion(&mem, sizeof(mem), false, "MemoryRegisters");
		if (light) cpu.addRegion(I.cache->memory, randomx::CacheSize, false, "cache memory");
		else cpu.addRegion(I.dataset, randomx::DatasetSize, false, "dataset");
		if ((I.flags & RANDOMX_FLAG_V2) && !(I.flags & RANDOMX_FLAG_HARD_AES)) {
			cpu.addRegion(&randomx_aes_lut_enc[0][0], sizeof(randomx_aes_lut_enc), false, "randomx_aes_lut_enc");
			cpu.addRegion(&randomx_aes_lut_dec[0][0], sizeof(randomx_aes_lut_dec), false, "randomx_aes_lut_dec");
		}
		seedRegisters(cpu, iterations);
		static const uint32_t toFpcr[4] = { 0, 2, 1, 3 };   // RandomX 0 nearest, 1 down, 2 up, 3 zero -> FPCR.RMode
		cpu.fpcr = (toFpcr[entryRoundingMode & 3] << 22) | entryFpcrExtra;
		cpu.sp = (uint64_t)(uintptr_t)(I.stackBase() + I.stackSize() - 256);
		cpu.x[0] = (uint64_t)(uintptr_t)&reg;
		cpu.x[1] = (uint64_t)(uintptr_t)&mem;
		cpu.x[2] = (uint64_t)(uintptr_t)scratchpad;
		cpu.x[3] = iterations;
		uint64_t savedX[31]; VReg savedV[32]; memcpy(savedX, cpu.x, sizeof(savedX)); memcpy(savedV, cpu.v, sizeof(savedV));
		const uint64_t sp0 = cpu.sp;
		const uint64_t budget = g_budget ? g_budget : 4000000ULL + 400000ULL * iterations;
		res.entryOffset = 0;
		cpu.call(reinterpret_cast<const void*>(I.compiler.getProgramFunc()), budget);
		finishResult(cpu, res, savedX, savedV, sp0);
		memcpy(res.reg, &reg, sizeof(reg));
		if (collectStats) for (size_t i = 0; i < opCount.size(); ++i) opCount[i] += cpu.opCount[i];
		return res;
	}

	RunResult Machine::initDataset(randomx_cache* cache, uint8_t* out, uint32_t startItem, uint32_t endItem) {
		RunResult res;
		Impl& I = *impl_;
		// randomx_init_cache (JIT branch): generateSuperscalarHash + generateDatasetInitCode + getDatasetInitFunc
		I.compiler.generateSuperscalarHash(cache->programs, cache->reciprocalCache);
		I.compiler.generateDatasetInitCode();
		randomx::DatasetInitFunc* fn = I.compiler.getDatasetInitFunc();

		Cpu cpu;
		cpu.collectStats = collectStats;
		addCommonRegions(cpu, *this, I.stackBase(), I.stackSize());
		cpu.addRegion(cache, sizeof(randomx_cache), false, "randomx_cache struct");
		cpu.addRegion(cache->memory, randomx::CacheSize, false, "cache memory");
		const size_t outBytes = (size_t)(endItem > startItem ? endItem - startItem : 0) * randomx::CacheLineSize;
		if (outBytes) cpu.addRegion(out, outBytes, true, "dataset output");
		seedRegisters(cpu, startItem);
		cpu.fpcr = entryFpcrExtra;
		cpu.sp = (uint64_t)(uintptr_t)(I.stackBase() + I.stackSize() - 256);
		cpu.x[0] = (uint64_t)(uintptr_t)cache;
		cpu.x[1] = (uint64_t)(uintptr_t)out;
		cpu.x[2] = startItem;     // uint32_t arguments: callers zero-extend (AAPCS64 leaves the upper half unspecified)
		cpu.x[3] = endItem;
		uint64_t savedX[31]; VReg savedV[32]; memcpy(savedX, cpu.x, sizeof(savedX)); memcpy(savedV, cpu.v, sizeof(savedV));
		const uint64_t sp0 = cpu.sp;
		const uint64_t items = endItem > startItem ? endItem - startItem : 1;
		const uint64_t budget = g_budget ? g_budget : 1000000ULL + 100000ULL * items;
		res.entryOffset = (uint64_t)(reinterpret_cast<const uint8_t*>(fn) - code());
		cpu.call(reinterpret_cast<const void*>(fn), budget);
		finishResult(cpu, res, savedX, savedV, sp0);
		if (collectStats) for (size_t i = 0; i < opCount.size(); ++i) opCount[i] += cpu.opCount[i];
		return res;
	}

	RunResult runProgram(const uint8_t* program, uint8_t* scratchpad, int flags, bool lightMode, randomx_cache* cache,
		const uint8_t* datasetMemory, unsigned iterations, unsigned entryRoundingMode) {
		try {
			Machine m(flags);
			if (lightMode) {
				if (!cache) { RunResult r; r.error = "driver: light mode needs a cache"; return r; }
				m.setCache(cache);
			}
			else {
				if (!datasetMemory) { RunResult r; r.error = "driver: full mode needs dataset memory"; return r; }
				m.setDataset(datasetMemory);
			}
			return m.run(program, scratchpad, iterations, entryRoundingMode);
		}
		catch (const std::exception& e) { RunResult r; r.error = std::string("driver: exception: ") + e.what(); return r; }
	}

	RunResult initDataset(randomx_cache* cache, uint8_t* out, uint32_t startItem, uint32_t endItem) {
		try {
			Machine m(0);
			return m.initDataset(cache, out, startItem, endItem);
		}
		catch (const std::exception& e) { RunResult r; r.error = std::string("driver: exception: ") + e.what(); return r; }
	}

	bool dumpCode(const Machine& m, const char* path) {
		FILE* f = fopen(path, "wb");
		if (!f) return false;
		const bool ok = fwrite(m.code(), 1, m.codeBufferSize(), f) == m.codeBufferSize();
		fclose(f);
		return ok;
	}
}
