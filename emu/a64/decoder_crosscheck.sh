#!/bin/bash
# decoder_crosscheck.sh <a64emu_selftest binary> [random words, default 30000000]
# Cross-checks the emulator's decoder against llvm-objdump: every random 32-bit word that the decoder ACCEPTS is
# disassembled by LLVM and the set of LLVM mnemonics per emulator class is printed.  A class that shows a mnemonic
# outside its intended set means the decoder's fixed-bit masks are too loose.
set -euo pipefail
BIN=${1:?usage: decoder_crosscheck.sh <a64emu_selftest> [count]}
N=${2:-30000000}
T=$(mktemp -d); trap 'rm -rf "$T"' EXIT
"$BIN" -classify "$N" > "$T/words.txt"
python3 - "$T" <<'PY'
import sys, struct
t = sys.argv[1]
words = [l.rstrip('\n').split('\t') for l in open(t + '/words.txt')]
open(t + '/w.bin', 'wb').write(b''.join(struct.pack('<I', int(w, 16)) for w, _ in words))
open(t + '/classes.txt', 'w').write('\n'.join(c for _, c in words))
PY
llvm-objcopy-14 -I binary -O elf64-littleaarch64 --rename-section .data=.text,code,alloc "$T/w.bin" "$T/w.o"
llvm-objdump-14 -d --mattr=+crypto --no-show-raw-insn "$T/w.o" | grep -P '^\s+[0-9a-f]+:' | awk -F'\t' '{print $2}' > "$T/mnem.txt"
paste -d'\t' "$T/classes.txt" "$T/mnem.txt" | sort | uniq -c | awk -F'\t' '{ n=$1; sub(/^ *[0-9]+ /,"",n); cls=n; cnt=$1+0; m[cls]=m[cls] " " $2 "(" cnt ")" } END { for (c in m) printf "%-62s ->%s\n", c, m[c] }' | sort
echo "accepted words: $(wc -l < "$T/words.txt") of $N"
