#!/bin/bash
# End-to-end build + self-test of the AArch64 emulator against the CURRENT tree in $REPO (default /repo).
#   build_test.sh [self-test options, e.g. -n 4000 -seed 7 -stats]
# environment:
#   REPO=/repo                      RandomX tree (read-only)
#   SCRATCH=/tmp/emu-a64-scratch    build directory
#   EMITTER_SRC=<file>              compile this file instead of $REPO/src/jit_compiler_a64.cpp (sensitivity experiments)
#   STATIC_REPO=<dir>               take jit_compiler_a64_static.S from <dir>/src instead of $REPO/src (sensitivity experiments)
#   SAN=1                           build emulator + test with -fsanitize=address,undefined
#   BUILD_ONLY=1                    do not run
#   SKIP_HOSTLIB=1                  do not (re)build the host library (parallel mutant builds share it)
# exit status: that of the self-test (0 = emulated A64 code agrees with the interpreter everywhere)
set -euo pipefail
HERE=$(cd "$(dirname "$0")" && pwd)
REPO=${REPO:-/repo}
SCRATCH=${SCRATCH:-/tmp/emu-a64-scratch}
EMITTER_SRC=${EMITTER_SRC:-$REPO/src/jit_compiler_a64.cpp}
STATIC_REPO=${STATIC_REPO:-$REPO}
CXX=${CXX:-g++}
CC=${CC:-gcc}
OPT="-O2 -g"
SANFLAGS=""
TAG=plain
if [ "${SAN:-0}" = "1" ]; then SANFLAGS="-fsanitize=address,undefined -fno-omit-frame-pointer"; TAG=san; fi
DEFS="-DRANDOMX_VERIF -DNDEBUG"
OUT="$SCRATCH/build-$TAG${BUILD_TAG:+-$BUILD_TAG}"
mkdir -p "$OUT"

# 1. host library of the tree under test (interpreter side + virtual_memory.c, reciprocal.c, soft_aes.cpp for the emitter)
if [ "${SKIP_HOSTLIB:-0}" != "1" ]; then
if [ ! -f "$SCRATCH/hostlib/build.ninja" ]; then
	cmake -G Ninja -S "$REPO" -B "$SCRATCH/hostlib" -DCMAKE_BUILD_TYPE=Custom \
		-DCMAKE_C_FLAGS="-O2 -g -DNDEBUG -DRANDOMX_VERIF" -DCMAKE_CXX_FLAGS="-O2 -g -DNDEBUG -DRANDOMX_VERIF" > "$SCRATCH/hostlib-cmake.log" 2>&1
fi
ninja -C "$SCRATCH/hostlib" randomx > "$SCRATCH/hostlib-ninja.log" 2>&1 || { cat "$SCRATCH/hostlib-ninja.log"; exit 2; }
fi

# 1b. the driver replicates four statements of CompiledVm / CompiledLightVm that cannot be compiled for this host with the
#     A64 compiler; warn when the tree no longer contains them literally (the glue in a64emu.cpp may then be stale)
glue_check() { grep -qF "$2" "$REPO/src/$1" || echo "WARNING: glue fingerprint: '$2' not found in src/$1 -- compare a64emu.cpp Machine::run/setCache with the tree"; }
glue_check vm_compiled.cpp 'memcpy(reg.f, config.eMask, sizeof(config.eMask));'
glue_check vm_compiled.cpp 'mem.memory = datasetPtr->memory + datasetOffset;'
glue_check vm_compiled.cpp 'compiler.generateProgram(program, config);'
glue_check vm_compiled_light.cpp 'compiler.generateProgramLight(program, config, datasetOffset);'
glue_check vm_compiled_light.cpp 'compiler.generateSuperscalarHash(cache->programs, cache->reciprocalCache);'
glue_check vm_compiled_light.cpp 'mem.memory = cache->memory;'

# 2. the hand-written AArch64 runtime as a data blob
"$HERE/gen_static.sh" "$STATIC_REPO" "$OUT/static" > "$OUT/gen_static.log" 2>&1 || { cat "$OUT/gen_static.log"; exit 2; }
$CC -c "$OUT/static/a64_static_blob.S" -o "$OUT/a64_static_blob.o"

# 3. the real emitter, compiled for the host (the only tweak: a forward declaration via -include)
$CXX -std=gnu++17 $OPT $DEFS -include "$HERE/fwd.hpp" -I"$REPO/src" -c "$EMITTER_SRC" -o "$OUT/jit_compiler_a64.o"

# 4. emulator + self-test
$CXX -std=gnu++17 $OPT $SANFLAGS $DEFS -Wall -I"$REPO/src" -I"$HERE/../../model" -c "$HERE/a64emu.cpp" -o "$OUT/a64emu.o"
$CXX -std=gnu++17 $OPT $SANFLAGS $DEFS -Wall -I"$REPO/src" -I"$HERE" -c "$HERE/test_main.cpp" -o "$OUT/test_main.o"
$CXX $SANFLAGS -o "$OUT/a64emu_selftest" "$OUT/test_main.o" "$OUT/a64emu.o" "$OUT/jit_compiler_a64.o" "$OUT/a64_static_blob.o" \
	"$SCRATCH/hostlib/librandomx.a" -lpthread

[ "${BUILD_ONLY:-0}" = "1" ] && { echo "built $OUT/a64emu_selftest"; exit 0; }
exec "$OUT/a64emu_selftest" "$@"
