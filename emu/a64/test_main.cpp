// Self-test of the AArch64 emulator + driver: differential test of
//   [real emitter jit_compiler_a64.cpp + real runtime jit_compiler_a64_static.S, executed by a64emu]
// against
//   [the real bytecode interpreter of the same tree running natively on the host]
// on generated programs, plus dataset-item generation against randomx::initDatasetItem.
//
// usage: a64emu_selftest [-n programs] [-seed s] [-full k] [-items k] [-dump dir] [-stats] [-v] [-k] [-quick] [-avoid-f1]
//                        [-only case [-minimize]]
// exit status: 0 = agreement on everything, 1 = at least one mismatch / emulator error, 2 = set-up failure
#include <cstdio>
#include <cstdlib>
#include <cstring>
#include <cinttypes>
#include <string>
#include <vector>
#include <chrono>
#include <sys/mman.h>
#include <unistd.h>
#include <xmmintrin.h>

#include "randomx.h"
#include "common.hpp"
#include "program.hpp"
#include "dataset.hpp"
#include "virtual_machine.hpp"
#include "configuration.h"

#include "a64emu.hpp"

// ------------------------------------------------------------------------------------------------------------------
// PRNG (splitmix64 / xoshiro256**)
// ------------------------------------------------------------------------------------------------------------------
struct Rng {
	uint64_t s[4];
	explicit Rng(uint64_t seed) { for (int i = 0; i < 4; ++i) { seed += 0x9E3779B97F4A7C15ULL; uint64_t z = seed; z = (z ^ (z >> 30)) * 0xBF58476D1CE4E5B9ULL; z = (z ^ (z >> 27)) * 0x94D049BB133111EBULL; s[i] = z ^ (z >> 31); } }
	static uint64_t rotl(uint64_t x, int k) { return (x << k) | (x >> (64 - k)); }
	uint64_t next() { const uint64_t r = rotl(s[1] * 5, 7) * 9, t = s[1] << 17; s[2] ^= s[0]; s[3] ^= s[1]; s[1] ^= s[2]; s[0] ^= s[3]; s[2] ^= t; s[3] = rotl(s[3], 45); return r; }
	uint32_t u32() { return (uint32_t)(next() >> 32); }
	uint32_t below(uint32_t n) { return (uint32_t)(((next() >> 32) * (uint64_t)n) >> 32); }
	bool chance(uint32_t num, uint32_t den) { return below(den) < num; }
	void fill(void* p, size_t n) { uint8_t* b = (uint8_t*)p; while (n >= 8) { uint64_t v = next(); memcpy(b, &v, 8); b += 8; n -= 8; } if (n) { uint64_t v = next(); memcpy(b, &v, n); } }
};

// ------------------------------------------------------------------------------------------------------------------
// opcode table derived from the frequencies of the tree under test
// ------------------------------------------------------------------------------------------------------------------
enum IType { IADD_RS, IADD_M, ISUB_R, ISUB_M, IMUL_R, IMUL_M, IMULH_R, IMULH_M, ISMULH_R, ISMULH_M, IMUL_RCP, INEG_R, IXOR_R, IXOR_M, IROR_R, IROL_R,
	ISWAP_R, FSWAP_R, FADD_R, FADD_M, FSUB_R, FSUB_M, FSCAL_R, FMUL_R, FDIV_M, FSQRT_R, CBRANCH, CFROUND, ISTORE, NOP, ITYPE_COUNT };
static const char* const kTypeNames[ITYPE_COUNT] = { "IADD_RS", "IADD_M", "ISUB_R", "ISUB_M", "IMUL_R", "IMUL_M", "IMULH_R", "IMULH_M", "ISMULH_R", "ISMULH_M", "IMUL_RCP", "INEG_R",
	"IXOR_R", "IXOR_M", "IROR_R", "IROL_R", "ISWAP_R", "FSWAP_R", "FADD_R", "FADD_M", "FSUB_R", "FSUB_M", "FSCAL_R", "FMUL_R", "FDIV_M", "FSQRT_R", "CBRANCH", "CFROUND", "ISTORE", "NOP" };
static const int kFreq[ITYPE_COUNT] = { RANDOMX_FREQ_IADD_RS, RANDOMX_FREQ_IADD_M, RANDOMX_FREQ_ISUB_R, RANDOMX_FREQ_ISUB_M, RANDOMX_FREQ_IMUL_R, RANDOMX_FREQ_IMUL_M,
	RANDOMX_FREQ_IMULH_R, RANDOMX_FREQ_IMULH_M, RANDOMX_FREQ_ISMULH_R, RANDOMX_FREQ_ISMULH_M, RANDOMX_FREQ_IMUL_RCP, RANDOMX_FREQ_INEG_R, RANDOMX_FREQ_IXOR_R, RANDOMX_FREQ_IXOR_M,
	RANDOMX_FREQ_IROR_R, RANDOMX_FREQ_IROL_R, RANDOMX_FREQ_ISWAP_R, RANDOMX_FREQ_FSWAP_R, RANDOMX_FREQ_FADD_R, RANDOMX_FREQ_FADD_M, RANDOMX_FREQ_FSUB_R, RANDOMX_FREQ_FSUB_M,
	RANDOMX_FREQ_FSCAL_R, RANDOMX_FREQ_FMUL_R, RANDOMX_FREQ_FDIV_M, RANDOMX_FREQ_FSQRT_R, RANDOMX_FREQ_CBRANCH, RANDOMX_FREQ_CFROUND, RANDOMX_FREQ_ISTORE, RANDOMX_FREQ_NOP };
static int g_first[ITYPE_COUNT];   // first opcode of each type
static void initOpcodes() { int acc = 0; for (int t = 0; t < ITYPE_COUNT; ++t) { g_first[t] = acc; acc += kFreq[t]; } if (acc != 256) { fprintf(stderr, "frequency sum %d != 256\n", acc); exit(2); } }
static uint8_t opcodeOf(Rng& r, int type) { return (uint8_t)(g_first[type] + (kFreq[type] > 1 ? r.below(kFreq[type]) : 0)); }

struct Instr { uint8_t opcode, dst, src, mod; uint32_t imm; };
static const size_t kProgramBytes = 128 + 8 * RANDOMX_PROGRAM_MAX_SIZE;
static void putInstr(uint8_t* prog, int i, const Instr& in) { uint8_t* p = prog + 128 + 8 * i; p[0] = in.opcode; p[1] = in.dst; p[2] = in.src; p[3] = in.mod; memcpy(p + 4, &in.imm, 4); }

static uint32_t specialImm(Rng& r) {
	static const uint32_t tab[] = { 0, 1, 2, 3, 7, 8, 0xFF, 0x100, 0xFFF, 0x1000, 0x1001, 0xFFFF, 0x10000, 0x10001, 0xFFFFFF, 0x1000000, 0x1000001, 0x7FFFFFFF, 0x80000000u, 0x80000001u,
		0xFFFFFFFFu, 0xFFFFFFFEu, 0xFFFF0000u, 0xFFFF8000u, 0x0000FFFFu, 0xFFFFF000u, 0xFF000000u, 0x00FFF000u, 0x3FFFF8u, 0x1FFFF8u, 0x3FF8u };
	switch (r.below(5)) {
	case 0: return tab[r.below(sizeof(tab) / sizeof(tab[0]))];
	case 1: return 1u << r.below(32);
	case 2: return (1u << r.below(32)) + (r.chance(1, 2) ? 1u : 0xFFFFFFFFu);
	case 3: return (uint32_t)(-(int32_t)r.below(70000));
	default: return r.u32();
	}
}

static Instr randomInstr(Rng& r, int type, int flavour) {
	Instr in;
	in.opcode = opcodeOf(r, type);
	in.dst = (uint8_t)r.u32(); in.src = (uint8_t)r.u32(); in.mod = (uint8_t)r.u32();
	in.imm = r.u32();
	if (flavour & 1) in.src = in.dst;                      // src == dst forms
	if (flavour & 2) in.imm = specialImm(r);               // special immediates
	if (flavour & 4) { in.dst &= 7; in.src &= 7; }         // (registers are taken mod 8 by the compilers anyway)
	return in;
}

enum Gen { G_UNIFORM, G_SINGLE, G_CBRANCH, G_CFROUND, G_FDIV, G_RCP, G_SRCDST, G_IMM, G_MEM, G_FP, G_WEIGHTED_SPECIAL, G_COUNT };
static const char* const kGenNames[G_COUNT] = { "uniform", "single-type", "cbranch", "cfround", "fdiv", "imul_rcp", "src==dst", "special-imm", "memory", "fp-mix", "weighted+special" };

static int pick(Rng& r, const int* types, const int* weights, int n) { int tot = 0; for (int i = 0; i < n; ++i) tot += weights[i]; int x = (int)r.below(tot); for (int i = 0; i < n; ++i) { if (x < weights[i]) return types[i]; x -= weights[i]; } return types[0]; }

// returns a description
static std::string generateProgram(Rng& r, uint8_t* prog, int gen, int singleType) {
	r.fill(prog, 128);
	switch (r.below(12)) {          // occasional degenerate configuration blocks
	case 0: memset(prog, 0, 128); break;
	case 1: memset(prog, 0xFF, 128); break;
	default: break;
	}
	std::string desc = kGenNames[gen];
	const int N = RANDOMX_PROGRAM_MAX_SIZE;
	switch (gen) {
	case G_UNIFORM: r.fill(prog + 128, 8 * N); break;
	case G_SINGLE: {
		desc += std::string(":") + kTypeNames[singleType];
		const int flavour = (int)r.below(4);
		for (int i = 0; i < N; ++i) putInstr(prog, i, randomInstr(r, singleType, flavour));
		break;
	}
	case G_CBRANCH: {
		static const int t[] = { CBRANCH, IADD_RS, ISUB_R, IMUL_R, IXOR_R, IROR_R, ISWAP_R, INEG_R, IADD_M, ISTORE, FADD_R };
		static const int w[] = { 40, 10, 8, 8, 8, 4, 3, 2, 4, 4, 4 };
		for (int i = 0; i < N; ++i) { Instr in = randomInstr(r, pick(r, t, w, 11), r.chance(1, 3) ? 2 : 0); if (r.chance(1, 2)) { in.dst &= 1; } putInstr(prog, i, in); }
		break;
	}
	case G_CFROUND: {
		static const int t[] = { CFROUND, FADD_R, FSUB_R, FMUL_R, FDIV_M, FSQRT_R, FADD_M, FSUB_M, IADD_RS, IXOR_R, IROR_R, FSCAL_R, FSWAP_R, IMUL_R };
		static const int w[] = { 30, 8, 8, 12, 5, 6, 4, 4, 6, 4, 4, 3, 2, 4 };
		for (int i = 0; i < N; ++i) {
			Instr in = randomInstr(r, pick(r, t, w, 14), 0);
			if (in.opcode == g_first[CFROUND] && r.chance(1, 2)) in.imm = r.below(64);
			putInstr(prog, i, in);
		}
		// make CFROUND fire in v2 too ((ror(src, imm) & 60) == 0): registers with many zero bits
		break;
	}
	case G_FDIV: {
		static const int t[] = { FDIV_M, FSQRT_R, FMUL_R, FSCAL_R, FADD_M, FSUB_M, FADD_R, FSUB_R, FSWAP_R, ISTORE, IADD_RS, CFROUND };
		static const int w[] = { 35, 10, 12, 4, 6, 6, 5, 5, 4, 4, 5, 4 };
		for (int i = 0; i < N; ++i) putInstr(prog, i, randomInstr(r, pick(r, t, w, 12), r.chance(1, 4) ? 2 : 0));
		break;
	}
	case G_RCP: {
		static const int t[] = { IMUL_RCP, IADD_RS, IXOR_R, IMUL_R, CBRANCH, ISUB_R };
		static const int w[] = { 60, 10, 10, 8, 6, 6 };
		const int many = (int)r.below(3);   // 0: few (<12 literals), 1: around the literal-register limit, 2: many
		int rcpBudget = many == 0 ? (int)r.below(12) : many == 1 ? 10 + (int)r.below(6) : N;
		for (int i = 0; i < N; ++i) {
			int ty = pick(r, t, w, 6);
			if (ty == IMUL_RCP && rcpBudget <= 0) ty = IADD_RS;
			Instr in = randomInstr(r, ty, 0);
			if (ty == IMUL_RCP) {
				switch (r.below(6)) {
				case 0: in.imm = 0; break;
				case 1: in.imm = 1u << r.below(32); break;
				case 2: in.imm = (1u << r.below(32)) + (r.chance(1, 2) ? 1u : 0xFFFFFFFFu); break;
				case 3: in.imm = 0xFFFFFFFFu - r.below(3); break;
				default: break;
				}
				if (in.imm != 0 && (in.imm & (in.imm - 1)) != 0) --rcpBudget;
			}
			putInstr(prog, i, in);
		}
		break;
	}
	case G_SRCDST: for (int i = 0; i < N; ++i) putInstr(prog, i, randomInstr(r, r.below(ITYPE_COUNT - 1), 1 | (r.chance(1, 2) ? 2 : 0))); break;
	case G_IMM: {
		// many >16-bit immediates: exercises the 64-entry vector literal pool and the movz/movn+movk fallback
		static const int t[] = { IADD_M, ISUB_M, IMUL_M, IXOR_M, IMUL_R, IXOR_R, ISUB_R, IADD_RS, CBRANCH, ISTORE, FADD_M, IMULH_M, ISMULH_M };
		static const int w[] = { 10, 10, 6, 8, 10, 10, 10, 8, 10, 10, 4, 2, 2 };
		for (int i = 0; i < N; ++i) { Instr in = randomInstr(r, pick(r, t, w, 13), 2 | (r.chance(1, 2) ? 1 : 0)); if (in.opcode < g_first[ISUB_R] && r.chance(1, 2)) in.dst = 5; putInstr(prog, i, in); }
		break;
	}
	case G_MEM: {
		static const int t[] = { ISTORE, IADD_M, ISUB_M, IMUL_M, IMULH_M, ISMULH_M, IXOR_M, FADD_M, FSUB_M, FDIV_M, IADD_RS, IROR_R };
		static const int w[] = { 30, 8, 8, 6, 4, 4, 8, 8, 8, 6, 6, 4 };
		for (int i = 0; i < N; ++i) putInstr(prog, i, randomInstr(r, pick(r, t, w, 12), r.chance(1, 3) ? 1 : (r.chance(1, 3) ? 2 : 0)));
		break;
	}
	case G_FP: {
		static const int t[] = { FSWAP_R, FADD_R, FADD_M, FSUB_R, FSUB_M, FSCAL_R, FMUL_R, FDIV_M, FSQRT_R, CFROUND, IADD_RS };
		static const int w[] = { 6, 16, 8, 16, 8, 10, 20, 8, 10, 5, 5 };
		for (int i = 0; i < N; ++i) putInstr(prog, i, randomInstr(r, pick(r, t, w, 11), 0));
		break;
	}
	default: {
		// RandomX frequencies, special immediates and src==dst mixed in
		for (int i = 0; i < N; ++i) {
			Instr in; in.opcode = (uint8_t)r.u32(); in.dst = (uint8_t)r.u32(); in.src = (uint8_t)r.u32(); in.mod = (uint8_t)r.u32(); in.imm = r.chance(1, 3) ? specialImm(r) : r.u32();
			if (r.chance(1, 6)) in.src = in.dst;
			putInstr(prog, i, in);
		}
		break;
	}
	}
	return desc;
}

// Finding F1 (see README.md): ISUB_R with src == dst and imm32 == 0x80000000 was mis-compiled by the A64 back-end of the
// pinned tree.  The generators produce the pattern often (special immediates) and there is a directed probe for it.  On a
// tree without the fix, -avoid-f1 rewrites the pattern in the generated programs so that it does not mask everything else.
static bool isKnownF1(const uint8_t* p) { uint32_t imm; memcpy(&imm, p + 4, 4); return p[0] >= g_first[ISUB_R] && p[0] < g_first[ISUB_R] + kFreq[ISUB_R] && ((p[1] ^ p[2]) & 7) == 0 && imm == 0x80000000u; }
static unsigned avoidKnownFindings(uint8_t* prog) {
	unsigned n = 0;
	for (int i = 0; i < RANDOMX_PROGRAM_MAX_SIZE; ++i) { uint8_t* p = prog + 128 + 8 * i; if (isKnownF1(p)) { const uint32_t imm = 0x80000001u; memcpy(p + 4, &imm, 4); ++n; } }
	return n;
}

// ------------------------------------------------------------------------------------------------------------------
// fake dataset: a virtual window of DatasetSize bytes that repeats a PRNG block whose length (48 MiB) is not a power
// of two, so that two addresses differing in a single bit never alias
// ------------------------------------------------------------------------------------------------------------------
static uint8_t* mapFakeDataset(uint64_t seed) {
	const size_t total = ((size_t)randomx::DatasetSize + 4095) & ~(size_t)4095;
	const size_t block = 48u << 20;
	int fd = memfd_create("a64emu-dataset", 0);
	if (fd < 0 || ftruncate(fd, block) != 0) { perror("memfd"); return nullptr; }
	uint8_t* base = (uint8_t*)mmap(nullptr, total, PROT_NONE, MAP_PRIVATE | MAP_ANONYMOUS | MAP_NORESERVE, -1, 0);
	if (base == MAP_FAILED) { perror("mmap"); return nullptr; }
	for (size_t off = 0; off < total; off += block) {
		const size_t len = std::min(block, total - off);
		void* p = mmap(base + off, len, PROT_READ | PROT_WRITE, MAP_SHARED | MAP_FIXED, fd, 0);
		if (p == MAP_FAILED) { perror("mmap fixed"); return nullptr; }
	}
	close(fd);
	Rng r(seed); r.fill(base, block);
	return base;
}

// ------------------------------------------------------------------------------------------------------------------
struct Options {
	long only = -1; bool minimize = false; bool avoidF1 = false;
	unsigned n = 4000; uint64_t seed = 1; unsigned full = 12; unsigned items = 300; std::string dump; bool stats = false; bool verbose = false; bool keepGoing = false;
};

static const uint32_t kMxcsrDefault = 0x9FC0;

struct Mismatch { std::string what; };

static void hexdiff(const char* name, const uint8_t* a, const uint8_t* b, size_t n) {
	for (size_t i = 0; i < n; i += 8) if (memcmp(a + i, b + i, 8) != 0) {
		uint64_t x, y; memcpy(&x, a + i, 8); memcpy(&y, b + i, 8);
		fprintf(stderr, "    %s[+%zu]: emulated %016" PRIx64 "  interpreter %016" PRIx64 "\n", name, i, x, y);
	}
}

// ------------------------------------------------------------------------------------------------------------------
// Self-checks of the emulator's error classification and of the one piece of FP glue that the differential test cannot
// reach (SCVTF of integers that do not fit 32 bits).  Hand-assembled A64 words.
// ------------------------------------------------------------------------------------------------------------------
static unsigned emulatorSelfChecks() {
	unsigned bad = 0;
	auto expect = [&](bool cond, const char* what) { if (!cond) { ++bad; fprintf(stderr, "SELF-CHECK FAILED: %s\n", what); } };
	alignas(16) uint64_t data[4] = { 0x1111, 0x2222, 0x3333, 0x4444 };
	alignas(16) uint8_t stack[1024];
	struct Snippet { std::vector<uint32_t> words; };
	auto run = [&](const std::vector<uint32_t>& words, a64emu::Cpu& cpu, bool dataWritable) -> bool {
		cpu.clearRegions();
		cpu.setCode(words.data(), words.size() * 4);
		cpu.addRegion(data, sizeof(data), dataWritable, "data");
		cpu.addRegion(stack, sizeof(stack), true, "stack");
		cpu.sp = (uint64_t)(uintptr_t)(stack + 512);
		return cpu.call(words.data(), 1000);
	};
	const uint32_t STR_X0_X1 = 0xF9000020, LDR_X0_X1 = 0xF9400020, RET = 0xD65F03C0, SCVTF = 0x4E61D800, FMOV_D0_D0 = 0x1E604000, UDF0 = 0, B_FAR = 0x14040000, B_SELF = 0x14000000;
	{ a64emu::Cpu c; c.x[0] = 0xABCD; c.x[1] = (uint64_t)(uintptr_t)&data[1]; expect(run({ STR_X0_X1, RET }, c, true) && data[1] == 0xABCD, "store inside a writable region"); }
	{ a64emu::Cpu c; c.x[1] = (uint64_t)(uintptr_t)&data[2]; expect(run({ LDR_X0_X1, RET }, c, false) && c.x[0] == 0x3333, "load inside a read-only region"); }
	{ a64emu::Cpu c; c.x[1] = (uint64_t)(uintptr_t)&data[2]; expect(!run({ STR_X0_X1, RET }, c, false) && c.outOfBounds && !c.unmodelled, "store to a read-only region is reported as out-of-bounds"); }
	{ a64emu::Cpu c; c.x[1] = (uint64_t)(uintptr_t)&data[3] + 1; expect(!run({ LDR_X0_X1, RET }, c, true) && c.outOfBounds && c.error.find("out-of-bounds read of 8 bytes") == 0, "load straddling the end of a region"); }
	{ a64emu::Cpu c; c.x[1] = (uint64_t)(uintptr_t)&data[0] - 8; expect(!run({ STR_X0_X1, RET }, c, true) && c.outOfBounds && c.error.find("out-of-bounds write of 8 bytes") == 0, "store below a region"); }
	{ std::vector<uint32_t> w = { STR_X0_X1, RET }; a64emu::Cpu c; c.x[1] = (uint64_t)(uintptr_t)w.data(); expect(!run(w, c, true) && c.outOfBounds, "store into the code buffer"); }
	{ a64emu::Cpu c; expect(!run({ FMOV_D0_D0, RET }, c, true) && c.unmodelled && !c.outOfBounds && c.error.find("unmodelled encoding 0x1e604000 at +0x0") == 0, "unmodelled encoding is reported as such"); }
	{ a64emu::Cpu c; expect(!run({ UDF0, RET }, c, true) && c.undefinedInstr && !c.unmodelled, "UDF / zero word is reported as undefined instruction"); }
	{ a64emu::Cpu c; expect(!run({ B_FAR, RET }, c, true) && c.outOfBounds && c.error.find("out-of-bounds execute") == 0, "branch out of the code buffer"); }
	{ a64emu::Cpu c; expect(!run({ B_SELF, RET }, c, true) && c.budgetExhausted, "instruction budget"); }
	{ a64emu::Cpu c; c.x[1] = (uint64_t)(uintptr_t)&data[0]; std::vector<uint32_t> w = { 0x910023FF /* add sp, sp, #8 */, 0xF90003E0 /* str x0, [sp] */, RET }; expect(!run(w, c, true) && c.abiViolation, "misaligned SP used as base"); }
	// SCVTF Vd.2D, Vn.2D for all FPCR rounding modes against the host's cvtsi2sd (MXCSR rounding)
	{
		Rng r(99);
		static const unsigned mxcsrRc[4] = { 0, 2, 1, 3 };   // FPCR.RMode 00 RN, 01 RP(up), 10 RM(down), 11 RZ  ->  MXCSR.RC 00 RN, 01 down, 10 up, 11 RZ
		unsigned mism = 0;
		for (int k = 0; k < 20000; ++k) {
			int64_t a = (int64_t)r.next(), b = (int64_t)r.next();
			switch (k % 5) { case 0: a >>= r.below(64); b >>= r.below(64); break; case 1: a = (int64_t)((1ULL << (53 + r.below(10))) + r.below(4096)) * (r.chance(1, 2) ? 1 : -1); break; case 2: a = INT64_MIN + (int64_t)r.below(3); b = INT64_MAX - (int64_t)r.below(3); break; default: break; }
			for (unsigned rm = 0; rm < 4; ++rm) {
				a64emu::Cpu c; c.fpcr = rm << 22; c.v[0].d[0] = (uint64_t)a; c.v[0].d[1] = (uint64_t)b;
				if (!run({ SCVTF, RET }, c, true)) { ++mism; continue; }
				_mm_setcsr(0x1F80 | (mxcsrRc[rm] << 13));
				volatile int64_t va = a, vb = b; volatile double da = (double)va, db = (double)vb;
				_mm_setcsr(0x1F80);
				uint64_t ua, ub; double t = da; memcpy(&ua, &t, 8); t = db; memcpy(&ub, &t, 8);
				if (ua != c.v[0].d[0] || ub != c.v[0].d[1]) ++mism;
			}
		}
		expect(mism == 0, "scvtf v.2d of 64-bit integers in all four rounding modes vs host cvtsi2sd");
	}
	return bad;
}

int main(int argc, char** argv) {
	Options opt;
	for (int i = 1; i < argc; ++i) {
		std::string a = argv[i];
		auto val = [&](void) -> const char* { if (i + 1 >= argc) { fprintf(stderr, "missing value for %s\n", a.c_str()); exit(2); } return argv[++i]; };
		if (a == "-n") opt.n = (unsigned)strtoul(val(), nullptr, 0);
		else if (a == "-seed") opt.seed = strtoull(val(), nullptr, 0);
		else if (a == "-full") opt.full = (unsigned)strtoul(val(), nullptr, 0);
		else if (a == "-items") opt.items = (unsigned)strtoul(val(), nullptr, 0);
		else if (a == "-dump") opt.dump = val();
		else if (a == "-stats") opt.stats = true;
		else if (a == "-v") opt.verbose = true;
		else if (a == "-k") opt.keepGoing = true;
		else if (a == "-only") opt.only = strtol(val(), nullptr, 0);
		else if (a == "-minimize") opt.minimize = true;
		else if (a == "-avoid-f1") opt.avoidF1 = true;
		else if (a == "-classify") {
			// decoder cross-check helper (see decoder_crosscheck.sh): prints "<word> <class>" for random words the decoder accepts
			const unsigned long nw = strtoul(val(), nullptr, 0); Rng r(4242);
			for (unsigned long k = 0; k < nw; ++k) { const uint32_t w = r.u32(); if (const char* c = a64emu::Cpu::classify(w)) if (w >> 16) printf("%08x\t%s\n", w, c); }
			return 0;
		}
		else if (a == "-quick") { opt.n = 600; opt.full = 2; opt.items = 60; }
		else { fprintf(stderr, "unknown option %s\n", a.c_str()); return 2; }
	}
	initOpcodes();
	setvbuf(stdout, nullptr, _IOLBF, 0);
	Rng rng(opt.seed * 0x2545F4914F6CDD1DULL + 12345);

	// ---- caches (two keys: more SuperscalarHash program variety), fake dataset ----
	auto t0 = std::chrono::steady_clock::now();
	randomx_cache* caches[2];
	for (int k = 0; k < 2; ++k) {
		caches[k] = randomx_alloc_cache(RANDOMX_FLAG_DEFAULT);
		if (!caches[k]) { fprintf(stderr, "cache allocation failed\n"); return 2; }
		char key[64]; snprintf(key, sizeof(key), "a64emu self-test key %d seed %" PRIu64, k, opt.seed);
		randomx_init_cache(caches[k], key, strlen(key));
	}
	uint8_t* datasetMem = mapFakeDataset(opt.seed ^ 0xD474537ULL);
	if (!datasetMem) return 2;
	randomx_dataset fakeDataset; fakeDataset.memory = datasetMem; fakeDataset.dealloc = nullptr;
	printf("set-up: 2 caches + fake dataset in %.2f s\n", std::chrono::duration<double>(std::chrono::steady_clock::now() - t0).count());

	unsigned failures = 0, inconclusive = 0;
	uint64_t totalInsns = 0;
	{
		const unsigned bad = emulatorSelfChecks();
		printf("emulator self-checks (error classification, scvtf): %s\n", bad ? "FAILED" : "ok");
		failures += bad;
	}
	std::vector<uint64_t> opCount(a64emu::Cpu::opKinds(), 0);

	// =================================================================================================================
	// 1. dataset items
	// =================================================================================================================
	{
		unsigned compared = 0; auto ts = std::chrono::steady_clock::now();
		const uint32_t itemCount = (uint32_t)(randomx::DatasetSize / randomx::CacheLineSize);
		for (int k = 0; k < 2; ++k) {
			a64emu::Machine m(0);
			m.collectStats = true;
			std::vector<std::pair<uint32_t, uint32_t>> ranges = { {0, 1}, {0, 17}, {1, 2}, {itemCount - 9, itemCount}, {0x7FFFFFF, 0x8000003}, {4194303, 4194306} /* around CacheSize/64 */ };
			unsigned budget = opt.items;
			while (budget > 0) { const uint32_t s = rng.u32() % itemCount; const uint32_t len = 1 + rng.below(8); ranges.push_back({ s, std::min(itemCount, s + len) }); budget = budget > len ? budget - len : 0; }
			ranges.push_back({ 0xFFFFFFF0u, 0xFFFFFFF4u });   // item numbers beyond the dataset are still well defined
			for (auto& rg : ranges) {
				const size_t cnt = rg.second - rg.first;
				std::vector<uint8_t> out(cnt * 64 + 128, 0xCD), ref(cnt * 64);
				a64emu::RunResult res = (compared % 3 == 0) ? a64emu::initDataset(caches[k], out.data() + 64, rg.first, rg.second) : m.initDataset(caches[k], out.data() + 64, rg.first, rg.second);
				totalInsns += res.executed;
				if (!res.ok) {
					if (res.unmodelled || res.budgetExhausted) ++inconclusive; else ++failures;
					fprintf(stderr, "DATASET items [%u,%u) cache %d: emulator error: %s\n", rg.first, rg.second, k, res.error.c_str());
					continue;
				}
				for (size_t i = 0; i < cnt; ++i) randomx::initDatasetItem(caches[k], ref.data() + 64 * i, rg.first + i);
				bool bad = memcmp(out.data() + 64, ref.data(), cnt * 64) != 0;
				for (int i = 0; i < 64; ++i) if (out[i] != 0xCD || out[64 + cnt * 64 + i] != 0xCD) bad = true;
				if (bad) { ++failures; fprintf(stderr, "DATASET MISMATCH items [%u,%u) cache %d\n", rg.first, rg.second, k); hexdiff("item", out.data() + 64, ref.data(), cnt * 64); }
				compared += (unsigned)cnt;
			}
			for (size_t i = 0; i < opCount.size(); ++i) opCount[i] += m.opCount[i];
		}
		const double dt = std::chrono::duration<double>(std::chrono::steady_clock::now() - ts).count();
		printf("dataset: %u items compared with randomx::initDatasetItem, %u failures (%.2f s, %.0f items/s)\n", compared, failures, dt, compared / dt);
	}

	// =================================================================================================================
	// 2. programs
	// =================================================================================================================
	// interpreter VMs: [light/full][v1/v2]
	randomx_vm* vms[2][2];
	for (int full = 0; full < 2; ++full) for (int v2 = 0; v2 < 2; ++v2) {
		const int fl = (full ? RANDOMX_FLAG_FULL_MEM : 0) | (v2 ? RANDOMX_FLAG_V2 : 0);
		vms[full][v2] = randomx_create_vm((randomx_flags)fl, full ? nullptr : caches[0], full ? &fakeDataset : nullptr);
		if (!vms[full][v2]) { fprintf(stderr, "vm creation failed (flags %d)\n", fl); return 2; }
	}
	// persistent machines (code buffer reused across programs and across v1/v2 switches, as in a VM): [light/full][hardAes]
	a64emu::Machine* machines[2][2];
	for (int full = 0; full < 2; ++full) for (int hard = 0; hard < 2; ++hard) {
		machines[full][hard] = new a64emu::Machine(RANDOMX_FLAG_JIT | (hard ? RANDOMX_FLAG_HARD_AES : 0) | (full ? RANDOMX_FLAG_FULL_MEM : 0));
		machines[full][hard]->collectStats = true;
		if (full) machines[full][hard]->setDataset(datasetMem); else machines[full][hard]->setCache(caches[0]);
	}

	std::vector<uint8_t> program(kProgramBytes);
	std::vector<uint8_t> spInit(randomx::ScratchpadSize), spEmu(randomx::ScratchpadSize);
	unsigned compared = 0, perGen[G_COUNT] = {}, perMode[2][2] = {};
	double emuSecondsShort = 0, interpSecondsShort = 0, emuSecondsFull = 0; unsigned shortRuns = 0, fullRuns = 0; uint64_t shortIters = 0;
	unsigned roundingModeChanges = 0;
	const unsigned total = opt.n + opt.full;
	int singleCursor = 0;

	// ---- directed probe for finding F1 (ISUB_R, src == dst, imm32 == 0x80000000): must agree on a fixed tree ----
	if (opt.only < 0) {
		unsigned f1bad = 0, f1n = 0;
		for (int k = 0; k < 16; ++k) {
			const int full = k & 1, v2 = (k >> 1) & 1, hard = (k >> 2) & 1;
			rng.fill(program.data(), program.size());
			for (int i = 0; i < RANDOMX_PROGRAM_MAX_SIZE; ++i) {
				Instr in = randomInstr(rng, (k & 8) ? (int)rng.below(ITYPE_COUNT - 1) : ISUB_R, 0);
				if (!(k & 8) || rng.chance(1, 8)) {
					// the defect value and its neighbours / the boundaries of the emitter's immediate forms
					static const uint32_t f1imm[] = { 0x80000000u, 0x80000000u, 0x80000000u, 0x7fffffffu, 0x80000001u, 0xff000001u, 0xff000000u, 0x00ffffffu, 0x01000000u, 0x01000001u, 5, 0xfffffffbu, 0, 1, 0xffffffffu, 0xfffff000u, 0x00001000u };
					in.opcode = opcodeOf(rng, ISUB_R); in.src = (uint8_t)(in.dst + 8 * rng.below(4)); in.imm = f1imm[rng.below(sizeof(f1imm) / sizeof(f1imm[0]))];
				}
				putInstr(program.data(), i, in);
			}
			const unsigned iterations = 1 + rng.below(8), rmode = 0;
			rng.fill(spInit.data(), spInit.size());
			randomx_vm* vm = vms[full][v2];
			uint8_t* vmSp = (uint8_t*)const_cast<void*>(vm->getScratchpad());
			memcpy(vmSp, spInit.data(), spInit.size());
			randomx_verif::hooks().programOverride = program.data(); randomx_verif::hooks().iterLimit = iterations;
			uint64_t dummySeed[8] = {};
			_mm_setcsr(kMxcsrDefault | (rmode << 13)); vm->run(dummySeed); _mm_setcsr(0x1F80);
			memcpy(spEmu.data(), spInit.data(), spInit.size());
			const int flags = RANDOMX_FLAG_JIT | (hard ? RANDOMX_FLAG_HARD_AES : 0) | (full ? RANDOMX_FLAG_FULL_MEM : 0) | (v2 ? RANDOMX_FLAG_V2 : 0);
			a64emu::RunResult res = a64emu::runProgram(program.data(), spEmu.data(), flags, !full, full ? nullptr : caches[0], full ? datasetMem : nullptr, iterations, rmode);
			totalInsns += res.executed; ++f1n;
			if (!res.ok || memcmp(res.reg, vm->getRegisterFile(), 256) != 0 || memcmp(spEmu.data(), vmSp, spEmu.size()) != 0) {
				++f1bad;
				if (f1bad <= 2) { fprintf(stderr, "F1 PROBE MISMATCH (%s %s, %u iterations)%s%s\n", full ? "full" : "light", v2 ? "v2" : "v1", iterations, res.ok ? "" : ": ", res.error.c_str()); if (res.ok) hexdiff("reg", res.reg, (const uint8_t*)vm->getRegisterFile(), 64); }
			}
		}
		printf("directed probe F1 (ISUB_R src==dst, imm32=0x80000000 and neighbours): %u programs, %u mismatches%s\n", f1n, f1bad, f1bad ? "  <-- the A64 back-end of this tree still has defect F1 (see README.md)" : "");
		failures += f1bad;
	}

	for (unsigned caseNo = 0; caseNo < total; ++caseNo) {
		const bool fullLength = caseNo >= opt.n;
		int gen = fullLength ? (int)(caseNo % G_COUNT) : (int)rng.below(G_COUNT);
		if (!fullLength && rng.chance(1, 4)) gen = G_SINGLE;
		int singleType = 0;
		if (gen == G_SINGLE) { singleType = singleCursor++ % (ITYPE_COUNT - 1); }
		const std::string desc = generateProgram(rng, program.data(), gen, singleType);
		if (opt.avoidF1) avoidKnownFindings(program.data());
		const int full = (int)rng.below(2), v2 = (int)rng.below(2), hard = (int)rng.below(2);
		unsigned iterations = fullLength ? RANDOMX_PROGRAM_ITERATIONS : (rng.chance(1, 5) ? 1 + rng.below(3) : 1 + rng.below(64));
		const unsigned rmode = rng.chance(1, 2) ? 0 : rng.below(4);
		// scratchpad: random, sometimes sparse / all-zero / all-ones patterns
		switch (rng.below(10)) {
		case 0: memset(spInit.data(), 0, spInit.size()); break;
		case 1: memset(spInit.data(), 0xFF, spInit.size()); break;
		case 2: { rng.fill(spInit.data(), spInit.size()); uint64_t* q = (uint64_t*)spInit.data(); for (size_t i = 0; i < spInit.size() / 8; ++i) q[i] &= 0x000000FF000000FFULL; break; }
		default: rng.fill(spInit.data(), spInit.size()); break;
		}

		if (opt.only >= 0 && (long)caseNo != opt.only) continue;
		if (opt.only >= 0 && opt.minimize) {
			// greedy delta debugging: replace instructions by "IROR_R r0, r0, 0" while the case keeps failing
			auto failing = [&](const std::vector<uint8_t>& prog, unsigned iters) -> bool {
				randomx_vm* vm = vms[full][v2];
				uint8_t* vmSp = (uint8_t*)const_cast<void*>(vm->getScratchpad());
				memcpy(vmSp, spInit.data(), spInit.size());
				randomx_verif::hooks().programOverride = prog.data(); randomx_verif::hooks().iterLimit = iters;
				uint64_t dummySeed[8] = {};
				_mm_setcsr(kMxcsrDefault | (rmode << 13)); vm->run(dummySeed); _mm_setcsr(0x1F80);
				memcpy(spEmu.data(), spInit.data(), spInit.size());
				const int flags = RANDOMX_FLAG_JIT | (hard ? RANDOMX_FLAG_HARD_AES : 0) | (full ? RANDOMX_FLAG_FULL_MEM : 0) | (v2 ? RANDOMX_FLAG_V2 : 0);
				a64emu::RunResult res = a64emu::runProgram(prog.data(), spEmu.data(), flags, !full, full ? nullptr : caches[0], full ? datasetMem : nullptr, iters, rmode);
				return !res.ok || memcmp(res.reg, vm->getRegisterFile(), 256) != 0 || memcmp(spEmu.data(), vmSp, spEmu.size()) != 0;
			};
			unsigned iters = iterations;
			while (iters > 1 && failing(program, iters - 1)) --iters;
			const Instr noop = { (uint8_t)g_first[IROR_R], 0, 0, 0, 0 };
			std::vector<uint8_t> cur = program;
			if (!failing(cur, iters)) {
				printf("note: case %u does not fail before minimisation; looking for single replacements that make it fail\n", caseNo);
				for (int i = RANDOMX_PROGRAM_MAX_SIZE - 1; i >= 0; --i) { std::vector<uint8_t> t = cur; putInstr(t.data(), i, noop); if (failing(t, iters)) { printf("  replacing [%d] makes it fail\n", i); } }
			}
			for (bool changed = true; changed; ) {
				changed = false;
				for (int i = RANDOMX_PROGRAM_MAX_SIZE - 1; i >= 0; --i) {
					if (memcmp(cur.data() + 128 + 8 * i, &noop, 4) == 0 && cur[128 + 8 * i + 4] == 0) continue;
					std::vector<uint8_t> t = cur; putInstr(t.data(), i, noop); if (failing(t, iters)) { cur = t; changed = true; }
				}
				while (iters > 1 && failing(cur, iters - 1)) { --iters; changed = true; }
			}
			printf("minimized case %u (%s %s %s, %u iterations, rmode %u): remaining instructions\n", caseNo, full ? "full" : "light", v2 ? "v2" : "v1", hard ? "hardAES" : "softAES", iters, rmode);
			for (int i = 0; i < RANDOMX_PROGRAM_MAX_SIZE; ++i) {
				const uint8_t* p = cur.data() + 128 + 8 * i; uint32_t imm; memcpy(&imm, p + 4, 4);
				if (p[0] == noop.opcode && p[1] == 0 && p[2] == 0 && imm == 0) continue;
				int ty = 0; while (ty + 1 < ITYPE_COUNT && g_first[ty + 1] <= p[0]) ++ty;
				while (kFreq[ty] == 0) --ty;
				printf("  [%3d] %-9s op=%3u dst=%u src=%u mod=0x%02x imm=0x%08x\n", i, kTypeNames[ty], p[0], p[1] & 7, p[2] & 7, p[3], imm);
			}
			program = cur; iterations = iters;
		}

		// ---- interpreter (native) ----
		randomx_vm* vm = vms[full][v2];
		uint8_t* vmSp = (uint8_t*)const_cast<void*>(vm->getScratchpad());
		memcpy(vmSp, spInit.data(), spInit.size());
		randomx_verif::hooks().programOverride = program.data();
		randomx_verif::hooks().iterLimit = iterations;
		uint64_t dummySeed[8] = {};
		auto ti0 = std::chrono::steady_clock::now();
		_mm_setcsr(kMxcsrDefault | (rmode << 13));
		vm->run(dummySeed);
		const unsigned interpRmode = (_mm_getcsr() >> 13) & 3;
		_mm_setcsr(0x1F80);
		auto ti1 = std::chrono::steady_clock::now();
		uint8_t refReg[256]; memcpy(refReg, vm->getRegisterFile(), 256);

		// ---- emulated A64 ----
		memcpy(spEmu.data(), spInit.data(), spInit.size());
		const int flags = RANDOMX_FLAG_JIT | (hard ? RANDOMX_FLAG_HARD_AES : 0) | (full ? RANDOMX_FLAG_FULL_MEM : 0) | (v2 ? RANDOMX_FLAG_V2 : 0);
		a64emu::RunResult res;
		auto te0 = std::chrono::steady_clock::now();
		const bool oneShot = caseNo % 5 == 4;
		if (oneShot) res = a64emu::runProgram(program.data(), spEmu.data(), flags, !full, full ? nullptr : caches[0], full ? datasetMem : nullptr, iterations, rmode);
		else {
			a64emu::Machine& m = *machines[full][hard]; m.setFlags(flags);
			m.entryFpcrExtra = (caseNo % 7 == 3) ? (1u << 24) : 0;   // every 7th run with FPCR.FZ = 1: must not change anything (no subnormals are reachable)
			res = m.run(program.data(), spEmu.data(), iterations, rmode);
		}
		auto te1 = std::chrono::steady_clock::now();
		totalInsns += res.executed;
		if (fullLength) { emuSecondsFull += std::chrono::duration<double>(te1 - te0).count(); ++fullRuns; }
		else { emuSecondsShort += std::chrono::duration<double>(te1 - te0).count(); interpSecondsShort += std::chrono::duration<double>(ti1 - ti0).count(); ++shortRuns; shortIters += iterations; }

		char tag[256];
		snprintf(tag, sizeof(tag), "case %u seed %" PRIu64 " gen=%s %s %s %s iterations=%u rmode=%u %s", caseNo, opt.seed, desc.c_str(), full ? "full" : "light", v2 ? "v2" : "v1",
			hard ? "hardAES" : "softAES", iterations, rmode, oneShot ? "one-shot" : "persistent");
		bool bad = false;
		if (!res.ok) {
			if (res.unmodelled || res.budgetExhausted) { ++inconclusive; fprintf(stderr, "INCONCLUSIVE %s: %s\n", tag, res.error.c_str()); }
			else { bad = true; fprintf(stderr, "EMULATOR ERROR %s: %s\n", tag, res.error.c_str()); }
		}
		else {
			if (memcmp(res.reg, refReg, 256) != 0) { bad = true; fprintf(stderr, "REGISTER FILE MISMATCH %s\n", tag); hexdiff("reg", res.reg, refReg, 256); }
			if (memcmp(spEmu.data(), vmSp, spEmu.size()) != 0) {
				bad = true; size_t first = 0; while (spEmu[first] == vmSp[first]) ++first; size_t cnt = 0; for (size_t i = 0; i < spEmu.size(); ++i) cnt += spEmu[i] != vmSp[i];
				fprintf(stderr, "SCRATCHPAD MISMATCH %s: %zu bytes differ, first at +0x%zx\n", tag, cnt, first);
			}
			if (res.fpcrRMode != interpRmode) { bad = true; fprintf(stderr, "ROUNDING MODE MISMATCH %s: emulated %u interpreter %u\n", tag, res.fpcrRMode, interpRmode); }
			if (res.fpcrRMode != rmode) ++roundingModeChanges;
		}
		if (bad) {
			++failures;
			if (!opt.dump.empty()) {
				char path[512]; snprintf(path, sizeof(path), "%s/case%u.program", opt.dump.c_str(), caseNo);
				if (FILE* f = fopen(path, "wb")) { fwrite(program.data(), 1, program.size(), f); fclose(f); }
				a64emu::Machine m(flags); if (full) m.setDataset(datasetMem); else m.setCache(caches[0]);
				std::vector<uint8_t> sp(spInit); m.run(program.data(), sp.data(), iterations, rmode);
				snprintf(path, sizeof(path), "%s/case%u.code.bin", opt.dump.c_str(), caseNo); a64emu::dumpCode(m, path);
			}
			if (!opt.keepGoing && failures >= 10) { fprintf(stderr, "too many failures, stopping\n"); break; }
		}
		++compared; ++perGen[gen]; ++perMode[full][v2];
		if (opt.verbose) printf("%s: %s (%" PRIu64 " instructions)\n", tag, bad ? "FAIL" : "ok", res.executed);
	}
	randomx_verif::hooks().programOverride = nullptr; randomx_verif::hooks().iterLimit = 0;
	for (int full = 0; full < 2; ++full) for (int hard = 0; hard < 2; ++hard) { for (size_t i = 0; i < opCount.size(); ++i) opCount[i] += machines[full][hard]->opCount[i]; delete machines[full][hard]; }
	for (int full = 0; full < 2; ++full) for (int v2 = 0; v2 < 2; ++v2) randomx_destroy_vm(vms[full][v2]);

	printf("programs: %u compared (register file + 2 MiB scratchpad + final rounding mode), %u failures, %u inconclusive\n", compared, failures, inconclusive);
	printf("  by mode: light/v1 %u, light/v2 %u, full/v1 %u, full/v2 %u;  %u runs ended in a rounding mode different from the entry mode\n", perMode[0][0], perMode[0][1], perMode[1][0], perMode[1][1], roundingModeChanges);
	printf("  by generator:"); for (int g = 0; g < G_COUNT; ++g) printf(" %s=%u", kGenNames[g], perGen[g]); printf("\n");
	if (shortRuns) printf("speed: short runs (1..64 iterations, avg %.1f): %.2f ms/program emulated (%.0f programs/s), interpreter %.3f ms/program\n", (double)shortIters / shortRuns,
		1e3 * emuSecondsShort / shortRuns, shortRuns / emuSecondsShort, 1e3 * interpSecondsShort / shortRuns);
	if (fullRuns) printf("speed: full-length runs (%d iterations): %.1f ms/program emulated (%.2f programs/s)\n", RANDOMX_PROGRAM_ITERATIONS, 1e3 * emuSecondsFull / fullRuns, fullRuns / emuSecondsFull);
	printf("emulated A64 instructions: %" PRIu64 "\n", totalInsns);
	if (opt.stats) {
		printf("executed encoding classes:\n");
		for (size_t i = 1; i < opCount.size(); ++i) printf("  %-60s %14" PRIu64 "%s\n", a64emu::Cpu::opName((unsigned)i), opCount[i], opCount[i] ? "" : "   (never executed)");
	}
	for (int k = 0; k < 2; ++k) randomx_release_cache(caches[k]);
	if (failures) { printf("RESULT: FAIL (%u)\n", failures); return 1; }
	printf("RESULT: PASS%s\n", inconclusive ? " (with inconclusive cases)" : "");
	return 0;
}
