#!/bin/bash
# sensitivity.sh [repo_dir] [scratch_dir] [programs]
#
# Demonstrates that the self-test is sensitive to defects in the RV64 back-end: each mutant changes ONE opcode
# constant / register number / immediate in a scratch COPY of the emitter (or of the runtime .S) - never in the
# repository - and the self-test must then report a disagreement (exit status 1).  The last two entries re-introduce
# the defect that this harness found in the repository (h_ISUB_R, src == dst, imm32 = 0x80000000; fixed by commit
# b0b62c0): it must be detected again, and with --filter-isub-intmin --tolerate-isub-intmin it must be reported as
# KNOWN-FINDING only (exit 0), which shows that nothing else disagrees on such a tree.
#
# Exit status 0: every mutant was detected and the fix experiment passed.
set -uo pipefail
HERE=$(cd "$(dirname "$0")" && pwd)
REPO=${1:-/repo}
SCRATCH=${2:-/tmp/emu-rv64-scratch/sensitivity}
PROGRAMS=${3:-600}
mkdir -p "$SCRATCH"
SCRATCH=$(cd "$SCRATCH" && pwd)
export HOSTLIB_DIR=${HOSTLIB_DIR:-$SCRATCH/hostlib}
SRC="$REPO/src/jit_compiler_rv64.cpp"

# name | file (emitter or static) | python expression doing the replacement on the text `s` | expected exit status | extra test args
MUTANTS=(
"mulhu-opcode|emitter|s.replace('constexpr uint32_t MULHU    = 0x02003033;','constexpr uint32_t MULHU    = 0x02001033;')|1|"
"fsub-opcode|emitter|s.replace('constexpr uint32_t FSUB_D   = 0x0a007053;','constexpr uint32_t FSUB_D   = 0x02007053;')|1|"
"imulh_m-register|emitter|s.replace('state.emit(rvi(rv64::MULHU, regR(isn.dst), regR(isn.dst), Tmp1Reg));\n\t}\n\n\tstatic void h_ISMULH_R','state.emit(rvi(rv64::MULHU, regR(isn.dst), regR(isn.dst), Tmp2Reg));\n\t}\n\n\tstatic void h_ISMULH_R')|1|"
"cfround-rotate|emitter|s.replace('int32_t imm = (isn.getImm32() - 2) & 63; //-2','int32_t imm = (isn.getImm32() - 1) & 63; //-2')|1|"
"cbranch-beqz-bnez|emitter|s.replace('constexpr uint16_t C_BEQZ   =     0xc001;','constexpr uint16_t C_BEQZ   =     0xe001;')|1|"
"istore-l3-mask|emitter|s.replace('buf.emit(rvi(rv64::AND, Tmp2Reg, Tmp2Reg, MaskL3Reg));','buf.emit(rvi(rv64::AND, Tmp2Reg, Tmp2Reg, MaskL2Reg));')|1|"
"fscal-mask-register|emitter|s.replace('constexpr int MaskFscalReg = 12; //x12','constexpr int MaskFscalReg = 13; //x12')|1|"
"rcp-literal-offset|emitter|s.replace('constexpr int RcpLiteralsOffset = 144;','constexpr int RcpLiteralsOffset = 152;')|1|"
"ssh-imul_rcp-register|emitter|s.replace('buf.emit(rvi(rv64::MUL, regSS(isn.dst), regSS(isn.dst), SshRcpReg));','buf.emit(rvi(rv64::MUL, regSS(isn.dst), regSS(isn.dst), SshPoolReg));')|1|"
"iror-shift-direction|emitter|s.replace('//srl x9, x{dst}, x{src}\n\t\t\tstate.emit(rvi(rv64::SRL, Tmp2Reg, regR(isn.dst), regR(isn.src)));','//srl x9, x{dst}, x{src}\n\t\t\tstate.emit(rvi(rv64::SLL, Tmp2Reg, regR(isn.dst), regR(isn.src)));')|1|"
"static-softaes-xor|static|s.replace('    lwu x15, 1024(x15)\n    xor x9, x9, x14\n\n    slli x11, x11, 32\n    slli x9, x9, 32\n    or x30, x8, x9\n    or x31, x10, x11\n    xor x30, x30, x15','    lwu x15, 1024(x15)\n    xor x9, x9, x14\n\n    slli x11, x11, 32\n    slli x9, x9, 32\n    or x30, x8, x9\n    or x31, x10, x11\n    xor x31, x30, x15')|1|"
"static-light-item-shift|static|s.replace('DECL(randomx_riscv64_data_read_light_v1):\n    slli x8, x8, 32\n    /* update \"mp\" */\n    xor x25, x25, x8\n    /* the next dataset item */\n    and x7, x25, x1\n    srli x7, x7, 6','DECL(randomx_riscv64_data_read_light_v1):\n    slli x8, x8, 32\n    /* update \"mp\" */\n    xor x25, x25, x8\n    /* the next dataset item */\n    and x7, x25, x1\n    srli x7, x7, 5')|1|"
"static-epilogue-missing-restore|static|s.replace('    ld x23, 88(sp)\n    fld f8, 128(sp)','    ld x23, 80(sp)\n    fld f8, 128(sp)')|1|"
"REVERT-isub_r-intmin-fix|emitter|s.replace('emitImm32(state, unsigned32ToSigned2sCompl(isn.getImm32()), Tmp1Reg);\n\t\t\t//sub x{dst}, x{dst}, x8\n\t\t\tstate.emit(rvi(rv64::SUB, regR(isn.dst), regR(isn.dst), Tmp1Reg));\n\t\t}\n\t}\n\n\tstatic void h_ISUB_M','emitImm32(state, unsigned32ToSigned2sCompl(-isn.getImm32()), regR(isn.dst), regR(isn.dst), Tmp1Reg);\n\t\t}\n\t}\n\n\tstatic void h_ISUB_M')|1|"
"REVERT-isub_r-intmin-fix-tolerated|emitter|s.replace('emitImm32(state, unsigned32ToSigned2sCompl(isn.getImm32()), Tmp1Reg);\n\t\t\t//sub x{dst}, x{dst}, x8\n\t\t\tstate.emit(rvi(rv64::SUB, regR(isn.dst), regR(isn.dst), Tmp1Reg));\n\t\t}\n\t}\n\n\tstatic void h_ISUB_M','emitImm32(state, unsigned32ToSigned2sCompl(-isn.getImm32()), regR(isn.dst), regR(isn.dst), Tmp1Reg);\n\t\t}\n\t}\n\n\tstatic void h_ISUB_M')|0|--filter-isub-intmin --tolerate-isub-intmin"
)

FAILED=0
SUMMARY=()
for entry in "${MUTANTS[@]}"; do
	IFS='|' read -r NAME KIND EXPR EXPECT EXTRA <<< "$entry"
	DIR="$SCRATCH/$NAME"
	rm -rf "$DIR"
	mkdir -p "$DIR/src"
	if [ "$KIND" = "emitter" ]; then
		IN="$SRC"; OUTF="$DIR/src/jit_compiler_rv64.cpp"
	else
		# the runtime .S includes configuration.h: give the mutated copy its own src directory with that header
		IN="$REPO/src/jit_compiler_rv64_static.S"; OUTF="$DIR/src/jit_compiler_rv64_static.S"
		cp "$REPO/src/configuration.h" "$DIR/src/"
	fi
	if ! python3 - "$IN" "$OUTF" "$EXPR" <<'EOF'
import sys
s = open(sys.argv[1]).read()
t = eval(sys.argv[3])
if t == s:
    sys.exit("mutation did not apply")
open(sys.argv[2], 'w').write(t)
EOF
	then
		echo "!! $NAME: mutation pattern not found (repository changed?)"
		FAILED=1
		SUMMARY+=("$NAME: NOT APPLIED")
		continue
	fi
	if [ "$KIND" = "emitter" ]; then
		EMITTER_SRC="$OUTF" "$HERE/build_test.sh" "$REPO" "$DIR" -- --programs "$PROGRAMS" --threads 8 $EXTRA > "$DIR/log.txt" 2>&1
	else
		STATIC_REPO="$DIR" "$HERE/build_test.sh" "$REPO" "$DIR" -- --programs "$PROGRAMS" --threads 8 $EXTRA > "$DIR/log.txt" 2>&1
	fi
	RC=$?
	LINE=$(grep -E "mismatches:" "$DIR/log.txt" | tail -1 | sed 's/^ *//')
	if [ "$RC" = "$EXPECT" ]; then
		SUMMARY+=("$NAME: exit $RC as expected   [$LINE]")
	else
		SUMMARY+=("$NAME: exit $RC, EXPECTED $EXPECT   [$LINE]  (see $DIR/log.txt)")
		FAILED=1
	fi
	echo "${SUMMARY[-1]}"
done
echo "---- sensitivity summary ----"
printf '%s\n' "${SUMMARY[@]}"
exit $FAILED
