#!/bin/bash
# gen_isa_test.sh <out_dir>
# Assembles isa_test.S (rv64gc) and isa_test_zb.S (rv64gc_zba_zbb) into raw blobs for the self-test
# (--isa-blob / --isa-zb-blob).  Entry point of each blob is offset 0.
set -euo pipefail
HERE=$(cd "$(dirname "$0")" && pwd)
OUT=${1:?usage: gen_isa_test.sh <out_dir>}
CLANG=${CLANG:-clang-14}
mkdir -p "$OUT"
gen() { # source march output-stem
	"$CLANG" --target=riscv64-linux-gnu -march="$2" -mno-relax -c "$1" -o "$OUT/$3.o"
	if llvm-objdump-14 -r "$OUT/$3.o" | grep -q R_RISCV; then
		echo "gen_isa_test.sh: unresolved relocations in $1" >&2
		exit 2
	fi
	llvm-objcopy-14 -O binary --only-section=.text "$OUT/$3.o" "$OUT/$3.bin"
	llvm-objdump-14 -d -M no-aliases --mattr=+m,+a,+f,+d,+c,+zba,+zbb "$OUT/$3.o" > "$OUT/$3.lst"
}
gen "$HERE/isa_test.S" rv64gc isa_test
gen "$HERE/isa_test_zb.S" rv64gc_zba_zbb isa_test_zb
echo "gen_isa_test.sh: $(stat -c %s "$OUT/isa_test.bin") + $(stat -c %s "$OUT/isa_test_zb.bin") bytes"
