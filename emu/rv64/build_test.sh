#!/bin/bash
# build_test.sh [repo_dir] [scratch_dir] [-- test arguments...]
#
# End-to-end build + self-test of the RV64 JIT emulator from the CURRENT tree of <repo_dir>:
#   1. cross-assemble the runtime (gen_static.sh)
#   2. normal host build of librandomx.a with the verification hooks (interpreter = the reference)
#   3. riscv world: jit_compiler_rv64.cpp (unmodified) + rv64_shim.cpp + rv64_stubs.cpp compiled with
#      -D__riscv -D__riscv_xlen=64, merged with the runtime blob into ONE relocatable object whose only global
#      symbols are rv64shim_* (so that randomx::cpu, randomx::Cpu::Cpu() etc. cannot collide with librandomx.a)
#   4. host world: rv64emu.cpp, test_main.cpp compiled normally
#   5. run the self-test; exit status 0 = agreement
#
# Environment:
#   EMITTER_SRC   alternative emitter source (sensitivity runs use a mutated scratch copy; default <repo>/src/jit_compiler_rv64.cpp)
#   STATIC_REPO   alternative repo dir for the runtime .S (default <repo_dir>)
#   SANITIZE=1    build harness + emitter side with -fsanitize=address,undefined.  The unmodified emitter uses
#                 `(imm << n) >> n` on negative ints (7 places; UB before C++20, two's complement with GCC/Clang):
#                 UBSan's shift checks are switched off for that ONE translation unit unless EMITTER_UBSAN_SHIFT=1
#   EXTRA_RV_DEFS extra defines for the riscv world (e.g. "-D__riscv_zba -D__riscv_zbb" together with RV64_MARCH=rv64gc_zba_zbb)
#   HOSTLIB_DIR   build directory of the host librandomx (default <scratch_dir>/hostlib; created when missing) - lets
#                 several scratch dirs (sensitivity mutants, sanitizer build) share one reference library
#   RV64_MARCH    -march for the runtime .S (default rv64gc, like CMakeLists.txt)
#   JOBS          parallel jobs for ninja (default 8)
set -euo pipefail
HERE=$(cd "$(dirname "$0")" && pwd)
REPO=${1:-/repo}
SCRATCH=${2:-/tmp/emu-rv64-scratch/build}
shift $(( $# > 2 ? 2 : $# )) || true
if [ "${1:-}" = "--" ]; then shift; fi
TEST_ARGS=("$@")

CXX=${CXX:-g++}
CC=${CC:-gcc}
JOBS=${JOBS:-8}
EMITTER_SRC=${EMITTER_SRC:-$REPO/src/jit_compiler_rv64.cpp}
STATIC_REPO=${STATIC_REPO:-$REPO}
MODEL_DIR=${MODEL_DIR:-$HERE/../../model}
HOSTLIB_DIR=${HOSTLIB_DIR:-}
SAN=""
if [ "${SANITIZE:-0}" = "1" ]; then SAN="-fsanitize=address,undefined -fno-omit-frame-pointer"; fi

mkdir -p "$SCRATCH"
SCRATCH=$(cd "$SCRATCH" && pwd)
OBJ="$SCRATCH/obj"
mkdir -p "$OBJ"
if [ -z "$HOSTLIB_DIR" ]; then HOSTLIB_DIR="$SCRATCH/hostlib"; fi

echo "== [1/5] cross-assembling the RV64 runtime"
"$HERE/gen_static.sh" "$STATIC_REPO" "$SCRATCH/gen"

"$HERE/gen_isa_test.sh" "$SCRATCH/gen"

echo "== [2/5] host librandomx (hooks on)"
if [ ! -f "$HOSTLIB_DIR/build.ninja" ]; then
	cmake -G Ninja -S "$REPO" -B "$HOSTLIB_DIR" -DCMAKE_BUILD_TYPE=Custom \
		-DCMAKE_C_FLAGS="-O2 -g -DNDEBUG -DRANDOMX_VERIF" -DCMAKE_CXX_FLAGS="-O2 -g -DNDEBUG -DRANDOMX_VERIF" > "$SCRATCH/cmake.log" 2>&1 \
		|| { cat "$SCRATCH/cmake.log"; exit 2; }
fi
ninja -j "$JOBS" -C "$HOSTLIB_DIR" randomx > "$SCRATCH/ninja.log" 2>&1 || { tail -50 "$SCRATCH/ninja.log"; exit 2; }

COMMON="-std=gnu++17 -O2 -g -Wall -Wextra -DNDEBUG -DRANDOMX_VERIF $SAN"
RVDEFS="-D__riscv -D__riscv_xlen=64 ${EXTRA_RV_DEFS:-}"

echo "== [3/5] riscv world (emitter: $EMITTER_SRC)"
# -w for the emitter: it is third-party code compiled unmodified
EMITTER_SAN=""
if [ -n "$SAN" ] && [ "${EMITTER_UBSAN_SHIFT:-0}" != "1" ]; then EMITTER_SAN="-fno-sanitize=shift"; fi
$CXX $COMMON $EMITTER_SAN -w $RVDEFS -I"$REPO/src" -c "$EMITTER_SRC" -o "$OBJ/jit_compiler_rv64.o"
$CXX $COMMON $RVDEFS -I"$REPO/src" -I"$HERE" -c "$HERE/rv64_shim.cpp" -o "$OBJ/rv64_shim.o"
$CXX $COMMON $RVDEFS -I"$REPO/src" -I"$HERE" -c "$HERE/rv64_stubs.cpp" -o "$OBJ/rv64_stubs.o"
$CC -c "$SCRATCH/gen/rv64_static_blob.S" -o "$OBJ/rv64_static_blob.o"
ld -r --force-group-allocation "$OBJ/jit_compiler_rv64.o" "$OBJ/rv64_shim.o" "$OBJ/rv64_stubs.o" "$OBJ/rv64_static_blob.o" -o "$OBJ/rv64_world_all.o"
objcopy --wildcard --keep-global-symbol='rv64shim_*' "$OBJ/rv64_world_all.o" "$OBJ/rv64_world.o"

echo "== [4/5] host world"
$CXX $COMMON -I"$REPO/src" -I"$HERE" -I"$MODEL_DIR" -c "$HERE/rv64emu.cpp" -o "$OBJ/rv64emu.o"
$CXX $COMMON -I"$REPO/src" -I"$HERE" -c "$HERE/test_main.cpp" -o "$OBJ/test_main.o"
$CXX $SAN -o "$SCRATCH/rv64emu_selftest" "$OBJ/test_main.o" "$OBJ/rv64emu.o" "$OBJ/rv64_world.o" "$HOSTLIB_DIR/librandomx.a" -lpthread

echo "== [5/5] self-test"
set +e
"$SCRATCH/rv64emu_selftest" --fail-dir "$SCRATCH" --isa-blob "$SCRATCH/gen/isa_test.bin" --isa-zb-blob "$SCRATCH/gen/isa_test_zb.bin" "${TEST_ARGS[@]}"
RC=$?
set -e
echo "== self-test exit status $RC"
exit $RC
