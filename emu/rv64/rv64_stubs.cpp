/*
riscv-world stubs for everything the unmodified <repo>/src/jit_compiler_rv64.cpp references outside of
the scalar back-end:

  * randomx::cpu            (src/cpu.hpp, src/cpu.cpp): reports "no vector extension, no hardware AES", which
                            makes JitCompilerRV64::JitCompilerRV64() leave vectorCode == nullptr, so that
                            generateProgram / generateProgramLight / generateSuperscalarHash take the scalar path.
  * the RVV back-end entry points (src/jit_compiler_rv64_vector.h, src/jit_compiler_rv64_vector_static.h):
                            unreachable with the cpu stub; they abort loudly if ever called.

COMPILE WITH:  -D__riscv -D__riscv_xlen=64 -DRANDOMX_VERIF -DNDEBUG -I<repo>/src
The definitions collide by name with the host-world librandomx (randomx::cpu, randomx::Cpu::Cpu()); the
build localises them (ld -r + objcopy --keep-global-symbol, see build_test.sh).
*/
#if !defined(__riscv)
#error "rv64_stubs.cpp must be compiled with -D__riscv -D__riscv_xlen=64"
#endif

#include <cstdio>
#include <cstdlib>
#include "cpu.hpp"
#include "jit_compiler_rv64_vector.h"
#include "jit_compiler_rv64_vector_static.h"

namespace randomx {

	//all capability flags keep their in-class initialisers: aes_ = ssse3_ = avx2_ = rvv_ = false, rvv_length = 0
	Cpu::Cpu() {
	}

	const Cpu cpu;

	[[noreturn]] static void vectorStub(const char* name) {
		fprintf(stderr, "rv64_stubs: %s called - the RVV back-end is out of scope and must be unreachable\n", name);
		abort();
	}

	void* generateDatasetInitVectorRV64(uint8_t*, SuperscalarProgramList&, std::vector<uint64_t>&) {
		vectorStub("generateDatasetInitVectorRV64");
	}

	void* generateProgramVectorRV64(uint8_t*, Program&, ProgramConfiguration&, const uint8_t (&)[256], void*, uint32_t, randomx_flags) {
		vectorStub("generateProgramVectorRV64");
	}
}

extern "C" {
	void randomx_riscv64_vector_code_begin() { randomx::vectorStub("randomx_riscv64_vector_code_begin"); }
	void randomx_riscv64_vector_code_end() { randomx::vectorStub("randomx_riscv64_vector_code_end"); }
	void randomx_riscv64_vector_program_begin() { randomx::vectorStub("randomx_riscv64_vector_program_begin"); }
	void randomx_riscv64_vector_sshash_dataset_init(struct randomx_cache*, uint8_t*, uint32_t, uint32_t) { randomx::vectorStub("randomx_riscv64_vector_sshash_dataset_init"); }
}
