#!/bin/bash
# disasm.sh <code-buffer-dump.bin> [start-offset [stop-offset]]
# Disassembles a raw dump of the emitter's code buffer (Machine::dumpCode / --dump-code) as RV64GC code.
# llvm-objdump-14 cannot read raw binaries, so the dump is first wrapped into an ELF object.
set -euo pipefail
BIN=${1:?usage: disasm.sh <dump.bin> [start [stop]]}
START=${2:-0x1000}
STOP=${3:-}
TMP=$(mktemp --suffix=.o)
trap 'rm -f "$TMP"' EXIT
llvm-objcopy-14 -I binary -O elf64-littleriscv --rename-section=.data=.text,code "$BIN" "$TMP"
ARGS=(-D --mattr=+m,+a,+f,+d,+c,+zba,+zbb -M no-aliases -M numeric --start-address="$START")
if [ -n "$STOP" ]; then ARGS+=(--stop-address="$STOP"); fi
llvm-objdump-14 "${ARGS[@]}" "$TMP"
