/*
rv64emu - instruction-subset emulator for the machine code produced by RandomX's scalar RISC-V JIT back-end
(src/jit_compiler_rv64.cpp + src/jit_compiler_rv64_static.S) and a driver that reproduces what
CompiledVm / CompiledLightVm do around the generated functions.  See README.md.

Host-world file: compile NORMALLY (no -D__riscv), with -DRANDOMX_VERIF -DNDEBUG like the host librandomx.
*/
#pragma once

#include <cstdint>
#include <cstddef>
#include <cstdio>
#include <string>
#include <vector>

struct randomx_cache;

namespace rv64emu {

	// ------------------------------------------------------------------------------------------------------
	// CPU model
	// ------------------------------------------------------------------------------------------------------

	enum Perm : unsigned { PermR = 1, PermW = 2, PermX = 4 };

	struct Region {
		uint64_t base;
		uint64_t size;
		unsigned perm;
		const char* name;
	};

	enum class Stop {
		Returned,        //pc reached the return sentinel
		Unmodelled,      //an encoding or a condition outside of the model (INCONCLUSIVE, never a violation)
		OutOfBounds,     //load/store/fetch outside of the whitelist or against the permissions of a region
		Illegal,         //architecturally illegal: all-zero parcel, reserved rounding mode, misaligned jump target
		Limit            //instruction budget exhausted (non-termination suspected)
	};

	//RISC-V rounding mode encodings (frm / rm field)
	enum : uint32_t { RM_RNE = 0, RM_RTZ = 1, RM_RDN = 2, RM_RUP = 3, RM_RMM = 4, RM_DYN = 7 };

	//RandomX numbering (0 nearest, 1 down, 2 up, 3 zero) <-> RISC-V frm
	uint32_t frmFromRandomX(unsigned mode);
	unsigned randomXFromFrm(uint32_t frm);

	//every encoding the model implements (X-macro: identifier, mnemonic); anything else stops the run as "unmodelled"
#define RV64EMU_ENCODINGS(X) \
		X(FADD_D, "fadd.d") \
		X(FSUB_D, "fsub.d") \
		X(FMUL_D, "fmul.d") \
		X(FDIV_D, "fdiv.d") \
		X(FSQRT_D, "fsqrt.d") \
		X(FSGNJ_D, "fsgnj.d") \
		X(FSGNJN_D, "fsgnjn.d") \
		X(FSGNJX_D, "fsgnjx.d") \
		X(FCVT_D_W, "fcvt.d.w") \
		X(FCVT_D_WU, "fcvt.d.wu") \
		X(FCVT_D_L, "fcvt.d.l") \
		X(FCVT_D_LU, "fcvt.d.lu") \
		X(FMV_X_D, "fmv.x.d") \
		X(FMV_D_X, "fmv.d.x") \
		X(CSRRWI, "csrrwi") \
		X(CSRRW, "csrrw") \
		X(CSRRSI, "csrrsi") \
		X(CSRRS, "csrrs") \
		X(CSRRCI, "csrrci") \
		X(CSRRC, "csrrc") \
		X(LUI, "lui") \
		X(AUIPC, "auipc") \
		X(JAL, "jal") \
		X(JALR, "jalr") \
		X(BEQ, "beq") \
		X(BNE, "bne") \
		X(BLT, "blt") \
		X(BGE, "bge") \
		X(BLTU, "bltu") \
		X(BGEU, "bgeu") \
		X(LB, "lb") \
		X(LH, "lh") \
		X(LW, "lw") \
		X(LD, "ld") \
		X(LBU, "lbu") \
		X(LHU, "lhu") \
		X(LWU, "lwu") \
		X(SB, "sb") \
		X(SH, "sh") \
		X(SW, "sw") \
		X(SD, "sd") \
		X(ADDI, "addi") \
		X(SLTI, "slti") \
		X(SLTIU, "sltiu") \
		X(XORI, "xori") \
		X(ORI, "ori") \
		X(ANDI, "andi") \
		X(SLLI, "slli") \
		X(SRLI, "srli") \
		X(SRAI, "srai") \
		X(RORI, "rori") \
		X(ADDIW, "addiw") \
		X(SLLIW, "slliw") \
		X(SRLIW, "srliw") \
		X(SRAIW, "sraiw") \
		X(ADD, "add") \
		X(SLL, "sll") \
		X(SLT, "slt") \
		X(SLTU, "sltu") \
		X(XOR, "xor") \
		X(SRL, "srl") \
		X(OR, "or") \
		X(AND, "and") \
		X(SUB, "sub") \
		X(SRA, "sra") \
		X(MUL, "mul") \
		X(MULH, "mulh") \
		X(MULHSU, "mulhsu") \
		X(MULHU, "mulhu") \
		X(DIV, "div") \
		X(DIVU, "divu") \
		X(REM, "rem") \
		X(REMU, "remu") \
		X(SH1ADD, "sh1add") \
		X(SH2ADD, "sh2add") \
		X(SH3ADD, "sh3add") \
		X(ROL, "rol") \
		X(ROR, "ror") \
		X(ADDW, "addw") \
		X(SLLW, "sllw") \
		X(SRLW, "srlw") \
		X(SUBW, "subw") \
		X(SRAW, "sraw") \
		X(MULW, "mulw") \
		X(DIVW, "divw") \
		X(DIVUW, "divuw") \
		X(REMW, "remw") \
		X(REMUW, "remuw") \
		X(ADD_UW, "add.uw") \
		X(FENCE, "fence") \
		X(FENCE_I, "fence.i") \
		X(FLD, "fld") \
		X(FSD, "fsd") \
		X(C_ADDI4SPN, "c.addi4spn") \
		X(C_FLD, "c.fld") \
		X(C_LW, "c.lw") \
		X(C_LD, "c.ld") \
		X(C_FSD, "c.fsd") \
		X(C_SW, "c.sw") \
		X(C_SD, "c.sd") \
		X(C_ADDI, "c.addi") \
		X(C_NOP, "c.nop") \
		X(C_ADDIW, "c.addiw") \
		X(C_LI, "c.li") \
		X(C_ADDI16SP, "c.addi16sp") \
		X(C_LUI, "c.lui") \
		X(C_SRLI, "c.srli") \
		X(C_SRAI, "c.srai") \
		X(C_ANDI, "c.andi") \
		X(C_SUB, "c.sub") \
		X(C_XOR, "c.xor") \
		X(C_OR, "c.or") \
		X(C_AND, "c.and") \
		X(C_SUBW, "c.subw") \
		X(C_ADDW, "c.addw") \
		X(C_J, "c.j") \
		X(C_BEQZ, "c.beqz") \
		X(C_BNEZ, "c.bnez") \
		X(C_SLLI, "c.slli") \
		X(C_FLDSP, "c.fldsp") \
		X(C_LWSP, "c.lwsp") \
		X(C_LDSP, "c.ldsp") \
		X(C_JR, "c.jr") \
		X(C_MV, "c.mv") \
		X(C_JALR, "c.jalr") \
		X(C_ADD, "c.add") \
		X(C_FSDSP, "c.fsdsp") \
		X(C_SWSP, "c.swsp") \
		X(C_SDSP, "c.sdsp")

#define RV64EMU_ENUM(id, name) E_##id,
	enum Encoding : unsigned { RV64EMU_ENCODINGS(RV64EMU_ENUM) EncodingCount };
#undef RV64EMU_ENUM
	extern const char* const encodingNames[EncodingCount];

	class Cpu {
	public:
		uint64_t x[32];
		uint64_t f[32];            //binary64 bit patterns (only D is modelled, no NaN boxing issues arise)
		uint64_t pc;
		uint32_t frm;              //fcsr[7:5]
		uint64_t executed;
		uint64_t misaligned;       //number of naturally misaligned data accesses (allowed, but counted)

		bool enableZbaZbb = false; //model sh1add/sh2add/sh3add/add.uw/ror/rol/rori (only for emitters built with Zba/Zbb)
		FILE* trace = nullptr;     //if set, one line per executed instruction
		uint64_t* coverage = nullptr; //if set: EncodingCount counters, incremented per executed instruction

		Cpu();
		void reset();
		void clearRegions();
		void addRegion(const void* base, uint64_t size, unsigned perm, const char* name);
		//run from entry until pc == returnSentinel
		Stop run(uint64_t entry, uint64_t returnSentinel, uint64_t maxInstructions);
		const std::string& error() const { return error_; }
		//base used to print "+off" in messages (the start of the code buffer)
		void setCodeBase(uint64_t base) { codeBase_ = base; }

	private:
		std::vector<Region> regions_;
		const Region* lastR_ = nullptr;
		const Region* lastW_ = nullptr;
		const Region* lastX_ = nullptr;
		uint64_t codeBase_ = 0;
		std::string error_;
		Stop stop_ = Stop::Returned;

		const Region* lookup(uint64_t addr, unsigned n) const;
		bool memFault(const char* what, uint64_t addr, unsigned n, unsigned perm);
		template<typename T> bool load(uint64_t addr, T& out);
		template<typename T> bool store(uint64_t addr, T val);
		bool fetch(uint64_t addr, uint32_t& insn, unsigned& len);
		bool fail(Stop why, const char* fmt, ...) __attribute__((format(printf, 3, 4)));
		bool unmodelled(uint32_t insn, unsigned len);
		bool exec32(uint32_t insn, uint64_t& npc);
		bool exec16(uint16_t insn, uint64_t& npc);
		bool execFp(uint32_t insn);
		bool execCsr(uint32_t insn);
		bool fpResult(unsigned rd, uint64_t value, int sfFlags, uint64_t a, uint64_t b);
		bool resolveRm(uint32_t insn, int& sfMode);
	};

	// ------------------------------------------------------------------------------------------------------
	// Driver
	// ------------------------------------------------------------------------------------------------------

	struct RunResult {
		bool ok = false;           //the emulated function returned normally and (if checked) the ABI was respected
		bool unmodelled = false;   //INCONCLUSIVE: unmodelled encoding / subnormal / NaN / RMM
		bool outOfBounds = false;  //memory access outside of the whitelist (a meaningful finding)
		bool limit = false;        //instruction budget exhausted
		std::string error;         //empty iff ok
		std::string notes;         //non-fatal observations (e.g. misaligned access count)
		uint8_t reg[256];          //randomx::RegisterFile after the run (runProgram only)
		uint64_t executed = 0;     //number of RV64 instructions executed
		uint32_t frm = 0;          //RISC-V frm at return (RISC-V encoding; see randomXFromFrm)
		uint32_t codeBytes = 0;    //state.codePos after code generation (end of the generated code in the buffer)
	};

	struct Options {
		bool enableZbaZbb = false;
		bool checkAbi = true;          //verify that callee-saved registers and sp are restored
		uint64_t maxInstructions = 0;  //0 = automatic (generous bound derived from the iteration / item count)
		FILE* trace = nullptr;
		const char* dumpCodeTo = nullptr; //if set, the code buffer is written to this file after code generation
	};

	//One emitter instance (a JitCompilerRV64 behind the shim) plus an emulated stack; the analogue of one
	//CompiledVm / CompiledLightVm object.  Not thread safe; use one per thread.
	class Machine {
	public:
		Machine();
		~Machine();
		Machine(const Machine&) = delete;
		Machine& operator=(const Machine&) = delete;

		bool valid() const { return jit_ != nullptr; }
		const std::string& initError() const { return initError_; }
		Options options;
		uint64_t coverage[EncodingCount] = {}; //executed instructions per modelled encoding, accumulated over all runs

		RunResult runProgram(const uint8_t* program, uint8_t* scratchpad, int flags, bool lightMode,
			randomx_cache* cache, const uint8_t* datasetMemory, unsigned iterations, unsigned entryRoundingMode);
		RunResult initDataset(randomx_cache* cache, uint8_t* out, uint32_t startItem, uint32_t endItem);

		//code buffer of the emitter (for disassembly: llvm-objdump -D -b binary --triple=riscv64 ...)
		const uint8_t* code() const;
		uint32_t codeSize() const;
		uint32_t programEntryOffset() const;
		uint32_t dataInitEntryOffset() const;
		bool dumpCode(const char* path) const;

	private:
		void* jit_ = nullptr;
		std::string initError_;
		uint8_t* stack_ = nullptr;
		size_t stackSize_ = 0;
		bool generateSuperscalar(randomx_cache* cache, std::string& err);
		void finish(Cpu& cpu, Stop stop, RunResult& res, const uint64_t* savedX, const uint64_t* savedF, uint64_t sp0);
	};

	/*
	Free-function API (uses one thread_local Machine):

	program:           sizeof(randomx::Program) = 128 configuration bytes + RANDOMX_PROGRAM_MAX_SIZE instruction words
	scratchpad:        RANDOMX_SCRATCHPAD_L3 bytes, in/out
	flags:             randomx_flags as stored in JitCompilerRV64::flags by CompiledVm (only RANDOMX_FLAG_V2 matters)
	lightMode:         true: generateSuperscalarHash(cache) + generateProgramLight; false: generateProgram
	cache:             host-world initialised cache (light mode)
	datasetMemory:     randomx_dataset::memory (full mode), randomx::DatasetSize readable bytes
	iterations:        >= 1 (RANDOMX_PROGRAM_ITERATIONS in production)
	entryRoundingMode: RandomX numbering 0..3 (0 nearest, 1 down, 2 up, 3 toward zero) -> frm at function entry
	*/
	RunResult runProgram(const uint8_t* program, uint8_t* scratchpad, int flags, bool lightMode,
		randomx_cache* cache, const uint8_t* datasetMemory, unsigned iterations, unsigned entryRoundingMode);

	//Emulates getDatasetInitFunc()(cache, out, startItem, endItem) of a JitCompilerRV64 after
	//generateSuperscalarHash(cache->programs, cache->reciprocalCache); out receives (endItem-startItem)*64 bytes.
	RunResult initDataset(randomx_cache* cache, uint8_t* out, uint32_t startItem, uint32_t endItem);

	//the thread_local machine behind the free functions (to set options / dump code)
	Machine& threadMachine();
}
