/*
C-style boundary between the normally compiled ("host world") part of the harness and the translation
units that are compiled with -D__riscv -D__riscv_xlen=64 ("riscv world": the unmodified emitter
/repo/src/jit_compiler_rv64.cpp, rv64_shim.cpp, rv64_stubs.cpp).

Only raw pointers and fixed-width integers cross this boundary - no RandomX type, because several RandomX
headers change under -D__riscv (randomx::JitCompiler alias, randomx::Cpu layout, ...).
*/
#ifndef RV64_SHIM_H
#define RV64_SHIM_H

#include <stdint.h>
#include <stddef.h>

#ifdef __cplusplus
extern "C" {
#endif

/* layout facts of the riscv world, used by the host world for sanity checks and for the memory whitelist */
struct rv64shim_info {
	uint8_t* code;              /* JitCompilerRV64::state.code (start of the buffer = start of the literal pool page) */
	uint32_t codeSize;          /* JitCompilerRV64::getCodeSize() */
	uint32_t codePos;           /* state.codePos after the last generate* call */
	uint8_t* entryProgram;      /* what getProgramFunc() returns */
	uint8_t* entryDataInit;     /* what getDatasetInitFunc() returns */
	int      usesVectorCode;    /* != 0 if the compiler object chose the RVV back-end (must be 0 here) */
	uint32_t sizeofProgram;     /* sizeof(randomx::Program) in the riscv world */
	uint32_t sizeofInstruction; /* sizeof(randomx::Instruction) */
	uint32_t sizeofRegisterFile;
	uint32_t sizeofMemoryRegisters;
	uint32_t superscalarMaxSize;/* randomx::SuperscalarMaxSize */
	uint32_t cacheAccesses;     /* RANDOMX_CACHE_ACCESSES */
	uint32_t programSizeV1, programSizeV2;
	int      hasZba, hasZbb;    /* __riscv_zba / __riscv_zbb were defined when the emitter was compiled */
};

/* one SuperscalarHash program in raw form */
struct rv64shim_ssprog {
	const void* instructions;   /* size * 8 bytes (randomx::Instruction) */
	uint32_t size;
	int32_t addressRegister;
};

/* all functions returning int: 0 = success, otherwise err (if not NULL) holds a message */
void* rv64shim_create(char* err, size_t errLen);
void  rv64shim_destroy(void* jit);
void  rv64shim_set_flags(void* jit, int flags);
/* 0: RW (like enableWriting), 1: RX (enableExecution), 2: RWX (enableAll) */
void  rv64shim_protect(void* jit, int mode);
void  rv64shim_get_info(void* jit, struct rv64shim_info* out);
/* program: sizeof(randomx::Program) bytes (128 configuration bytes + instruction words) */
int   rv64shim_generate_program(void* jit, const void* program, const uint64_t eMask[2], const uint32_t readReg[4], char* err, size_t errLen);
int   rv64shim_generate_program_light(void* jit, const void* program, const uint64_t eMask[2], const uint32_t readReg[4], uint32_t datasetOffset, char* err, size_t errLen);
int   rv64shim_generate_superscalar(void* jit, const struct rv64shim_ssprog* programs, uint32_t numPrograms, const uint64_t* reciprocals, size_t numReciprocals, char* err, size_t errLen);

#ifdef __cplusplus
}
#endif

#endif
