/*
Self-test of rv64emu: compares the emulated RV64 JIT (real emitter + real runtime) against the real bytecode
interpreter of the host librandomx for generated programs, and the emulated dataset-init function against
randomx::initDatasetItem.

Host-world file: compile NORMALLY with -DRANDOMX_VERIF -DNDEBUG -I<repo>/src.

exit codes: 0 agreement, 1 disagreement (or emulated run failed), 2 harness failure, 3 unmodelled encoding seen
*/
#include <atomic>
#include <cinttypes>
#include <cstdio>
#include <cstdlib>
#include <cstring>
#include <mutex>
#include <string>
#include <thread>
#include <vector>
#include <chrono>
#include <sys/mman.h>
#include <unistd.h>
#include <xmmintrin.h>
#include <cfenv>

#include "randomx.h"
#include "common.hpp"
#include "program.hpp"
#include "dataset.hpp"
#include "virtual_machine.hpp"
#include "verif_hooks.hpp"
#include "rv64emu.hpp"

#ifndef RANDOMX_VERIF
#error "compile with -DRANDOMX_VERIF"
#endif

namespace randomx_verif {
	struct Access {
		static uint8_t* scratchpad(randomx_vm* vm) { return vm->scratchpad; }
	};
}

namespace {

	constexpr size_t ProgramBytes = sizeof(randomx::Program);
	static_assert(ProgramBytes == 128 + 8 * RANDOMX_PROGRAM_MAX_SIZE, "unexpected program size");

	// ---------------------------------------------------------------------------------------------------------
	// PRNG
	// ---------------------------------------------------------------------------------------------------------
	struct Rng {
		uint64_t s[4];
		static uint64_t splitmix(uint64_t& x) {
			uint64_t z = (x += 0x9e3779b97f4a7c15ULL);
			z = (z ^ (z >> 30)) * 0xbf58476d1ce4e5b9ULL;
			z = (z ^ (z >> 27)) * 0x94d049bb133111ebULL;
			return z ^ (z >> 31);
		}
		explicit Rng(uint64_t seed, uint64_t stream = 0) {
			uint64_t x = seed ^ (stream * 0xd1342543de82ef95ULL + 0x2545f4914f6cdd1dULL);
			for (auto& v : s) v = splitmix(x);
		}
		static uint64_t rotl(uint64_t x, int k) { return (x << k) | (x >> (64 - k)); }
		uint64_t next() {
			const uint64_t result = rotl(s[1] * 5, 7) * 9;
			const uint64_t t = s[1] << 17;
			s[2] ^= s[0]; s[3] ^= s[1]; s[1] ^= s[2]; s[0] ^= s[3];
			s[2] ^= t;
			s[3] = rotl(s[3], 45);
			return result;
		}
		uint32_t below(uint32_t n) { return (uint32_t)((next() >> 32) * (uint64_t)n >> 32); }
		bool chance(uint32_t percent) { return below(100) < percent; }
		void fill(void* p, size_t n) {
			uint8_t* b = (uint8_t*)p;
			while (n >= 8) { uint64_t v = next(); memcpy(b, &v, 8); b += 8; n -= 8; }
			if (n) { uint64_t v = next(); memcpy(b, &v, n); }
		}
	};

	// ---------------------------------------------------------------------------------------------------------
	// instruction types and opcode ranges (doc/specs.md 5.x; frequencies from configuration.h)
	// ---------------------------------------------------------------------------------------------------------
	enum Type {
		IADD_RS, IADD_M, ISUB_R, ISUB_M, IMUL_R, IMUL_M, IMULH_R, IMULH_M, ISMULH_R, ISMULH_M, IMUL_RCP, INEG_R, IXOR_R, IXOR_M,
		IROR_R, IROL_R, ISWAP_R, FSWAP_R, FADD_R, FADD_M, FSUB_R, FSUB_M, FSCAL_R, FMUL_R, FDIV_M, FSQRT_R, CBRANCH, CFROUND, ISTORE, NOP, TypeCount
	};
	const char* const typeNames[TypeCount] = {
		"IADD_RS", "IADD_M", "ISUB_R", "ISUB_M", "IMUL_R", "IMUL_M", "IMULH_R", "IMULH_M", "ISMULH_R", "ISMULH_M", "IMUL_RCP", "INEG_R", "IXOR_R", "IXOR_M",
		"IROR_R", "IROL_R", "ISWAP_R", "FSWAP_R", "FADD_R", "FADD_M", "FSUB_R", "FSUB_M", "FSCAL_R", "FMUL_R", "FDIV_M", "FSQRT_R", "CBRANCH", "CFROUND", "ISTORE", "NOP"
	};
	const int typeFreq[TypeCount] = {
		RANDOMX_FREQ_IADD_RS, RANDOMX_FREQ_IADD_M, RANDOMX_FREQ_ISUB_R, RANDOMX_FREQ_ISUB_M, RANDOMX_FREQ_IMUL_R, RANDOMX_FREQ_IMUL_M, RANDOMX_FREQ_IMULH_R,
		RANDOMX_FREQ_IMULH_M, RANDOMX_FREQ_ISMULH_R, RANDOMX_FREQ_ISMULH_M, RANDOMX_FREQ_IMUL_RCP, RANDOMX_FREQ_INEG_R, RANDOMX_FREQ_IXOR_R, RANDOMX_FREQ_IXOR_M,
		RANDOMX_FREQ_IROR_R, RANDOMX_FREQ_IROL_R, RANDOMX_FREQ_ISWAP_R, RANDOMX_FREQ_FSWAP_R, RANDOMX_FREQ_FADD_R, RANDOMX_FREQ_FADD_M, RANDOMX_FREQ_FSUB_R,
		RANDOMX_FREQ_FSUB_M, RANDOMX_FREQ_FSCAL_R, RANDOMX_FREQ_FMUL_R, RANDOMX_FREQ_FDIV_M, RANDOMX_FREQ_FSQRT_R, RANDOMX_FREQ_CBRANCH, RANDOMX_FREQ_CFROUND,
		RANDOMX_FREQ_ISTORE, RANDOMX_FREQ_NOP
	};
	int typeFirst[TypeCount];

	void initOpcodes() {
		int pos = 0;
		for (int t = 0; t < TypeCount; ++t) {
			typeFirst[t] = pos;
			pos += typeFreq[t];
		}
		if (pos != 256) {
			fprintf(stderr, "frequency table does not sum to 256\n");
			exit(2);
		}
	}

	uint8_t opcodeOf(Rng& rng, int type) {
		if (typeFreq[type] == 0) return 0; //cannot be encoded (NOP): use opcode 0
		return (uint8_t)(typeFirst[type] + rng.below(typeFreq[type]));
	}

	int typeOfOpcode(uint8_t opcode) {
		int ty = 0;
		for (int t = 0; t < TypeCount; ++t)
			if (typeFreq[t] != 0 && opcode >= typeFirst[t]) ty = t;
		return ty;
	}

	//FINDING (see README.md; fixed in the repository by commit b0b62c0): JitCompilerRV64 h_ISUB_R negated imm32 in 32 bits; for
	//src == dst and imm32 == 0x80000000 it subtracted 2^31 where the interpreter adds 2^31.  With --filter-isub-intmin programs
	//containing this instruction form are rewritten (for trees without the fix) so that every OTHER disagreement stays visible;
	//the directed probe probeIsubImmediates() checks the instruction form itself.
	bool isIsubIntMin(const uint8_t* q) {
		return typeOfOpcode(q[0]) == ISUB_R && (q[1] % 8) == (q[2] % 8) && q[4] == 0 && q[5] == 0 && q[6] == 0 && q[7] == 0x80;
	}

	const uint32_t specialImms[] = {
		0, 1, 2, 3, 7, 8, 0x7ff, 0x800, 0x801, 0xfff, 0x1000, 0x1001, 0x17ff, 0x1800, 0x7ffff7ff, 0x7ffff800, 0x7fffffff, 0x80000000, 0x80000001,
		0x800007ff, 0x80000800, 0xfffff7ff, 0xfffff800, 0xfffff801, 0xffffffff, 0xfffffffe, 0x0001f000, 0x0001f800, 0x0001ffff, 0x00020000,
		0xfffe0000, 0xfffdf800, 0xfffe0800, 0x00003ff8, 0x0003fff8, 0x001ffff8, 0x001fffc0, 0x00004000, 0x00040000, 0x00200000, 0x55555555, 0xaaaaaaaa,
		0x0000ff00, 0x00010000, 0x00008000, 0x00007f00, 0x7ffff000, 0x7fffe800
	};

	uint32_t pickImm(Rng& rng, int style) {
		switch (style) {
		case 0: return (uint32_t)rng.next();
		case 1: return specialImms[rng.below(sizeof(specialImms) / sizeof(specialImms[0]))];
		case 2: return 1u << rng.below(32);
		case 3: return (1u << rng.below(32)) + (rng.chance(50) ? 1u : 0xffffffffu);
		default: return rng.below(64);
		}
	}

	void putInstr(uint8_t* p, uint8_t opcode, uint8_t dst, uint8_t src, uint8_t mod, uint32_t imm) {
		p[0] = opcode; p[1] = dst; p[2] = src; p[3] = mod;
		p[4] = (uint8_t)imm; p[5] = (uint8_t)(imm >> 8); p[6] = (uint8_t)(imm >> 16); p[7] = (uint8_t)(imm >> 24);
	}

	struct Palette { int type; int weight; };

	int pickFrom(Rng& rng, const Palette* pal, int n) {
		int total = 0;
		for (int i = 0; i < n; ++i) total += pal[i].weight;
		int r = (int)rng.below((uint32_t)total);
		for (int i = 0; i < n; ++i) {
			if (r < pal[i].weight) return pal[i].type;
			r -= pal[i].weight;
		}
		return pal[0].type;
	}

	enum Kind { K_UNIFORM, K_SINGLE, K_CBRANCH, K_CFROUND, K_FP, K_RCP, K_SRCDST, K_IMM, K_MEM, K_INT, KindCount };
	const char* const kindNames[KindCount] = { "uniform", "single-type", "cbranch", "cfround", "fp-div-sqrt", "imul_rcp", "src==dst", "special-imm", "memory", "integer" };

	struct Case {
		uint64_t index;
		int kind;
		int singleType;
		bool v2;
		bool light;
		unsigned iterations;
		unsigned mode;
		int spStyle;
		alignas(64) uint8_t program[ProgramBytes];
	};

	void generateCase(Case& c, uint64_t seed, uint64_t index, bool allowFull, bool filterIsubIntMin) {
		Rng rng(seed, index);
		c.index = index;
		c.kind = (int)(index % KindCount);
		c.singleType = -1;
		c.v2 = rng.chance(50);
		c.light = allowFull ? rng.chance(50) : true;
		c.mode = rng.below(4);
		c.spStyle = (int)rng.below(10);
		//iterations: mostly short runs, now and then the production count
		const uint32_t it = rng.below(1000);
		if (it < 8) c.iterations = RANDOMX_PROGRAM_ITERATIONS;
		else if (it < 300) c.iterations = 1 + rng.below(3);
		else c.iterations = 1 + rng.below(64);

		uint8_t* p = c.program;
		rng.fill(p, ProgramBytes);
		//configuration bytes: mostly random, sometimes extreme
		const uint32_t cfgStyle = rng.below(20);
		if (cfgStyle == 0) memset(p, 0x00, 128);
		else if (cfgStyle == 1) memset(p, 0xff, 128);

		uint8_t* ins = p + 128;
		const int n = RANDOMX_PROGRAM_MAX_SIZE;
		switch (c.kind) {
		case K_UNIFORM:
			break;
		case K_SINGLE: {
			int t;
			do { t = (int)((index / KindCount) % TypeCount); if (typeFreq[t] == 0) t = (int)rng.below(TypeCount); } while (typeFreq[t] == 0);
			c.singleType = t;
			const int immStyle = (int)rng.below(5);
			const bool same = rng.chance(25);
			for (int i = 0; i < n; ++i) {
				uint8_t dst = (uint8_t)rng.next(), src = same ? dst : (uint8_t)rng.next();
				putInstr(ins + 8 * i, opcodeOf(rng, t), dst, src, (uint8_t)rng.next(), pickImm(rng, rng.chance(70) ? immStyle : 0));
			}
			break;
		}
		case K_CBRANCH: {
			static const Palette pal[] = { {CBRANCH, 35}, {IADD_RS, 10}, {ISUB_R, 8}, {IXOR_R, 8}, {IMUL_R, 6}, {IROR_R, 5}, {ISWAP_R, 5}, {INEG_R, 3}, {ISTORE, 8}, {IADD_M, 6}, {FADD_R, 3}, {CFROUND, 3} };
			const int immStyle = (int)rng.below(4);
			const int regs = 1 + (int)rng.below(8); //few registers -> short backward jumps, many -> long ones
			for (int i = 0; i < n; ++i) {
				const int t = pickFrom(rng, pal, sizeof(pal) / sizeof(pal[0]));
				putInstr(ins + 8 * i, opcodeOf(rng, t), (uint8_t)rng.below(regs), (uint8_t)rng.below(8), (uint8_t)rng.next(), pickImm(rng, rng.chance(60) ? immStyle : 0));
			}
			break;
		}
		case K_CFROUND: {
			static const Palette pal[] = { {CFROUND, 25}, {FADD_R, 10}, {FSUB_R, 10}, {FMUL_R, 12}, {FDIV_M, 8}, {FSQRT_R, 8}, {FADD_M, 6}, {FSUB_M, 4}, {IROR_R, 5}, {IADD_RS, 6}, {IXOR_R, 6} };
			for (int i = 0; i < n; ++i) {
				const int t = pickFrom(rng, pal, sizeof(pal) / sizeof(pal[0]));
				putInstr(ins + 8 * i, opcodeOf(rng, t), (uint8_t)rng.next(), (uint8_t)rng.next(), (uint8_t)rng.next(), rng.chance(30) ? rng.below(70) : (uint32_t)rng.next());
			}
			break;
		}
		case K_FP: {
			static const Palette pal[] = { {FDIV_M, 25}, {FSQRT_R, 15}, {FMUL_R, 15}, {FSCAL_R, 8}, {FSWAP_R, 6}, {FADD_M, 8}, {FSUB_M, 8}, {FADD_R, 8}, {FSUB_R, 7}, {CFROUND, 2}, {IADD_RS, 3} };
			const int immStyle = (int)rng.below(2);
			for (int i = 0; i < n; ++i) {
				const int t = pickFrom(rng, pal, sizeof(pal) / sizeof(pal[0]));
				putInstr(ins + 8 * i, opcodeOf(rng, t), (uint8_t)rng.next(), (uint8_t)rng.next(), (uint8_t)rng.next(), pickImm(rng, immStyle));
			}
			break;
		}
		case K_RCP: {
			const int share = (int)rng.below(4); //0: all IMUL_RCP
			for (int i = 0; i < n; ++i) {
				static const Palette pal[] = { {IADD_RS, 3}, {IXOR_R, 3}, {IMUL_R, 2}, {ISUB_R, 2}, {CBRANCH, 1}, {IMULH_R, 1} };
				const bool rcp = share == 0 || rng.chance(share == 1 ? 80 : 40);
				const int t = rcp ? (int)IMUL_RCP : pickFrom(rng, pal, sizeof(pal) / sizeof(pal[0]));
				uint32_t imm;
				switch (rng.below(6)) {
				case 0: imm = 0; break;
				case 1: imm = 1u << rng.below(32); break;
				case 2: imm = 1 + rng.below(20); break;
				case 3: imm = pickImm(rng, 1); break;
				default: imm = (uint32_t)rng.next(); break;
				}
				putInstr(ins + 8 * i, opcodeOf(rng, t), (uint8_t)rng.next(), (uint8_t)rng.next(), (uint8_t)rng.next(), imm);
			}
			break;
		}
		case K_SRCDST:
			for (int i = 0; i < n; ++i)
				ins[8 * i + 2] = ins[8 * i + 1];
			break;
		case K_IMM: {
			const int immStyle = 1 + (int)rng.below(4);
			for (int i = 0; i < n; ++i) {
				const uint32_t imm = pickImm(rng, rng.chance(85) ? immStyle : 0);
				uint8_t* q = ins + 8 * i;
				q[4] = (uint8_t)imm; q[5] = (uint8_t)(imm >> 8); q[6] = (uint8_t)(imm >> 16); q[7] = (uint8_t)(imm >> 24);
				if (rng.chance(30)) q[2] = q[1];
			}
			break;
		}
		case K_MEM: {
			static const Palette pal[] = { {IADD_M, 10}, {ISUB_M, 10}, {IMUL_M, 8}, {IMULH_M, 6}, {ISMULH_M, 6}, {IXOR_M, 10}, {ISTORE, 30}, {FADD_M, 6}, {FSUB_M, 6}, {FDIV_M, 4}, {IADD_RS, 4} };
			const int immStyle = (int)rng.below(2);
			for (int i = 0; i < n; ++i) {
				const int t = pickFrom(rng, pal, sizeof(pal) / sizeof(pal[0]));
				uint8_t dst = (uint8_t)rng.next();
				putInstr(ins + 8 * i, opcodeOf(rng, t), dst, rng.chance(25) ? dst : (uint8_t)rng.next(), (uint8_t)rng.next(), pickImm(rng, immStyle));
			}
			break;
		}
		case K_INT: {
			static const Palette pal[] = { {IADD_RS, 10}, {ISUB_R, 10}, {IMUL_R, 10}, {IMULH_R, 10}, {ISMULH_R, 10}, {INEG_R, 5}, {IXOR_R, 10}, {IROR_R, 12}, {IROL_R, 12}, {ISWAP_R, 8}, {IMUL_RCP, 3} };
			const int immStyle = (int)rng.below(5);
			for (int i = 0; i < n; ++i) {
				const int t = pickFrom(rng, pal, sizeof(pal) / sizeof(pal[0]));
				uint8_t dst = (uint8_t)rng.next();
				putInstr(ins + 8 * i, opcodeOf(rng, t), dst, rng.chance(40) ? dst : (uint8_t)rng.next(), (uint8_t)rng.next(), pickImm(rng, immStyle));
			}
			break;
		}
		}
		if (filterIsubIntMin) {
			for (int i = 0; i < n; ++i) {
				if (isIsubIntMin(ins + 8 * i))
					ins[8 * i + 4] = 1; //imm32 0x80000000 -> 0x80000001
			}
		}
	}

	void fillScratchpad(uint8_t* sp, uint64_t seed, uint64_t index, int style) {
		Rng rng(seed ^ 0x5c4a7c8ad0000001ULL, index);
		switch (style) {
		case 0: memset(sp, 0, randomx::ScratchpadSize); break;
		case 1: memset(sp, 0xff, randomx::ScratchpadSize); break;
		case 2: { //int32 extremes (FP conversions)
			static const uint32_t vals[] = { 0x80000000u, 0x7fffffffu, 0, 1, 0xffffffffu, 0x80000001u, 0x00010000u, 0xffff0000u };
			uint32_t* w = (uint32_t*)sp;
			for (size_t i = 0; i < randomx::ScratchpadSize / 4; ++i) w[i] = vals[rng.below(8)];
			break;
		}
		default: rng.fill(sp, randomx::ScratchpadSize); break;
		}
	}

	// ---------------------------------------------------------------------------------------------------------
	// fake dataset: DatasetSize bytes of a repeating pseudo-random window (period not a power of two)
	// ---------------------------------------------------------------------------------------------------------
	uint8_t* makeFakeDataset() {
		const size_t page = 4096;
		const size_t total = (randomx::DatasetSize + page - 1) / page * page;
		const size_t window = page * 4099; //~16 MiB, odd number of pages
		uint8_t* base = (uint8_t*)mmap(nullptr, total, PROT_NONE, MAP_PRIVATE | MAP_ANONYMOUS | MAP_NORESERVE, -1, 0);
		if (base == MAP_FAILED) return nullptr;
		int fd = memfd_create("rv64emu-dataset", 0);
		if (fd >= 0 && ftruncate(fd, (off_t)window) == 0) {
			uint8_t* w = (uint8_t*)mmap(base, window, PROT_READ | PROT_WRITE, MAP_SHARED | MAP_FIXED, fd, 0);
			if (w != MAP_FAILED) {
				Rng rng(0x0dda7a5e7ULL);
				rng.fill(w, window);
				bool ok = true;
				for (size_t off = window; off < total && ok; off += window) {
					const size_t len = (total - off < window) ? total - off : window;
					ok = mmap(base + off, len, PROT_READ, MAP_SHARED | MAP_FIXED, fd, 0) != MAP_FAILED;
				}
				mprotect(base, window, PROT_READ);
				close(fd);
				if (ok) return base;
			}
		}
		if (fd >= 0) close(fd);
		//fallback: plain anonymous memory, fully filled
		if (mprotect(base, total, PROT_READ | PROT_WRITE) != 0) return nullptr;
		Rng rng(0x0dda7a5e7ULL);
		rng.fill(base, total);
		return base;
	}

	// ---------------------------------------------------------------------------------------------------------
	// comparison
	// ---------------------------------------------------------------------------------------------------------
	struct Stats {
		std::atomic<uint64_t> compared{0}, agreed{0}, mismatched{0}, notComparable{0}, unmodelledEncoding{0}, emuFailed{0}, instructions{0};
		std::atomic<uint64_t> perKind[KindCount];
		std::atomic<uint64_t> fullRuns{0}, lightRuns{0}, v2Runs{0}, longRuns{0};
		std::mutex lock;
		std::vector<std::string> messages;
		uint64_t coverage[rv64emu::EncodingCount] = {};
		void addCoverage(const uint64_t* c) {
			std::lock_guard<std::mutex> g(lock);
			for (unsigned i = 0; i < rv64emu::EncodingCount; ++i) coverage[i] += c[i];
		}
		Stats() { for (auto& k : perKind) k = 0; }
		void report(const std::string& s) {
			std::lock_guard<std::mutex> g(lock);
			if (messages.size() < 20) messages.push_back(s);
		}
	};

	struct Config {
		uint64_t seed = 1;
		uint64_t programs = 3000;
		unsigned threads = 8;
		bool allowFull = true;
		int64_t only = -1;
		bool trace = false;
		const char* dumpCode = nullptr;
		const char* failDir = nullptr;
		uint64_t datasetItems = 600;
		bool zbx = false;
		bool bisect = false;
		bool filterIsubIntMin = false;   //opt-in: keep the trigger of the (fixed) ISUB_R finding out of the generated programs
		bool tolerateIsubIntMin = false; //opt-in: a failing imm32=0x80000000 probe is reported as KNOWN-FINDING only
		bool bench = false;
		const char* isaBlob = nullptr;   //isa_test.bin (gen_isa_test.sh)
		const char* isaZbBlob = nullptr; //isa_test_zb.bin
	};

	const char* regName(int off, char* buf) {
		const int q = off / 8;
		if (q < 8) snprintf(buf, 16, "r%d", q);
		else if (q < 16) snprintf(buf, 16, "f%d.%s", (q - 8) / 2, (q & 1) ? "hi" : "lo");
		else if (q < 24) snprintf(buf, 16, "e%d.%s", (q - 16) / 2, (q & 1) ? "hi" : "lo");
		else snprintf(buf, 16, "a%d.%s", (q - 24) / 2, (q & 1) ? "hi" : "lo");
		return buf;
	}

	struct Worker {
		randomx_vm* vm[2][2]; //[v2][full]
		uint8_t* spEmu;
		uint8_t* spInit;
	};

	bool runCase(const Config& cfg, const Case& c, Worker& w, randomx_cache* cache, uint8_t* datasetMem, Stats& st) {
		randomx_vm* vm = w.vm[c.v2 ? 1 : 0][c.light ? 0 : 1];
		fillScratchpad(w.spInit, cfg.seed, c.index, c.spStyle);
		memcpy(randomx_verif::Access::scratchpad(vm), w.spInit, randomx::ScratchpadSize);
		memcpy(w.spEmu, w.spInit, randomx::ScratchpadSize);

		//---- reference: the real interpreter, natively ----
		randomx_verif::hooks().programOverride = c.program;
		randomx_verif::hooks().iterLimit = c.iterations;
		alignas(16) uint64_t dummySeed[8] = { 0 };
		const unsigned savedCsr = _mm_getcsr();
		_mm_setcsr(0x9FC0 | (c.mode << 13)); //rx_mxcsr_default | mode
		vm->run(dummySeed);
		const unsigned refMode = (_mm_getcsr() >> 13) & 3;
		_mm_setcsr(savedCsr);
		randomx_verif::hooks().programOverride = nullptr;
		randomx_verif::hooks().iterLimit = 0;
		uint8_t refReg[256];
		memcpy(refReg, vm->getRegisterFile(), 256);
		const uint8_t* refSp = (const uint8_t*)vm->getScratchpad();

		//---- emulated RV64 JIT ----
		const int flags = c.v2 ? RANDOMX_FLAG_V2 : RANDOMX_FLAG_DEFAULT;
		rv64emu::Machine& m = rv64emu::threadMachine();
		m.options.trace = cfg.trace ? stderr : nullptr;
		m.options.dumpCodeTo = cfg.dumpCode;
		m.options.enableZbaZbb = cfg.zbx;
		rv64emu::RunResult r = rv64emu::runProgram(c.program, w.spEmu, flags, c.light, cache, datasetMem, c.iterations, c.mode);

		st.compared++;
		st.perKind[c.kind]++;
		st.instructions += r.executed;
		if (c.light) st.lightRuns++; else st.fullRuns++;
		if (c.v2) st.v2Runs++;
		if (c.iterations == RANDOMX_PROGRAM_ITERATIONS) st.longRuns++;

		char head[256];
		snprintf(head, sizeof(head), "case %" PRIu64 " [kind=%s%s%s %s %s iterations=%u entryMode=%u sp=%d]", c.index, kindNames[c.kind],
			c.singleType >= 0 ? ":" : "", c.singleType >= 0 ? typeNames[c.singleType] : "", c.v2 ? "v2" : "v1", c.light ? "light" : "full", c.iterations, c.mode, c.spStyle);

		if (!r.ok) {
			if (r.unmodelled) {
				if (r.error.compare(0, 19, "unmodelled encoding") == 0) {
					st.unmodelledEncoding++;
					st.report(std::string(head) + ": " + r.error);
					return false;
				}
				st.notComparable++;
				if (cfg.only >= 0) fprintf(stderr, "%s: %s\n", head, r.error.c_str());
				return true;
			}
			st.emuFailed++;
			st.report(std::string(head) + ": emulated run failed: " + r.error);
			return false;
		}

		std::string diff;
		char buf[200], rn[16];
		int regDiffs = 0;
		for (int off = 0; off < 256; off += 8) {
			if (memcmp(refReg + off, r.reg + off, 8) != 0) {
				if (regDiffs++ < 4) {
					uint64_t a, b;
					memcpy(&a, refReg + off, 8);
					memcpy(&b, r.reg + off, 8);
					snprintf(buf, sizeof(buf), " %s: interpreter %016" PRIx64 " rv64 %016" PRIx64 ";", regName(off, rn), a, b);
					diff += buf;
				}
			}
		}
		if (regDiffs > 4) { snprintf(buf, sizeof(buf), " (+%d more registers);", regDiffs - 4); diff += buf; }
		if (memcmp(refSp, w.spEmu, randomx::ScratchpadSize) != 0) {
			size_t first = 0, count = 0;
			for (size_t i = 0; i < (size_t)randomx::ScratchpadSize; i += 8) {
				if (memcmp(refSp + i, w.spEmu + i, 8) != 0) {
					if (count++ == 0) first = i;
				}
			}
			uint64_t a, b;
			memcpy(&a, refSp + first, 8);
			memcpy(&b, w.spEmu + first, 8);
			snprintf(buf, sizeof(buf), " scratchpad: %zu differing qwords, first at 0x%zx: interpreter %016" PRIx64 " rv64 %016" PRIx64 ";", count, first, a, b);
			diff += buf;
		}
		if (refMode != rv64emu::randomXFromFrm(r.frm)) {
			snprintf(buf, sizeof(buf), " final rounding mode: interpreter %u rv64 frm=%u;", refMode, r.frm);
			diff += buf;
		}
		if (!diff.empty()) {
			st.mismatched++;
			st.report(std::string(head) + ": MISMATCH" + diff);
			if (cfg.failDir != nullptr) {
				char path[512];
				snprintf(path, sizeof(path), "%s/fail-seed%" PRIu64 "-case%" PRIu64 ".program.bin", cfg.failDir, cfg.seed, c.index);
				if (FILE* fp = fopen(path, "wb")) { fwrite(c.program, 1, ProgramBytes, fp); fclose(fp); }
			}
			return false;
		}
		st.agreed++;
		return true;
	}

	// ---------------------------------------------------------------------------------------------------------
	// negative controls of the CPU model: hand-assembled snippets that must be stopped with the right classification
	// ---------------------------------------------------------------------------------------------------------
	bool testNegativeControls() {
		using namespace rv64emu;
		struct Ctl { const char* name; std::vector<uint32_t> words; Stop expect; const char* needle; };
		alignas(16) static uint8_t data[64];
		const uint64_t sentinel = 0xdead0000beecULL;
		std::vector<Ctl> ctls = {
			//ld x5, 0(x6) with x6 pointing just past the data region
			{ "read past the end of a region", { 0x00033283u, 0x00008067u }, Stop::OutOfBounds, "out-of-bounds read of 8 bytes" },
			//sd x5, 0(x7): x7 points into the code region (not writable)
			{ "write into the code buffer", { 0x0053b023u, 0x00008067u }, Stop::OutOfBounds, "out-of-bounds write of 8 bytes" },
			//custom-0 opcode
			{ "unknown 32-bit encoding", { 0x0000000bu, 0x00008067u }, Stop::Unmodelled, "unmodelled encoding 0x0000000b at +0x0" },
			//fmadd.d (not modelled)
			{ "fmadd.d", { 0x0220f043u, 0x00008067u }, Stop::Unmodelled, "unmodelled encoding 0x0220f043" },
			//all-zero parcel
			{ "illegal 0x0000", { 0x00000000u }, Stop::Illegal, "illegal instruction 0x0000" },
			//csrrwi x0, frm, 5 ; fadd.d f0, f1, f2 (dynamic) -> reserved rounding mode
			{ "reserved frm", { 0x0022d073u, 0x0220f053u, 0x00008067u }, Stop::Illegal, "reserved rounding mode" },
			//jal x0, 0 : endless loop
			{ "endless loop", { 0x0000006fu }, Stop::Limit, "instruction limit" },
			//fall off the end of the code region
			{ "fetch outside", { 0x00000013u }, Stop::OutOfBounds, "out-of-bounds instruction fetch" },
			//fdiv.d f0, f1, f2 with f1 = smallest normal, f2 = 4 -> subnormal
			{ "subnormal result", { 0x1a20f053u, 0x00008067u }, Stop::Unmodelled, "subnormal result: not comparable" },
			//plain return: must succeed
			{ "ret", { 0x00008067u }, Stop::Returned, "" },
		};
		bool ok = true;
		for (auto& c : ctls) {
			std::vector<uint32_t> code = c.words;
			Cpu cpu;
			cpu.setCodeBase((uint64_t)(uintptr_t)code.data());
			cpu.addRegion(code.data(), code.size() * 4, PermR | PermX, "code");
			cpu.addRegion(data, sizeof(data), PermR | PermW, "data");
			cpu.x[1] = sentinel;
			cpu.x[6] = (uint64_t)(uintptr_t)(data + sizeof(data) - 4);
			cpu.x[7] = (uint64_t)(uintptr_t)code.data();
			cpu.f[1] = 0x0010000000000000ULL;
			cpu.f[2] = 0x4010000000000000ULL;
			const Stop s = cpu.run((uint64_t)(uintptr_t)code.data(), sentinel, 1000);
			if (s != c.expect || (c.needle[0] != 0 && cpu.error().find(c.needle) == std::string::npos)) {
				fprintf(stderr, "negative control '%s' FAILED: stop=%d message='%s'\n", c.name, (int)s, cpu.error().c_str());
				ok = false;
			}
		}
		return ok;
	}

	// ---------------------------------------------------------------------------------------------------------
	// directed ISA test (isa_test.S / isa_test_zb.S): encodings by the assembler, expected results restated here
	// ---------------------------------------------------------------------------------------------------------
	inline uint64_t sx32(uint64_t v) { return (uint64_t)(int64_t)(int32_t)(uint32_t)v; }
	inline uint64_t dbits(double d) { uint64_t u; memcpy(&u, &d, 8); return u; }

	uint64_t hostCvtS64(int64_t v, int feMode) {
		volatile int64_t in = v;
		const int saved = fegetround();
		fesetround(feMode);
		volatile double d = (double)in;
		fesetround(saved);
		return dbits(d);
	}

	uint64_t hostCvtU64(uint64_t v, int feMode) {
		volatile uint64_t in = v;
		const int saved = fegetround();
		fesetround(feMode);
		volatile double d = (double)in;
		fesetround(saved);
		return dbits(d);
	}

	std::vector<uint64_t> expectedIsaResults() {
		const uint64_t t0 = 0x8765432112345678ULL, t1 = 0x00000000fedcba98ULL, t2 = 13;
		const int64_t s0i = (int64_t)t0;
		std::vector<uint64_t> e;
		e.push_back(s0i < -1);
		e.push_back(t1 < ~0ULL);
		e.push_back(t0 ^ (uint64_t)(int64_t)-1366);
		e.push_back(t0 | 0x555);
		e.push_back((uint64_t)(s0i >> 7));
		e.push_back(~0ULL);
		e.push_back(sx32((uint32_t)t1 << 5));
		e.push_back(sx32((uint32_t)t1 >> 5));
		e.push_back((uint64_t)(int64_t)((int32_t)(uint32_t)t1 >> 5));
		e.push_back(t0 + t1);
		e.push_back(1);
		e.push_back(0);
		e.push_back((uint64_t)(s0i >> 13));
		e.push_back(sx32(t0 + t1));
		e.push_back(sx32(t0 - t1));
		e.push_back(sx32((uint32_t)t1 << 13));
		e.push_back(sx32((uint32_t)t1 >> 13));
		e.push_back((uint64_t)(int64_t)((int32_t)(uint32_t)t1 >> 13));
		e.push_back((uint64_t)(((__int128)s0i * (__int128)(unsigned __int128)t1) >> 64));
		e.push_back((uint64_t)(s0i / 13));
		e.push_back(t0 / 13);
		e.push_back((uint64_t)(s0i % 13));
		e.push_back(t0 % 13);
		e.push_back(~0ULL);
		e.push_back(t0);
		e.push_back(~0ULL);
		e.push_back(t0);
		e.push_back(0x8000000000000000ULL);
		e.push_back(0);
		e.push_back(sx32((uint32_t)t0 * (uint32_t)t1));
		e.push_back((uint64_t)(int64_t)((int32_t)0x12345678 / 13));
		e.push_back(sx32((uint32_t)t1 / 13));
		e.push_back((uint64_t)(int64_t)((int32_t)0x12345678 % 13));
		e.push_back(sx32((uint32_t)t1 % 13));
		e.push_back(~0ULL);
		e.push_back(sx32(t1));
		e.push_back(~0ULL);
		e.push_back(sx32(t1));
		e.push_back(0xffffffff80000000ULL);
		e.push_back(0);
		e.push_back(42);
		e.push_back(4);
		e.push_back(42);
		e.push_back(0xffffffffffffff88ULL);
		e.push_back(0x97);
		e.push_back(0xffffffffffffb5a6ULL);
		e.push_back(0xd3c4);
		e.push_back(0xffffffffffffff88ULL);
		e.push_back(0x1122);
		e.push_back(0x1234567856787888ULL);
		e.push_back(0x400921fb54442d18ULL);
		e.push_back(0x3ff0000000000000ULL);
		e.push_back(0xc00921fb54442d18ULL);
		e.push_back(0xc00921fb54442d18ULL);
		e.push_back(dbits((double)(uint32_t)0xfedcba98u));
		e.push_back(dbits((double)(uint32_t)0x12345678u));
		e.push_back(hostCvtS64(s0i, FE_TONEAREST));
		e.push_back(hostCvtS64(s0i, FE_TOWARDZERO));
		e.push_back(hostCvtS64(s0i, FE_DOWNWARD));
		e.push_back(hostCvtS64(s0i, FE_UPWARD));
		e.push_back(hostCvtU64(t0, FE_TONEAREST));
		e.push_back(hostCvtU64(t0, FE_TOWARDZERO));
		e.push_back(hostCvtU64(t0, FE_DOWNWARD));
		e.push_back(hostCvtU64(t0, FE_UPWARD));
		e.push_back(dbits(13.0));
		e.push_back(0);
		e.push_back(hostCvtS64(s0i, FE_DOWNWARD));
		e.push_back(hostCvtU64(t0, FE_UPWARD));
		//Zicsr
		const uint64_t csr[] = { 2, 3, 3, 1, 5, 0, 0, 3, 1, 0 };
		for (uint64_t v : csr) e.push_back(v);
		//C extension
		const uint64_t s0 = 0x11223344aabbccddULL, s1 = 0x5566778899aabbccULL;
		e.push_back(40);
		e.push_back(1020);
		e.push_back(4);
		e.push_back(sx32(s0));
		e.push_back(sx32(s1));
		e.push_back(sx32(s1));
		e.push_back(s0);
		e.push_back(s1);
		e.push_back(s0);
		e.push_back(s1);
		e.push_back(s0);
		e.push_back(sx32(s0));
		e.push_back(sx32(s1));
		e.push_back(s1);
		e.push_back(s0);
		e.push_back((uint64_t)((int64_t)s0 >> 9));
		e.push_back((uint64_t)((int64_t)s0 >> 40));
		e.push_back(s0 >> 33);
		e.push_back(s0 & ~16ULL);
		e.push_back(sx32(s0 - s1));
		e.push_back(sx32(s0 + s1));
		e.push_back(s0 - s1);
		e.push_back((uint64_t)(int64_t)-32);
		e.push_back((uint64_t)(int64_t)(-31 * 4096));
		e.push_back(0x1f000);
		e.push_back(sx32(s0 - 1));
		e.push_back(s0 - 32);
		e.push_back((s0 & 1) << 63);
		e.push_back((uint64_t)(int64_t)-512);
		e.push_back((uint64_t)(int64_t)-16);
		e.push_back(0);
		e.push_back(7);
		e.push_back(10);
		e.push_back(2);
		e.push_back(3);
		(void)t2;
		return e;
	}

	std::vector<uint64_t> expectedIsaZbResults() {
		const uint64_t t0 = 0x8765432112345678ULL, t1 = 0x00000000fedcba98ULL;
		auto rotr = [](uint64_t v, unsigned s) { s &= 63; return s ? (v >> s) | (v << (64 - s)) : v; };
		auto rotl = [](uint64_t v, unsigned s) { s &= 63; return s ? (v << s) | (v >> (64 - s)) : v; };
		return {
			(t0 << 1) + t1, (t0 << 2) + t1, (t0 << 3) + t1, (uint64_t)(uint32_t)t0 + t1, (uint64_t)(uint32_t)t0,
			rotr(t0, 13), rotl(t0, 13), rotr(t0, 45), t0, t0, t0, rotr(t0, 7), rotl(t0, 7)
		};
	}

	bool readFile(const char* path, std::vector<uint8_t>& out) {
		FILE* fp = fopen(path, "rb");
		if (fp == nullptr) return false;
		uint8_t buf[4096];
		size_t n;
		while ((n = fread(buf, 1, sizeof(buf), fp)) > 0) out.insert(out.end(), buf, buf + n);
		fclose(fp);
		return !out.empty();
	}

	//returns false on any deviation; coverage of the executed encodings is added to cov
	bool runIsaBlob(const char* path, const std::vector<uint64_t>& expect, bool zb, uint64_t* cov) {
		using namespace rv64emu;
		std::vector<uint8_t> code;
		if (!readFile(path, code)) { fprintf(stderr, "cannot read %s\n", path); return false; }
		code.resize((code.size() + 7) & ~(size_t)3);
		std::vector<uint64_t> out(expect.size() + 8, 0xEEEEEEEEEEEEEEEEULL);
		alignas(16) static uint8_t buf[256];
		memset(buf, 0, sizeof(buf));
		std::vector<uint64_t> stack(2048, 0);
		const uint64_t sentinel = 0xdead0000beecULL;
		Cpu cpu;
		cpu.enableZbaZbb = zb;
		cpu.coverage = cov;
		cpu.setCodeBase((uint64_t)(uintptr_t)code.data());
		cpu.addRegion(code.data(), code.size(), PermR | PermX, "isa test code");
		cpu.addRegion(out.data(), expect.size() * 8, PermR | PermW, "isa test output");
		cpu.addRegion(buf, sizeof(buf), PermR | PermW, "isa test buffer");
		cpu.addRegion(stack.data(), stack.size() * 8, PermR | PermW, "isa test stack");
		for (int i = 1; i < 32; ++i) { cpu.x[i] = 0x7777000000000000ULL + i; cpu.f[i] = 0x7ff8dead00000000ULL + i; }
		cpu.x[1] = sentinel;
		cpu.x[2] = (uint64_t)(uintptr_t)(stack.data() + stack.size() - 8);
		cpu.x[10] = (uint64_t)(uintptr_t)out.data();
		cpu.x[11] = (uint64_t)(uintptr_t)buf;
		const uint64_t sp0 = cpu.x[2], s0 = cpu.x[8], s1 = cpu.x[9];
		const Stop stop = cpu.run((uint64_t)(uintptr_t)code.data(), sentinel, 100000);
		if (stop != Stop::Returned) {
			fprintf(stderr, "isa test %s: stopped: %s\n", path, cpu.error().c_str());
			return false;
		}
		bool ok = true;
		for (size_t i = 0; i < expect.size(); ++i) {
			if (out[i] != expect[i]) {
				fprintf(stderr, "isa test %s: result %zu is %016" PRIx64 ", expected %016" PRIx64 "\n", path, i, out[i], expect[i]);
				ok = false;
			}
		}
		if (out[expect.size()] != 0xEEEEEEEEEEEEEEEEULL || cpu.x[10] != (uint64_t)(uintptr_t)(out.data() + expect.size())) {
			fprintf(stderr, "isa test %s: wrong number of results\n", path);
			ok = false;
		}
		if (cpu.x[2] != sp0 || cpu.x[8] != s0 || cpu.x[9] != s1) {
			fprintf(stderr, "isa test %s: sp/s0/s1 not restored\n", path);
			ok = false;
		}
		return ok;
	}

	// ---------------------------------------------------------------------------------------------------------
	// directed probe: one ISUB_R rN, rN (src == dst) with a boundary immediate, everything else no-ops; v1 and v2.
	// imm32 = 0x80000000 is the former finding (32-bit negation wraps), the others are its neighbours and the 12-bit
	// boundaries of emitImm32.  Returns the list of immediates for which the RV64 code disagrees with the interpreter.
	// ---------------------------------------------------------------------------------------------------------
	std::vector<uint32_t> probeIsubImmediates(const Config& cfg, Worker& w, randomx_cache* cache, unsigned& runs) {
		static const uint32_t imms[] = { 0x80000000u, 0x7fffffffu, 0x80000001u, 0x800u, 0xfffff800u, 0x7ffu, 5u, 0xfffffffbu, 0u, 0xffffffffu, 0x80000800u, 0x7ffff800u };
		std::vector<uint32_t> bad;
		Case* c = new Case;
		Config quiet = cfg;
		quiet.trace = false;
		quiet.dumpCode = nullptr;
		quiet.failDir = nullptr;
		runs = 0;
		for (uint32_t imm : imms) {
			bool agree = true;
			for (int variant = 0; variant < 4 && agree; ++variant) {
				memset(c, 0, sizeof(*c));
				c->index = imm;
				c->kind = K_INT;
				c->singleType = -1;
				c->v2 = (variant & 1) != 0;
				c->light = true;
				c->iterations = 1 + 2 * (unsigned)(variant >> 1);
				c->mode = 0;
				c->spStyle = (variant >> 1) ? 3 : 0; //all-zero scratchpad (register is 0 when the instruction executes) / random
				for (int i = 0; i < RANDOMX_PROGRAM_MAX_SIZE; ++i)
					putInstr(c->program + 128 + 8 * i, (uint8_t)typeFirst[IMUL_RCP], 0, 0, 0, 0); //IMUL_RCP with imm32 = 0: no operation
				const uint8_t reg = (uint8_t)(variant * 2 + 1);
				putInstr(c->program + 128, (uint8_t)typeFirst[ISUB_R], 0, 0, 0, imm);
				putInstr(c->program + 128 + 8 * 17, (uint8_t)(typeFirst[ISUB_R] + typeFreq[ISUB_R] - 1), reg, (uint8_t)(reg + 8), 0xff, imm);
				Stats tmp;
				agree = runCase(quiet, *c, w, cache, nullptr, tmp);
				++runs;
				if (!agree) {
					for (auto& m : tmp.messages) printf("  probe detail (imm32=0x%08x): %s\n", imm, m.c_str());
				}
			}
			if (!agree) bad.push_back(imm);
		}
		delete c;
		return bad;
	}

	// ---------------------------------------------------------------------------------------------------------
	// dataset init comparison
	// ---------------------------------------------------------------------------------------------------------
	bool testDatasetInit(const Config& cfg, randomx_cache* cache, uint64_t& itemsCompared, uint64_t& instructions) {
		Rng rng(cfg.seed ^ 0xda7a5e71ULL);
		struct Range { uint32_t start, count; };
		std::vector<Range> ranges = {
			{ 0, 8 }, { 1, 1 }, { 4194303, 3 } /* cache mask boundary */, { 34078718, 1 } /* last dataset item */, { 34078700, 19 },
			{ 0xfffffff0u, 15 } /* 32-bit limit of the function arguments */, { 0x7fffffffu, 2 }, { 12345678, 33 }
		};
		uint64_t have = 0;
		for (auto& r : ranges) have += r.count;
		while (have < cfg.datasetItems) {
			Range r;
			r.start = (uint32_t)rng.next();
			if (rng.chance(70)) r.start %= 34078719u;
			r.count = 1 + rng.below(40);
			if ((uint64_t)r.start + r.count > 0xffffffffULL) r.count = (uint32_t)(0xffffffffULL - r.start);
			if (r.count == 0) continue;
			ranges.push_back(r);
			have += r.count;
		}
		bool ok = true;
		itemsCompared = 0;
		instructions = 0;
		for (auto& rg : ranges) {
			std::vector<uint8_t> out((size_t)rg.count * 64 + 128, 0xCC), ref((size_t)rg.count * 64);
			rv64emu::threadMachine().options.enableZbaZbb = cfg.zbx;
			rv64emu::RunResult r = rv64emu::initDataset(cache, out.data() + 64, rg.start, rg.start + rg.count);
			instructions += r.executed;
			if (!r.ok) {
				fprintf(stderr, "initDataset [%u, %u): emulated run failed: %s\n", rg.start, rg.start + rg.count, r.error.c_str());
				ok = false;
				continue;
			}
			for (uint32_t i = 0; i < rg.count; ++i)
				randomx::initDatasetItem(cache, ref.data() + (size_t)i * 64, (uint64_t)rg.start + i);
			for (uint32_t i = 0; i < rg.count; ++i) {
				if (memcmp(ref.data() + (size_t)i * 64, out.data() + 64 + (size_t)i * 64, 64) != 0) {
					fprintf(stderr, "initDataset: MISMATCH item %u (range start %u)\n", rg.start + i, rg.start);
					ok = false;
					break;
				}
			}
			//guard bytes
			for (int i = 0; i < 64; ++i) {
				if (out[i] != 0xCC || out[64 + (size_t)rg.count * 64 + i] != 0xCC) {
					fprintf(stderr, "initDataset: guard bytes overwritten (range start %u)\n", rg.start);
					ok = false;
					break;
				}
			}
			itemsCompared += rg.count;
		}
		return ok;
	}
}

int main(int argc, char** argv) {
	Config cfg;
	for (int i = 1; i < argc; ++i) {
		std::string a = argv[i];
		auto val = [&](const char* name) -> const char* {
			if (i + 1 >= argc) { fprintf(stderr, "missing value for %s\n", name); exit(2); }
			return argv[++i];
		};
		if (a == "--seed") cfg.seed = strtoull(val("--seed"), nullptr, 0);
		else if (a == "--programs") cfg.programs = strtoull(val("--programs"), nullptr, 0);
		else if (a == "--threads") cfg.threads = (unsigned)strtoul(val("--threads"), nullptr, 0);
		else if (a == "--no-full") cfg.allowFull = false;
		else if (a == "--only") cfg.only = strtoll(val("--only"), nullptr, 0);
		else if (a == "--trace") cfg.trace = true;
		else if (a == "--dump-code") cfg.dumpCode = val("--dump-code");
		else if (a == "--fail-dir") cfg.failDir = val("--fail-dir");
		else if (a == "--dataset-items") cfg.datasetItems = strtoull(val("--dataset-items"), nullptr, 0);
		else if (a == "--zba-zbb") cfg.zbx = true;
		else if (a == "--bisect") cfg.bisect = true;
		else if (a == "--filter-isub-intmin") cfg.filterIsubIntMin = true;
		else if (a == "--tolerate-isub-intmin") cfg.tolerateIsubIntMin = true;
		else if (a == "--allow-isub-intmin" || a == "--strict") { /* accepted for compatibility: both are the default now */ }
		else if (a == "--bench") cfg.bench = true;
		else if (a == "--isa-blob") cfg.isaBlob = val("--isa-blob");
		else if (a == "--isa-zb-blob") cfg.isaZbBlob = val("--isa-zb-blob");
		else {
			fprintf(stderr, "usage: %s [--seed S] [--programs N] [--threads T] [--no-full] [--only INDEX [--trace] [--dump-code FILE]] [--fail-dir DIR] [--dataset-items N] [--zba-zbb] [--bisect] [--filter-isub-intmin] [--tolerate-isub-intmin] [--isa-blob FILE] [--isa-zb-blob FILE] [--bench]\n", argv[0]);
			return 2;
		}
	}
	if (cfg.threads == 0) cfg.threads = 1;
	initOpcodes();
	const auto t0 = std::chrono::steady_clock::now();

	//---- cache (host world, natively) ----
	const randomx_flags hostFlags = randomx_get_flags();
	const randomx_flags argon = (randomx_flags)(hostFlags & RANDOMX_FLAG_ARGON2);
	randomx_cache* cache = randomx_alloc_cache((randomx_flags)(RANDOMX_FLAG_DEFAULT | argon));
	if (cache == nullptr) { fprintf(stderr, "randomx_alloc_cache failed\n"); return 2; }
	char key[64];
	snprintf(key, sizeof(key), "rv64emu self-test key %" PRIu64, cfg.seed % 4);
	randomx_init_cache(cache, key, strlen(key));

	{
		rv64emu::Machine& m = rv64emu::threadMachine();
		if (!m.valid()) { fprintf(stderr, "emulator machine: %s\n", m.initError().c_str()); return 2; }
	}

	//---- speed measurement (emulated side only) ----
	if (cfg.bench) {
		Case* c = new Case;
		generateCase(*c, cfg.seed, 0, false, false); //kind 0 = uniform random program
		uint8_t* sp = (uint8_t*)aligned_alloc(64, randomx::ScratchpadSize);
		for (int v2 = 0; v2 < 2; ++v2) {
			fillScratchpad(sp, cfg.seed, 0, 9);
			const auto b0 = std::chrono::steady_clock::now();
			rv64emu::RunResult r = rv64emu::runProgram(c->program, sp, v2 ? RANDOMX_FLAG_V2 : 0, true, cache, nullptr, RANDOMX_PROGRAM_ITERATIONS, 0);
			const double dt = std::chrono::duration<double>(std::chrono::steady_clock::now() - b0).count();
			printf("bench: light %s, %u iterations: %s, %" PRIu64 " RV64 instructions in %.3f s = %.1f M instructions/s (one thread)\n",
				v2 ? "v2" : "v1", RANDOMX_PROGRAM_ITERATIONS, r.ok ? "ok" : r.error.c_str(), r.executed, dt, r.executed / dt / 1e6);
		}
		free(sp);
		delete c;
		randomx_release_cache(cache);
		return 0;
	}

	//---- negative controls of the CPU model ----
	if (cfg.only < 0) {
		if (!testNegativeControls()) { printf("RESULT: negative controls failed\n"); return 2; }
		printf("negative controls (out-of-bounds read/write/fetch, unmodelled encodings, illegal parcel, reserved frm, endless loop, subnormal): all classified correctly\n");
	}

	//---- directed ISA tests ----
	uint64_t isaCoverage[rv64emu::EncodingCount] = {};
	bool isaRan = false;
	if (cfg.only < 0 && cfg.isaBlob != nullptr) {
		const std::vector<uint64_t> expect = expectedIsaResults();
		if (!runIsaBlob(cfg.isaBlob, expect, false, isaCoverage)) { printf("RESULT: directed ISA test failed\n"); return 2; }
		printf("directed ISA test: %zu results as expected\n", expect.size());
		isaRan = true;
	}
	if (cfg.only < 0 && cfg.isaZbBlob != nullptr) {
		const std::vector<uint64_t> expect = expectedIsaZbResults();
		if (!runIsaBlob(cfg.isaZbBlob, expect, true, isaCoverage)) { printf("RESULT: directed Zba/Zbb ISA test failed\n"); return 2; }
		//with the extension switched off the same blob must stop as unmodelled
		uint64_t dummy[rv64emu::EncodingCount] = {};
		fprintf(stderr, "(expected diagnostic follows) ");
		if (runIsaBlob(cfg.isaZbBlob, expect, false, dummy)) { printf("RESULT: Zba/Zbb encodings accepted although disabled\n"); return 2; }
		printf("directed Zba/Zbb ISA test: %zu results as expected; rejected as unmodelled when the extension is disabled\n", expect.size());
	}

	//---- dataset init function ----
	uint64_t dsItems = 0, dsInstr = 0;
	bool dsOk = true;
	if (cfg.only < 0) {
		dsOk = testDatasetInit(cfg, cache, dsItems, dsInstr);
		printf("dataset init: %" PRIu64 " items compared with randomx::initDatasetItem: %s (%" PRIu64 " RV64 instructions)\n", dsItems, dsOk ? "all equal" : "MISMATCH", dsInstr);
		fflush(stdout);
	}

	//---- directed probe: ISUB_R src==dst with boundary immediates ----
	bool findingPresent = false, probeFailed = false;
	if (cfg.only < 0) {
		Worker pw;
		memset(&pw, 0, sizeof(pw));
		pw.vm[0][0] = randomx_create_vm(RANDOMX_FLAG_DEFAULT, cache, nullptr);
		pw.vm[1][0] = randomx_create_vm((randomx_flags)(RANDOMX_FLAG_DEFAULT | RANDOMX_FLAG_V2), cache, nullptr);
		pw.spEmu = (uint8_t*)aligned_alloc(64, randomx::ScratchpadSize);
		pw.spInit = (uint8_t*)aligned_alloc(64, randomx::ScratchpadSize);
		if (pw.vm[0][0] == nullptr || pw.vm[1][0] == nullptr || pw.spEmu == nullptr || pw.spInit == nullptr) { fprintf(stderr, "probe setup failed\n"); return 2; }
		unsigned probeRuns = 0;
		const std::vector<uint32_t> bad = probeIsubImmediates(cfg, pw, cache, probeRuns);
		for (uint32_t imm : bad) {
			if (imm == 0x80000000u) findingPresent = true;
			if (imm != 0x80000000u || !cfg.tolerateIsubIntMin) probeFailed = true;
		}
		printf("directed probe ISUB_R src==dst with boundary immediates (0x80000000 and neighbours, %u runs): %s\n", probeRuns,
			bad.empty() ? "all agree with the interpreter" : "DISAGREEMENT");
		if (findingPresent)
			printf("KNOWN-FINDING: property=C20 JitCompilerRV64 h_ISUB_R src==dst imm32=0x80000000 negates in 32 bits (r -= 2^31 instead of r += 2^31)%s\n",
				cfg.tolerateIsubIntMin ? " [tolerated: --tolerate-isub-intmin]" : "");
		fflush(stdout);
		randomx_destroy_vm(pw.vm[0][0]);
		randomx_destroy_vm(pw.vm[1][0]);
		free(pw.spEmu);
		free(pw.spInit);
	}

	//---- fake dataset for full mode ----
	uint8_t* datasetMem = nullptr;
	randomx_dataset dataset;
	dataset.dealloc = nullptr;
	if (cfg.allowFull) {
		datasetMem = makeFakeDataset();
		if (datasetMem == nullptr) { fprintf(stderr, "cannot map the fake dataset\n"); return 2; }
	}
	dataset.memory = datasetMem;

	Stats st;
	std::atomic<uint64_t> nextIndex{0};
	std::atomic<bool> harnessError{false};
	const uint64_t first = cfg.only >= 0 ? (uint64_t)cfg.only : 0;
	const uint64_t count = cfg.only >= 0 ? 1 : cfg.programs;
	const unsigned nthreads = cfg.only >= 0 ? 1 : cfg.threads;

	auto workerFn = [&]() {
		Worker w;
		for (int v2 = 0; v2 < 2; ++v2) {
			for (int full = 0; full < 2; ++full) {
				w.vm[v2][full] = nullptr;
				if (full && !cfg.allowFull) continue;
				const randomx_flags f = (randomx_flags)(RANDOMX_FLAG_DEFAULT | (v2 ? RANDOMX_FLAG_V2 : 0) | (full ? RANDOMX_FLAG_FULL_MEM : 0));
				w.vm[v2][full] = randomx_create_vm(f, full ? nullptr : cache, full ? &dataset : nullptr);
				if (w.vm[v2][full] == nullptr) { harnessError = true; return; }
			}
		}
		w.spEmu = (uint8_t*)aligned_alloc(64, randomx::ScratchpadSize);
		w.spInit = (uint8_t*)aligned_alloc(64, randomx::ScratchpadSize);
		if (!rv64emu::threadMachine().valid() || w.spEmu == nullptr || w.spInit == nullptr) { harnessError = true; return; }
		Case* c = new Case;
		for (;;) {
			const uint64_t k = nextIndex++;
			if (k >= count) break;
			generateCase(*c, cfg.seed, first + k, cfg.allowFull, cfg.filterIsubIntMin);
			const bool caseOk = runCase(cfg, *c, w, cache, datasetMem, st);
			if (!caseOk && cfg.bisect && cfg.only >= 0) {
				//find the shortest program prefix that still disagrees (the rest is replaced by IMUL_RCP with imm 0 = no operation)
				Config quiet = cfg;
				quiet.trace = false;
				quiet.dumpCode = nullptr;
				quiet.failDir = nullptr;
				Case* t = new Case(*c);
				int lo = 0, hi = RANDOMX_PROGRAM_MAX_SIZE; //invariant: prefix hi fails
				Rng dummy(1);
				auto failsWithPrefix = [&](int len) {
					*t = *c;
					for (int i = len; i < RANDOMX_PROGRAM_MAX_SIZE; ++i)
						putInstr(t->program + 128 + 8 * i, (uint8_t)typeFirst[IMUL_RCP], 0, 0, 0, 0);
					Stats tmp;
					return !runCase(quiet, *t, w, cache, datasetMem, tmp);
				};
				if (failsWithPrefix(0)) hi = 0;
				while (hi - lo > 1) {
					const int mid = (lo + hi) / 2;
					if (failsWithPrefix(mid)) hi = mid; else lo = mid;
				}
				fprintf(stderr, "bisect: shortest failing prefix has %d instructions", hi);
				if (hi > 0) {
					const uint8_t* q = c->program + 128 + 8 * (hi - 1);
					const int ty = typeOfOpcode(q[0]);
					fprintf(stderr, "; instruction %d: %s opcode=%u dst=%u src=%u mod=0x%02x imm=0x%02x%02x%02x%02x", hi - 1, typeNames[ty], q[0], q[1], q[2], q[3], q[7], q[6], q[5], q[4]);
				}
				fprintf(stderr, "\n");
				if (cfg.dumpCode) { failsWithPrefix(hi); rv64emu::threadMachine().dumpCode(cfg.dumpCode); }
				delete t;
			}
			if (cfg.only < 0 && (k + 1) % 1000 == 0) {
				fprintf(stderr, "  ... %" PRIu64 " cases\n", k + 1);
			}
		}
		delete c;
		st.addCoverage(rv64emu::threadMachine().coverage);
		free(w.spEmu);
		free(w.spInit);
		for (int v2 = 0; v2 < 2; ++v2)
			for (int full = 0; full < 2; ++full)
				if (w.vm[v2][full]) randomx_destroy_vm(w.vm[v2][full]);
	};

	std::vector<std::thread> threads;
	for (unsigned t = 0; t < nthreads; ++t) threads.emplace_back(workerFn);
	for (auto& t : threads) t.join();

	const double secs = std::chrono::duration<double>(std::chrono::steady_clock::now() - t0).count();
	for (auto& m : st.messages) fprintf(stderr, "%s\n", m.c_str());
	printf("programs compared: %" PRIu64 " (light %" PRIu64 ", full %" PRIu64 ", v2 %" PRIu64 ", %u-iteration runs %" PRIu64 ")\n",
		st.compared.load(), st.lightRuns.load(), st.fullRuns.load(), st.v2Runs.load(), RANDOMX_PROGRAM_ITERATIONS, st.longRuns.load());
	printf("  by generator:");
	for (int k = 0; k < KindCount; ++k) printf(" %s=%" PRIu64, kindNames[k], st.perKind[k].load());
	printf("\n");
	printf("  agreed (register file 256 B + scratchpad 2 MiB + final rounding mode): %" PRIu64 "\n", st.agreed.load());
	printf("  mismatches: %" PRIu64 "   emulated run failed: %" PRIu64 "   unmodelled encodings: %" PRIu64 "   not comparable (subnormal/NaN): %" PRIu64 "\n",
		st.mismatched.load(), st.emuFailed.load(), st.unmodelledEncoding.load(), st.notComparable.load());
	printf("  RV64 instructions emulated: %" PRIu64 " in %.1f s wall (%u threads)\n", st.instructions.load() + dsInstr, secs, nthreads);

	if (cfg.only < 0) {
		st.addCoverage(rv64emu::threadMachine().coverage); //main thread: dataset init + probe
		unsigned used = 0;
		for (unsigned i = 0; i < rv64emu::EncodingCount; ++i) used += st.coverage[i] != 0;
		printf("  encodings exercised by the differential runs: %u of %u modelled:", used, (unsigned)rv64emu::EncodingCount);
		for (unsigned i = 0; i < rv64emu::EncodingCount; ++i)
			if (st.coverage[i] != 0) printf(" %s", rv64emu::encodingNames[i]);
		printf("\n");
		if (isaRan) {
			unsigned extra = 0, none = 0;
			for (unsigned i = 0; i < rv64emu::EncodingCount; ++i) {
				extra += st.coverage[i] == 0 && isaCoverage[i] != 0;
				none += st.coverage[i] == 0 && isaCoverage[i] == 0;
			}
			printf("  additionally exercised only by the directed ISA tests: %u:", extra);
			for (unsigned i = 0; i < rv64emu::EncodingCount; ++i)
				if (st.coverage[i] == 0 && isaCoverage[i] != 0) printf(" %s", rv64emu::encodingNames[i]);
			printf("\n  modelled but never executed: %u:", none);
			for (unsigned i = 0; i < rv64emu::EncodingCount; ++i)
				if (st.coverage[i] == 0 && isaCoverage[i] == 0) printf(" %s", rv64emu::encodingNames[i]);
			printf("\n");
		}
	}

	randomx_release_cache(cache);
	if (datasetMem != nullptr)
		munmap(datasetMem, (randomx::DatasetSize + 4095) / 4096 * 4096);

	if (harnessError) { fprintf(stderr, "harness error (VM or buffer allocation failed)\n"); return 2; }
	if (st.mismatched != 0 || st.emuFailed != 0 || !dsOk || probeFailed) { printf("RESULT: DISAGREEMENT\n"); return 1; }
	if (st.unmodelledEncoding != 0) { printf("RESULT: INCONCLUSIVE (unmodelled encodings)\n"); return 3; }
	if (st.agreed + st.notComparable != st.compared) { printf("RESULT: internal accounting error\n"); return 2; }
	printf("RESULT: AGREEMENT%s\n", findingPresent ? " (apart from the tolerated known finding reported above)" : "");
	return 0;
}
