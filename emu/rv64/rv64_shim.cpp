/*
riscv-world side of the boundary described in rv64_shim.h.

COMPILE WITH:  -D__riscv -D__riscv_xlen=64 -DRANDOMX_VERIF -DNDEBUG -I<repo>/src
(the same defines as the object made from the unmodified <repo>/src/jit_compiler_rv64.cpp).

This file drives randomx::JitCompilerRV64 exactly through its public interface, the way
CompiledVm / CompiledLightVm do (vm_compiled.cpp, vm_compiled_light.cpp); the private members are
only read (never written) through the randomx_verif::Access friend for diagnostics.
*/
#if !defined(__riscv) || !defined(RANDOMX_VERIF)
#error "rv64_shim.cpp must be compiled with -D__riscv -D__riscv_xlen=64 -DRANDOMX_VERIF"
#endif

#include <cstdio>
#include <cstring>
#include <exception>
#include <new>
#include <type_traits>
#include <vector>
#include "jit_compiler_rv64.hpp"
#include "program.hpp"
#include "superscalar_program.hpp"
#include "common.hpp"
#include "rv64_shim.h"

//Note: on an x86-64 host common.hpp still aliases randomx::JitCompiler to JitCompilerX86 (it tests __x86_64__ first);
//the RV64 emitter class is therefore always referred to by its own name here.

namespace randomx_verif {
	struct Access {
		static randomx::CompilerState& state(randomx::JitCompilerRV64& c) { return c.state; }
		static bool usesVector(randomx::JitCompilerRV64& c) { return c.vectorCode != nullptr; }
	};
}

namespace {
	void setErr(char* err, size_t errLen, const char* what) {
		if (err != nullptr && errLen > 0) {
			snprintf(err, errLen, "%s", what);
		}
	}

	void makeConfig(randomx::ProgramConfiguration& pcfg, const uint64_t eMask[2], const uint32_t readReg[4]) {
		pcfg.eMask[0] = eMask[0];
		pcfg.eMask[1] = eMask[1];
		pcfg.readReg0 = readReg[0];
		pcfg.readReg1 = readReg[1];
		pcfg.readReg2 = readReg[2];
		pcfg.readReg3 = readReg[3];
	}
}

extern "C" {

void* rv64shim_create(char* err, size_t errLen) {
	try {
		randomx::JitCompilerRV64* jit = new randomx::JitCompilerRV64();
		jit->setFlags((randomx_flags)0);
		return jit;
	}
	catch (const std::exception& e) {
		setErr(err, errLen, e.what());
	}
	catch (...) {
		setErr(err, errLen, "unknown exception");
	}
	return nullptr;
}

void rv64shim_destroy(void* jit) {
	delete static_cast<randomx::JitCompilerRV64*>(jit);
}

void rv64shim_set_flags(void* jit, int flags) {
	static_cast<randomx::JitCompilerRV64*>(jit)->setFlags((randomx_flags)flags);
}

void rv64shim_protect(void* jitp, int mode) {
	randomx::JitCompilerRV64* jit = static_cast<randomx::JitCompilerRV64*>(jitp);
	switch (mode) {
	case 0: jit->enableWriting(); break;
	case 1: jit->enableExecution(); break;
	default: jit->enableAll(); break;
	}
}

void rv64shim_get_info(void* jitp, struct rv64shim_info* out) {
	randomx::JitCompilerRV64* jit = static_cast<randomx::JitCompilerRV64*>(jitp);
	memset(out, 0, sizeof(*out));
	out->code = randomx_verif::Access::state(*jit).code;
	out->codeSize = (uint32_t)jit->getCodeSize();
	out->codePos = (uint32_t)randomx_verif::Access::state(*jit).codePos;
	out->entryProgram = (uint8_t*)jit->getProgramFunc();
	out->entryDataInit = (uint8_t*)jit->getDatasetInitFunc();
	out->usesVectorCode = randomx_verif::Access::usesVector(*jit) ? 1 : 0;
	out->sizeofProgram = sizeof(randomx::Program);
	out->sizeofInstruction = sizeof(randomx::Instruction);
	out->sizeofRegisterFile = sizeof(randomx::RegisterFile);
	out->sizeofMemoryRegisters = sizeof(randomx::MemoryRegisters);
	out->superscalarMaxSize = randomx::SuperscalarMaxSize;
	out->cacheAccesses = RANDOMX_CACHE_ACCESSES;
	out->programSizeV1 = RANDOMX_PROGRAM_SIZE_V1;
	out->programSizeV2 = RANDOMX_PROGRAM_SIZE_V2;
#ifdef __riscv_zba
	out->hasZba = 1;
#endif
#ifdef __riscv_zbb
	out->hasZbb = 1;
#endif
}

int rv64shim_generate_program(void* jitp, const void* program, const uint64_t eMask[2], const uint32_t readReg[4], char* err, size_t errLen) {
	randomx::JitCompilerRV64* jit = static_cast<randomx::JitCompilerRV64*>(jitp);
	try {
		alignas(64) randomx::Program prog;
		memcpy((void*)&prog, program, sizeof(prog));
		randomx::ProgramConfiguration pcfg;
		makeConfig(pcfg, eMask, readReg);
		jit->generateProgram(prog, pcfg);
		return 0;
	}
	catch (const std::exception& e) {
		setErr(err, errLen, e.what());
	}
	catch (...) {
		setErr(err, errLen, "unknown exception");
	}
	return 1;
}

int rv64shim_generate_program_light(void* jitp, const void* program, const uint64_t eMask[2], const uint32_t readReg[4], uint32_t datasetOffset, char* err, size_t errLen) {
	randomx::JitCompilerRV64* jit = static_cast<randomx::JitCompilerRV64*>(jitp);
	try {
		alignas(64) randomx::Program prog;
		memcpy((void*)&prog, program, sizeof(prog));
		randomx::ProgramConfiguration pcfg;
		makeConfig(pcfg, eMask, readReg);
		jit->generateProgramLight(prog, pcfg, datasetOffset);
		return 0;
	}
	catch (const std::exception& e) {
		setErr(err, errLen, e.what());
	}
	catch (...) {
		setErr(err, errLen, "unknown exception");
	}
	return 1;
}

int rv64shim_generate_superscalar(void* jitp, const struct rv64shim_ssprog* programs, uint32_t numPrograms, const uint64_t* reciprocals, size_t numReciprocals, char* err, size_t errLen) {
	randomx::JitCompilerRV64* jit = static_cast<randomx::JitCompilerRV64*>(jitp);
	try {
		if (numPrograms != RANDOMX_CACHE_ACCESSES) {
			setErr(err, errLen, "rv64shim_generate_superscalar: wrong number of programs");
			return 1;
		}
		//SuperscalarProgramList = std::array<SuperscalarProgram, RANDOMX_CACHE_ACCESSES>
		std::vector<randomx::SuperscalarProgramList> holder(1);
		randomx::SuperscalarProgramList& list = holder[0];
		for (uint32_t j = 0; j < numPrograms; ++j) {
			if (programs[j].size > (uint32_t)randomx::SuperscalarMaxSize) {
				setErr(err, errLen, "rv64shim_generate_superscalar: program too large");
				return 1;
			}
			memset((void*)&list[j], 0, sizeof(list[j]));
			memcpy((void*)list[j].programBuffer, programs[j].instructions, (size_t)programs[j].size * sizeof(randomx::Instruction));
			list[j].setSize(programs[j].size);
			list[j].setAddressRegister(programs[j].addressRegister);
		}
		std::vector<uint64_t> rcp(reciprocals, reciprocals + numReciprocals);
		jit->generateSuperscalarHash(list, rcp);
		return 0;
	}
	catch (const std::exception& e) {
		setErr(err, errLen, e.what());
	}
	catch (...) {
		setErr(err, errLen, "unknown exception");
	}
	return 1;
}

}
