/*
rv64emu.cpp - RV64 instruction-subset interpreter + driver.  See rv64emu.hpp / README.md.

Host-world file: compile NORMALLY (no -D__riscv) with -DRANDOMX_VERIF -DNDEBUG -I<repo>/src -I/verif/model.
*/
#include "rv64emu.hpp"
#include "rv64_shim.h"
#include "softfloat.hpp"

#include <cstdarg>
#include <cstdlib>
#include <cstring>
#include <cinttypes>

//host-world RandomX headers (layout of RegisterFile / MemoryRegisters / randomx_cache as the host library sees them)
#include "common.hpp"
#include "program.hpp"
#include "dataset.hpp"
#include "soft_aes.h"

#if defined(__riscv)
#error "rv64emu.cpp belongs to the host world: do not compile it with -D__riscv"
#endif

namespace rv64emu {

	namespace sf = mdl::sf;

#define RV64EMU_NAME(id, name) name,
	const char* const encodingNames[EncodingCount] = { RV64EMU_ENCODINGS(RV64EMU_NAME) };
#undef RV64EMU_NAME

#define HIT(id) do { if (coverage != nullptr) ++coverage[E_##id]; } while (0)

	// =========================================================================================================
	// rounding mode mapping
	// =========================================================================================================

	//RandomX: 0 = nearest even, 1 = toward -inf, 2 = toward +inf, 3 = toward zero  (doc/specs.md, CFROUND)
	//RISC-V frm: 0 RNE, 1 RTZ, 2 RDN, 3 RUP
	uint32_t frmFromRandomX(unsigned mode) {
		static const uint32_t map[4] = { RM_RNE, RM_RDN, RM_RUP, RM_RTZ };
		return map[mode & 3];
	}

	unsigned randomXFromFrm(uint32_t frm) {
		switch (frm) {
		case RM_RNE: return 0;
		case RM_RDN: return 1;
		case RM_RUP: return 2;
		case RM_RTZ: return 3;
		default: return ~0u;
		}
	}

	// =========================================================================================================
	// Cpu
	// =========================================================================================================

	Cpu::Cpu() {
		reset();
	}

	void Cpu::reset() {
		for (int i = 0; i < 32; ++i) {
			x[i] = 0;
			f[i] = 0;
		}
		pc = 0;
		frm = 0;
		executed = 0;
		misaligned = 0;
		error_.clear();
		stop_ = Stop::Returned;
	}

	void Cpu::clearRegions() {
		regions_.clear();
		lastR_ = lastW_ = lastX_ = nullptr;
	}

	void Cpu::addRegion(const void* base, uint64_t size, unsigned perm, const char* name) {
		Region r;
		r.base = (uint64_t)(uintptr_t)base;
		r.size = size;
		r.perm = perm;
		r.name = name;
		regions_.push_back(r);
		//pointers into the vector may have moved
		lastR_ = lastW_ = lastX_ = nullptr;
	}

	const Region* Cpu::lookup(uint64_t addr, unsigned n) const {
		for (const Region& r : regions_) {
			if (r.size >= n && addr - r.base <= r.size - n)
				return &r;
		}
		return nullptr;
	}

	bool Cpu::fail(Stop why, const char* fmt, ...) {
		char buf[512];
		va_list ap;
		va_start(ap, fmt);
		vsnprintf(buf, sizeof(buf), fmt, ap);
		va_end(ap);
		error_ = buf;
		stop_ = why;
		return false;
	}

	bool Cpu::unmodelled(uint32_t insn, unsigned len) {
		if (len == 2)
			return fail(Stop::Unmodelled, "unmodelled encoding 0x%04x at +0x%" PRIx64, insn & 0xffff, pc - codeBase_);
		return fail(Stop::Unmodelled, "unmodelled encoding 0x%08x at +0x%" PRIx64, insn, pc - codeBase_);
	}

	bool Cpu::memFault(const char* what, uint64_t addr, unsigned n, unsigned perm) {
		//find the region that contains the first byte, if any, to make the message more useful
		const Region* in = lookup(addr, 1);
		if (in != nullptr && (in->perm & perm) == 0)
			return fail(Stop::OutOfBounds, "out-of-bounds %s of %u bytes at 0x%" PRIx64 " (region '%s' does not permit it) pc=+0x%" PRIx64,
				what, n, addr, in->name, pc - codeBase_);
		if (in != nullptr)
			return fail(Stop::OutOfBounds, "out-of-bounds %s of %u bytes at 0x%" PRIx64 " (crosses the end of region '%s') pc=+0x%" PRIx64,
				what, n, addr, in->name, pc - codeBase_);
		//nearest region for orientation
		const Region* nearest = nullptr;
		uint64_t best = ~0ULL;
		for (const Region& r : regions_) {
			uint64_t d = addr < r.base ? r.base - addr : addr - (r.base + r.size) + 1;
			if (d < best) {
				best = d;
				nearest = &r;
			}
		}
		return fail(Stop::OutOfBounds, "out-of-bounds %s of %u bytes at 0x%" PRIx64 " (nearest region '%s' %s by %" PRIu64 " bytes) pc=+0x%" PRIx64,
			what, n, addr, nearest ? nearest->name : "none", (nearest && addr < nearest->base) ? "missed below" : "missed above", best, pc - codeBase_);
	}

	template<typename T>
	bool Cpu::load(uint64_t addr, T& out) {
		const Region* r = lastR_;
		if (r == nullptr || r->size < sizeof(T) || !(addr - r->base <= r->size - sizeof(T))) {
			r = lookup(addr, sizeof(T));
			if (r == nullptr || (r->perm & PermR) == 0)
				return memFault("read", addr, sizeof(T), PermR);
			lastR_ = r;
		}
		if (addr & (sizeof(T) - 1))
			++misaligned;
		memcpy(&out, (const void*)(uintptr_t)addr, sizeof(T));
		return true;
	}

	template<typename T>
	bool Cpu::store(uint64_t addr, T val) {
		const Region* r = lastW_;
		if (r == nullptr || r->size < sizeof(T) || !(addr - r->base <= r->size - sizeof(T))) {
			r = lookup(addr, sizeof(T));
			if (r == nullptr || (r->perm & PermW) == 0)
				return memFault("write", addr, sizeof(T), PermW);
			lastW_ = r;
		}
		if (addr & (sizeof(T) - 1))
			++misaligned;
		memcpy((void*)(uintptr_t)addr, &val, sizeof(T));
		return true;
	}

	bool Cpu::fetch(uint64_t addr, uint32_t& insn, unsigned& len) {
		const Region* r = lastX_;
		if (r == nullptr || !(addr - r->base <= r->size - 2)) {
			r = lookup(addr, 2);
			if (r == nullptr || (r->perm & PermX) == 0)
				return memFault("instruction fetch", addr, 2, PermX);
			lastX_ = r;
		}
		uint16_t lo;
		memcpy(&lo, (const void*)(uintptr_t)addr, 2);
		if ((lo & 3) != 3) {
			insn = lo;
			len = 2;
			return true;
		}
		if (!(addr + 2 - r->base <= r->size - 2))
			return memFault("instruction fetch", addr + 2, 2, PermX);
		uint16_t hi;
		memcpy(&hi, (const void*)(uintptr_t)(addr + 2), 2);
		insn = lo | ((uint32_t)hi << 16);
		len = 4;
		//encodings longer than 32 bits: bits [4:2] == 111
		if ((insn & 0x1f) == 0x1f)
			return unmodelled(insn, 4);
		return true;
	}

	static inline uint64_t sext32(uint64_t v) {
		return (uint64_t)(int64_t)(int32_t)(uint32_t)v;
	}

	static inline uint64_t mulhu64(uint64_t a, uint64_t b) {
		return (uint64_t)(((unsigned __int128)a * b) >> 64);
	}

	static inline uint64_t mulh64(int64_t a, int64_t b) {
		return (uint64_t)(((__int128)a * b) >> 64);
	}

	static inline uint64_t mulhsu64(int64_t a, uint64_t b) {
		return (uint64_t)(((__int128)a * (__int128)(unsigned __int128)b) >> 64);
	}

	static inline uint64_t rotr64(uint64_t a, unsigned s) {
		s &= 63;
		return s ? ((a >> s) | (a << (64 - s))) : a;
	}

	bool Cpu::resolveRm(uint32_t insn, int& sfMode) {
		uint32_t rm = (insn >> 12) & 7;
		if (rm == RM_DYN)
			rm = frm;
		switch (rm) {
		case RM_RNE: sfMode = sf::RN; return true;
		case RM_RTZ: sfMode = sf::RZ; return true;
		case RM_RDN: sfMode = sf::RD; return true;
		case RM_RUP: sfMode = sf::RU; return true;
		case RM_RMM:
			return fail(Stop::Unmodelled, "unmodelled rounding mode RMM in 0x%08x at +0x%" PRIx64, insn, pc - codeBase_);
		default:
			return fail(Stop::Illegal, "illegal instruction: reserved rounding mode %u (frm=%u) in 0x%08x at +0x%" PRIx64, rm, frm, insn, pc - codeBase_);
		}
	}

	bool Cpu::fpResult(unsigned rd, uint64_t value, int sfFlags, uint64_t a, uint64_t b) {
		if (sfFlags & (sf::F_UNDERFLOW | sf::F_SUBNORMAL_IN))
			return fail(Stop::Unmodelled, "subnormal result: not comparable (operands 0x%016" PRIx64 " 0x%016" PRIx64 ", %s) at +0x%" PRIx64,
				a, b, (sfFlags & sf::F_SUBNORMAL_IN) ? "subnormal operand" : "tiny result", pc - codeBase_);
		if (sf::isNaN(value))
			return fail(Stop::Unmodelled, "NaN result: not comparable (operands 0x%016" PRIx64 " 0x%016" PRIx64 ") at +0x%" PRIx64, a, b, pc - codeBase_);
		f[rd] = value;
		return true;
	}

	static uint64_t fromInt64Mag(bool sign, uint64_t mag, int mode, int& flags) {
		if (mag == 0)
			return 0;
		int p = 63 - __builtin_clzll(mag);
		return sf::roundPack(sign, p, mag << (63 - p), false, mode, flags);
	}

	bool Cpu::execFp(uint32_t insn) {
		const unsigned rd = (insn >> 7) & 31, rs1 = (insn >> 15) & 31, rs2 = (insn >> 20) & 31;
		const unsigned funct7 = insn >> 25, rm = (insn >> 12) & 7;
		int mode = 0, flags = 0;
		uint64_t value;
		switch (funct7) {
		case 0x01: //fadd.d
			HIT(FADD_D);
			if (!resolveRm(insn, mode)) return false;
			value = sf::add(f[rs1], f[rs2], mode, flags); //(sequenced before 'flags' is read)
			return fpResult(rd, value, flags, f[rs1], f[rs2]);
		case 0x05: //fsub.d
			HIT(FSUB_D);
			if (!resolveRm(insn, mode)) return false;
			value = sf::sub(f[rs1], f[rs2], mode, flags); //(sequenced before 'flags' is read)
			return fpResult(rd, value, flags, f[rs1], f[rs2]);
		case 0x09: //fmul.d
			HIT(FMUL_D);
			if (!resolveRm(insn, mode)) return false;
			value = sf::mul(f[rs1], f[rs2], mode, flags); //(sequenced before 'flags' is read)
			return fpResult(rd, value, flags, f[rs1], f[rs2]);
		case 0x0d: //fdiv.d
			HIT(FDIV_D);
			if (!resolveRm(insn, mode)) return false;
			value = sf::div(f[rs1], f[rs2], mode, flags); //(sequenced before 'flags' is read)
			return fpResult(rd, value, flags, f[rs1], f[rs2]);
		case 0x2d: //fsqrt.d
			if (rs2 != 0) return unmodelled(insn, 4);
			HIT(FSQRT_D);
			if (!resolveRm(insn, mode)) return false;
			value = sf::sqrt(f[rs1], mode, flags);
			return fpResult(rd, value, flags, f[rs1], 0);
		case 0x11: //fsgnj.d / fsgnjn.d / fsgnjx.d
			switch (rm) {
			case 0: HIT(FSGNJ_D); f[rd] = (f[rs1] & ~sf::SIGN) | (f[rs2] & sf::SIGN); return true;
			case 1: HIT(FSGNJN_D); f[rd] = (f[rs1] & ~sf::SIGN) | (~f[rs2] & sf::SIGN); return true;
			case 2: HIT(FSGNJX_D); f[rd] = f[rs1] ^ (f[rs2] & sf::SIGN); return true;
			default: return unmodelled(insn, 4);
			}
		case 0x69: //fcvt.d.w / fcvt.d.wu / fcvt.d.l / fcvt.d.lu
			switch (rs2) {
			case 0: //exact, rounding mode irrelevant (but a reserved static rm is still not modelled)
				if (rm == 5 || rm == 6) return unmodelled(insn, 4);
				HIT(FCVT_D_W);
				f[rd] = sf::fromInt32((int32_t)(uint32_t)x[rs1]);
				return true;
			case 1:
				if (rm == 5 || rm == 6) return unmodelled(insn, 4);
				HIT(FCVT_D_WU);
				f[rd] = fromInt64Mag(false, (uint32_t)x[rs1], sf::RN, flags);
				return true;
			case 2: {
				if (!resolveRm(insn, mode)) return false;
				HIT(FCVT_D_L);
				const int64_t v = (int64_t)x[rs1];
				f[rd] = fromInt64Mag(v < 0, v < 0 ? (0 - (uint64_t)v) : (uint64_t)v, mode, flags);
				return true;
			}
			case 3:
				if (!resolveRm(insn, mode)) return false;
				HIT(FCVT_D_LU);
				f[rd] = fromInt64Mag(false, x[rs1], mode, flags);
				return true;
			default:
				return unmodelled(insn, 4);
			}
		case 0x71: //fmv.x.d (fclass.d has rm = 1: not modelled)
			if (rs2 != 0 || rm != 0) return unmodelled(insn, 4);
			HIT(FMV_X_D);
			x[rd] = f[rs1];
			return true;
		case 0x79: //fmv.d.x
			if (rs2 != 0 || rm != 0) return unmodelled(insn, 4);
			HIT(FMV_D_X);
			f[rd] = x[rs1];
			return true;
		default:
			return unmodelled(insn, 4);
		}
	}

	bool Cpu::execCsr(uint32_t insn) {
		const unsigned rd = (insn >> 7) & 31, rs1 = (insn >> 15) & 31, funct3 = (insn >> 12) & 7;
		const uint32_t csr = insn >> 20;
		enum { CSR_FFLAGS = 1, CSR_FRM = 2, CSR_FCSR = 3 };
		if (csr != CSR_FFLAGS && csr != CSR_FRM && csr != CSR_FCSR)
			return unmodelled(insn, 4);
		//the accrued exception flags are not tracked: any instruction that makes them observable is unmodelled
		if (csr != CSR_FRM && rd != 0)
			return unmodelled(insn, 4);
		const uint64_t src = (funct3 & 4) ? (uint64_t)rs1 : x[rs1];
		const uint64_t old = (csr == CSR_FRM) ? frm : (csr == CSR_FCSR ? ((uint64_t)frm << 5) : 0);
		uint64_t val;
		bool write;
		switch (funct3 & 3) {
		case 1: if (funct3 & 4) HIT(CSRRWI); else HIT(CSRRW); val = src; write = true; break;                 //csrrw / csrrwi
		case 2: if (funct3 & 4) HIT(CSRRSI); else HIT(CSRRS); val = old | src; write = rs1 != 0; break;       //csrrs / csrrsi
		case 3: if (funct3 & 4) HIT(CSRRCI); else HIT(CSRRC); val = old & ~src; write = rs1 != 0; break;      //csrrc / csrrci
		default: return unmodelled(insn, 4);
		}
		if (write) {
			if (csr == CSR_FRM)
				frm = (uint32_t)(val & 7);
			else if (csr == CSR_FCSR)
				frm = (uint32_t)((val >> 5) & 7);
			//fflags: dropped
		}
		if (rd != 0)
			x[rd] = old;
		return true;
	}

	bool Cpu::exec32(uint32_t insn, uint64_t& npc) {
		const unsigned opcode = insn & 0x7f;
		const unsigned rd = (insn >> 7) & 31, funct3 = (insn >> 12) & 7, rs1 = (insn >> 15) & 31, rs2 = (insn >> 20) & 31;
		const unsigned funct7 = insn >> 25;
		const int64_t immI = (int32_t)insn >> 20;

		switch (opcode) {
		case 0x37: //lui
			HIT(LUI);
			x[rd] = (uint64_t)(int64_t)(int32_t)(insn & 0xfffff000u);
			return true;
		case 0x17: //auipc
			HIT(AUIPC);
			x[rd] = pc + (uint64_t)(int64_t)(int32_t)(insn & 0xfffff000u);
			return true;
		case 0x6f: { //jal
			const int64_t immJ = (int64_t)(((int32_t)(insn & 0x80000000u) >> 11) | (int32_t)(insn & 0xff000) | (int32_t)((insn >> 9) & 0x800) | (int32_t)((insn >> 20) & 0x7fe));
			HIT(JAL);
			x[rd] = pc + 4;
			npc = pc + (uint64_t)immJ;
			return true;
		}
		case 0x67: { //jalr
			if (funct3 != 0) return unmodelled(insn, 4);
			HIT(JALR);
			const uint64_t target = (x[rs1] + (uint64_t)immI) & ~1ULL;
			x[rd] = pc + 4;
			npc = target;
			return true;
		}
		case 0x63: { //branches
			const int64_t immB = (int64_t)(((int32_t)(insn & 0x80000000u) >> 19) | (int32_t)((insn & 0x80) << 4) | (int32_t)((insn >> 20) & 0x7e0) | (int32_t)((insn >> 7) & 0x1e));
			bool taken;
			switch (funct3) {
			case 0: HIT(BEQ); taken = x[rs1] == x[rs2]; break;
			case 1: HIT(BNE); taken = x[rs1] != x[rs2]; break;
			case 4: HIT(BLT); taken = (int64_t)x[rs1] < (int64_t)x[rs2]; break;
			case 5: HIT(BGE); taken = (int64_t)x[rs1] >= (int64_t)x[rs2]; break;
			case 6: HIT(BLTU); taken = x[rs1] < x[rs2]; break;
			case 7: HIT(BGEU); taken = x[rs1] >= x[rs2]; break;
			default: return unmodelled(insn, 4);
			}
			if (taken)
				npc = pc + (uint64_t)immB;
			return true;
		}
		case 0x03: { //loads
			const uint64_t addr = x[rs1] + (uint64_t)immI;
			switch (funct3) {
			case 0: { HIT(LB); int8_t v = 0; if (!load(addr, v)) return false; x[rd] = (uint64_t)(int64_t)v; return true; }
			case 1: { HIT(LH); int16_t v = 0; if (!load(addr, v)) return false; x[rd] = (uint64_t)(int64_t)v; return true; }
			case 2: { HIT(LW); int32_t v = 0; if (!load(addr, v)) return false; x[rd] = (uint64_t)(int64_t)v; return true; }
			case 3: { HIT(LD); uint64_t v = 0; if (!load(addr, v)) return false; x[rd] = v; return true; }
			case 4: { HIT(LBU); uint8_t v = 0; if (!load(addr, v)) return false; x[rd] = v; return true; }
			case 5: { HIT(LHU); uint16_t v = 0; if (!load(addr, v)) return false; x[rd] = v; return true; }
			case 6: { HIT(LWU); uint32_t v = 0; if (!load(addr, v)) return false; x[rd] = v; return true; }
			default: return unmodelled(insn, 4);
			}
		}
		case 0x23: { //stores
			const int64_t immS = (int64_t)(((int32_t)(insn & 0xfe000000u) >> 20) | (int32_t)((insn >> 7) & 31));
			const uint64_t addr = x[rs1] + (uint64_t)immS;
			switch (funct3) {
			case 0: HIT(SB); return store<uint8_t>(addr, (uint8_t)x[rs2]);
			case 1: HIT(SH); return store<uint16_t>(addr, (uint16_t)x[rs2]);
			case 2: HIT(SW); return store<uint32_t>(addr, (uint32_t)x[rs2]);
			case 3: HIT(SD); return store<uint64_t>(addr, x[rs2]);
			default: return unmodelled(insn, 4);
			}
		}
		case 0x13: { //OP-IMM
			const uint64_t a = x[rs1];
			const unsigned shamt = (insn >> 20) & 63;
			const unsigned top6 = insn >> 26;
			switch (funct3) {
			case 0: HIT(ADDI); x[rd] = a + (uint64_t)immI; return true;
			case 2: HIT(SLTI); x[rd] = (int64_t)a < immI; return true;
			case 3: HIT(SLTIU); x[rd] = a < (uint64_t)immI; return true;
			case 4: HIT(XORI); x[rd] = a ^ (uint64_t)immI; return true;
			case 6: HIT(ORI); x[rd] = a | (uint64_t)immI; return true;
			case 7: HIT(ANDI); x[rd] = a & (uint64_t)immI; return true;
			case 1:
				if (top6 != 0) return unmodelled(insn, 4);
				HIT(SLLI);
				x[rd] = a << shamt;
				return true;
			case 5:
				if (top6 == 0x00) { HIT(SRLI); x[rd] = a >> shamt; return true; }
				if (top6 == 0x10) { HIT(SRAI); x[rd] = (uint64_t)((int64_t)a >> shamt); return true; }
				if (top6 == 0x18 && enableZbaZbb) { HIT(RORI); x[rd] = rotr64(a, shamt); return true; } //rori
				return unmodelled(insn, 4);
			}
			return unmodelled(insn, 4);
		}
		case 0x1b: { //OP-IMM-32
			const uint64_t a = x[rs1];
			const unsigned shamt = (insn >> 20) & 31;
			switch (funct3) {
			case 0: HIT(ADDIW); x[rd] = sext32(a + (uint64_t)immI); return true;
			case 1:
				if (funct7 != 0) return unmodelled(insn, 4);
				HIT(SLLIW);
				x[rd] = sext32((uint32_t)a << shamt);
				return true;
			case 5:
				if (funct7 == 0x00) { HIT(SRLIW); x[rd] = sext32((uint32_t)a >> shamt); return true; }
				if (funct7 == 0x20) { HIT(SRAIW); x[rd] = (uint64_t)(int64_t)((int32_t)(uint32_t)a >> shamt); return true; }
				return unmodelled(insn, 4);
			default:
				return unmodelled(insn, 4);
			}
		}
		case 0x33: { //OP
			const uint64_t a = x[rs1], b = x[rs2];
			if (funct7 == 0x00) {
				switch (funct3) {
				case 0: HIT(ADD); x[rd] = a + b; return true;
				case 1: HIT(SLL); x[rd] = a << (b & 63); return true;
				case 2: HIT(SLT); x[rd] = (int64_t)a < (int64_t)b; return true;
				case 3: HIT(SLTU); x[rd] = a < b; return true;
				case 4: HIT(XOR); x[rd] = a ^ b; return true;
				case 5: HIT(SRL); x[rd] = a >> (b & 63); return true;
				case 6: HIT(OR); x[rd] = a | b; return true;
				case 7: HIT(AND); x[rd] = a & b; return true;
				}
			}
			else if (funct7 == 0x20) {
				switch (funct3) {
				case 0: HIT(SUB); x[rd] = a - b; return true;
				case 5: HIT(SRA); x[rd] = (uint64_t)((int64_t)a >> (b & 63)); return true;
				default: return unmodelled(insn, 4);
				}
			}
			else if (funct7 == 0x01) { //M
				switch (funct3) {
				case 0: HIT(MUL); x[rd] = a * b; return true;
				case 1: HIT(MULH); x[rd] = mulh64((int64_t)a, (int64_t)b); return true;
				case 2: HIT(MULHSU); x[rd] = mulhsu64((int64_t)a, b); return true;
				case 3: HIT(MULHU); x[rd] = mulhu64(a, b); return true;
				case 4: //div
					HIT(DIV);
					if (b == 0) x[rd] = ~0ULL;
					else if ((int64_t)a == INT64_MIN && (int64_t)b == -1) x[rd] = a;
					else x[rd] = (uint64_t)((int64_t)a / (int64_t)b);
					return true;
				case 5: HIT(DIVU); x[rd] = b == 0 ? ~0ULL : a / b; return true;
				case 6: //rem
					HIT(REM);
					if (b == 0) x[rd] = a;
					else if ((int64_t)a == INT64_MIN && (int64_t)b == -1) x[rd] = 0;
					else x[rd] = (uint64_t)((int64_t)a % (int64_t)b);
					return true;
				case 7: HIT(REMU); x[rd] = b == 0 ? a : a % b; return true;
				}
			}
			else if (funct7 == 0x10 && enableZbaZbb) { //Zba sh1add/sh2add/sh3add
				switch (funct3) {
				case 2: HIT(SH1ADD); x[rd] = (a << 1) + b; return true;
				case 4: HIT(SH2ADD); x[rd] = (a << 2) + b; return true;
				case 6: HIT(SH3ADD); x[rd] = (a << 3) + b; return true;
				default: return unmodelled(insn, 4);
				}
			}
			else if (funct7 == 0x30 && enableZbaZbb) { //Zbb rol/ror
				switch (funct3) {
				case 1: HIT(ROL); x[rd] = rotr64(a, (unsigned)(64 - (b & 63))); return true;
				case 5: HIT(ROR); x[rd] = rotr64(a, (unsigned)(b & 63)); return true;
				default: return unmodelled(insn, 4);
				}
			}
			return unmodelled(insn, 4);
		}
		case 0x3b: { //OP-32
			const uint64_t a = x[rs1], b = x[rs2];
			const int32_t a32 = (int32_t)(uint32_t)a, b32 = (int32_t)(uint32_t)b;
			if (funct7 == 0x00) {
				switch (funct3) {
				case 0: HIT(ADDW); x[rd] = sext32(a + b); return true;
				case 1: HIT(SLLW); x[rd] = sext32((uint32_t)a << (b & 31)); return true;
				case 5: HIT(SRLW); x[rd] = sext32((uint32_t)a >> (b & 31)); return true;
				default: return unmodelled(insn, 4);
				}
			}
			else if (funct7 == 0x20) {
				switch (funct3) {
				case 0: HIT(SUBW); x[rd] = sext32(a - b); return true;
				case 5: HIT(SRAW); x[rd] = (uint64_t)(int64_t)(a32 >> (b & 31)); return true;
				default: return unmodelled(insn, 4);
				}
			}
			else if (funct7 == 0x01) {
				switch (funct3) {
				case 0: HIT(MULW); x[rd] = sext32((uint32_t)a * (uint32_t)b); return true;
				case 4:
					HIT(DIVW);
					if (b32 == 0) x[rd] = ~0ULL;
					else if (a32 == INT32_MIN && b32 == -1) x[rd] = (uint64_t)(int64_t)a32;
					else x[rd] = (uint64_t)(int64_t)(a32 / b32);
					return true;
				case 5: HIT(DIVUW); x[rd] = (uint32_t)b == 0 ? ~0ULL : sext32((uint32_t)a / (uint32_t)b); return true;
				case 6:
					HIT(REMW);
					if (b32 == 0) x[rd] = (uint64_t)(int64_t)a32;
					else if (a32 == INT32_MIN && b32 == -1) x[rd] = 0;
					else x[rd] = (uint64_t)(int64_t)(a32 % b32);
					return true;
				case 7: HIT(REMUW); x[rd] = (uint32_t)b == 0 ? sext32(a) : sext32((uint32_t)a % (uint32_t)b); return true;
				default: return unmodelled(insn, 4);
				}
			}
			else if (funct7 == 0x04 && funct3 == 0 && enableZbaZbb) { //Zba add.uw (zext.w)
				HIT(ADD_UW);
				x[rd] = (uint64_t)(uint32_t)a + b;
				return true;
			}
			return unmodelled(insn, 4);
		}
		case 0x0f: //fence / fence.i: no effect in this single-hart model
			if (funct3 == 0) { HIT(FENCE); return true; }
			if (funct3 == 1) { HIT(FENCE_I); return true; }
			return unmodelled(insn, 4);
		case 0x73: //system
			if (funct3 == 0 || funct3 == 4) return unmodelled(insn, 4); //ecall, ebreak, ...
			return execCsr(insn);
		case 0x07: { //fld
			if (funct3 != 3) return unmodelled(insn, 4);
			HIT(FLD);
			uint64_t v;
			if (!load(x[rs1] + (uint64_t)immI, v)) return false;
			f[rd] = v;
			return true;
		}
		case 0x27: { //fsd
			if (funct3 != 3) return unmodelled(insn, 4);
			HIT(FSD);
			const int64_t immS = (int64_t)(((int32_t)(insn & 0xfe000000u) >> 20) | (int32_t)((insn >> 7) & 31));
			return store<uint64_t>(x[rs1] + (uint64_t)immS, f[rs2]);
		}
		case 0x53: //OP-FP
			return execFp(insn);
		default:
			return unmodelled(insn, 4);
		}
	}

	bool Cpu::exec16(uint16_t insn, uint64_t& npc) {
		if (insn == 0)
			return fail(Stop::Illegal, "illegal instruction 0x0000 at +0x%" PRIx64, pc - codeBase_);
		const unsigned op = insn & 3, funct3 = insn >> 13;
		const unsigned rdp = ((insn >> 2) & 7) + 8;   //rd' / rs2'
		const unsigned rs1p = ((insn >> 7) & 7) + 8;  //rs1' / rd'
		const unsigned rdf = (insn >> 7) & 31;        //full rd / rs1
		const unsigned rs2f = (insn >> 2) & 31;       //full rs2
		const unsigned b12 = (insn >> 12) & 1;
		//6-bit immediate: imm[5] = inst[12], imm[4:0] = inst[6:2]
		const uint32_t imm6u = (b12 << 5) | ((insn >> 2) & 31);
		const int64_t imm6 = (int64_t)(((int32_t)(imm6u << 26)) >> 26);

		if (op == 0) {
			//uimm[5:3] = inst[12:10], uimm[7:6] = inst[6:5]  (c.fld, c.ld, c.fsd, c.sd)
			const uint64_t uimmD = ((insn >> 7) & 0x38) | ((insn << 1) & 0xc0);
			//uimm[5:3] = inst[12:10], uimm[2] = inst[6], uimm[6] = inst[5]  (c.lw, c.sw)
			const uint64_t uimmW = ((insn >> 7) & 0x38) | ((insn >> 4) & 0x4) | ((insn << 1) & 0x40);
			switch (funct3) {
			case 0: { //c.addi4spn: nzuimm[5:4|9:6|2|3] = inst[12:5]
				const uint64_t nzuimm = ((insn >> 7) & 0x30) | ((insn >> 1) & 0x3c0) | ((insn >> 4) & 0x4) | ((insn >> 2) & 0x8);
				if (nzuimm == 0) return unmodelled(insn, 2); //reserved
				HIT(C_ADDI4SPN);
				x[rdp] = x[2] + nzuimm;
				return true;
			}
			case 1: { HIT(C_FLD); uint64_t v; if (!load(x[rs1p] + uimmD, v)) return false; f[rdp] = v; return true; } //c.fld
			case 2: { HIT(C_LW); int32_t v; if (!load(x[rs1p] + uimmW, v)) return false; x[rdp] = (uint64_t)(int64_t)v; return true; } //c.lw
			case 3: { HIT(C_LD); uint64_t v; if (!load(x[rs1p] + uimmD, v)) return false; x[rdp] = v; return true; } //c.ld
			case 5: HIT(C_FSD); return store<uint64_t>(x[rs1p] + uimmD, f[rdp]); //c.fsd
			case 6: HIT(C_SW); return store<uint32_t>(x[rs1p] + uimmW, (uint32_t)x[rdp]); //c.sw
			case 7: HIT(C_SD); return store<uint64_t>(x[rs1p] + uimmD, x[rdp]); //c.sd
			default: return unmodelled(insn, 2);
			}
		}
		else if (op == 1) {
			switch (funct3) {
			case 0: //c.nop / c.addi (rd = 0 or imm = 0: hints, no architectural effect)
				if (rdf != 0) { HIT(C_ADDI); x[rdf] += (uint64_t)imm6; } else HIT(C_NOP);
				return true;
			case 1: //c.addiw (rd = 0 reserved)
				if (rdf == 0) return unmodelled(insn, 2);
				HIT(C_ADDIW);
				x[rdf] = sext32(x[rdf] + (uint64_t)imm6);
				return true;
			case 2: //c.li (rd = 0: hint)
				HIT(C_LI);
				if (rdf != 0) x[rdf] = (uint64_t)imm6;
				return true;
			case 3:
				if (rdf == 2) { //c.addi16sp: nzimm[9] = inst[12], [4] = inst[6], [6] = inst[5], [8:7] = inst[4:3], [5] = inst[2]
					const uint32_t u = (b12 << 9) | ((insn >> 2) & 0x10) | ((insn << 1) & 0x40) | ((insn << 4) & 0x180) | ((insn << 3) & 0x20);
					if (u == 0) return unmodelled(insn, 2); //reserved
					HIT(C_ADDI16SP);
					x[2] += (uint64_t)(int64_t)(((int32_t)(u << 22)) >> 22);
					return true;
				}
				else { //c.lui: nzimm[17] = inst[12], nzimm[16:12] = inst[6:2]
					if (imm6u == 0) return unmodelled(insn, 2); //reserved
					HIT(C_LUI);
					if (rdf != 0) x[rdf] = (uint64_t)(imm6 * 4096);
					return true;
				}
			case 4:
				switch ((insn >> 10) & 3) {
				case 0: HIT(C_SRLI); x[rs1p] >>= imm6u; return true; //c.srli (shamt 0: hint)
				case 1: HIT(C_SRAI); x[rs1p] = (uint64_t)((int64_t)x[rs1p] >> imm6u); return true; //c.srai
				case 2: HIT(C_ANDI); x[rs1p] &= (uint64_t)imm6; return true; //c.andi
				default:
					if (b12 == 0) {
						switch ((insn >> 5) & 3) {
						case 0: HIT(C_SUB); x[rs1p] -= x[rdp]; return true; //c.sub
						case 1: HIT(C_XOR); x[rs1p] ^= x[rdp]; return true; //c.xor
						case 2: HIT(C_OR); x[rs1p] |= x[rdp]; return true; //c.or
						default: HIT(C_AND); x[rs1p] &= x[rdp]; return true; //c.and
						}
					}
					else {
						switch ((insn >> 5) & 3) {
						case 0: HIT(C_SUBW); x[rs1p] = sext32(x[rs1p] - x[rdp]); return true; //c.subw
						case 1: HIT(C_ADDW); x[rs1p] = sext32(x[rs1p] + x[rdp]); return true; //c.addw
						default: return unmodelled(insn, 2); //reserved
						}
					}
				}
			case 5: { //c.j: offset[11|4|9:8|10|6|7|3:1|5] = inst[12:2]
				const uint32_t u = (b12 << 11) | ((insn >> 7) & 0x10) | ((insn >> 1) & 0x300) | ((insn << 2) & 0x400) |
					((insn >> 1) & 0x40) | ((insn << 1) & 0x80) | ((insn >> 2) & 0xe) | ((insn << 3) & 0x20);
				HIT(C_J);
				npc = pc + (uint64_t)(int64_t)(((int32_t)(u << 20)) >> 20);
				return true;
			}
			default: { //c.beqz / c.bnez: offset[8|4:3] = inst[12:10], offset[7:6|2:1|5] = inst[6:2]
				const uint32_t u = (b12 << 8) | ((insn >> 7) & 0x18) | ((insn << 1) & 0xc0) | ((insn >> 2) & 0x6) | ((insn << 3) & 0x20);
				const int64_t off = (int64_t)(((int32_t)(u << 23)) >> 23);
				const bool zero = x[rs1p] == 0;
				if (funct3 == 6) HIT(C_BEQZ); else HIT(C_BNEZ);
				if (funct3 == 6 ? zero : !zero)
					npc = pc + (uint64_t)off;
				return true;
			}
			}
		}
		else { //op == 2
			//uimm[5] = inst[12], uimm[4:3] = inst[6:5], uimm[8:6] = inst[4:2]  (c.fldsp, c.ldsp)
			const uint64_t uimmDsp = (b12 << 5) | ((insn >> 2) & 0x18) | ((insn << 4) & 0x1c0);
			//uimm[5:3] = inst[12:10], uimm[8:6] = inst[9:7]  (c.fsdsp, c.sdsp)
			const uint64_t uimmDss = ((insn >> 7) & 0x38) | ((insn >> 1) & 0x1c0);
			switch (funct3) {
			case 0: //c.slli (rd = 0 or shamt = 0: hints)
				HIT(C_SLLI);
				if (rdf != 0) x[rdf] <<= imm6u;
				return true;
			case 1: { HIT(C_FLDSP); uint64_t v; if (!load(x[2] + uimmDsp, v)) return false; f[rdf] = v; return true; } //c.fldsp
			case 2: { //c.lwsp: uimm[5] = inst[12], uimm[4:2] = inst[6:4], uimm[7:6] = inst[3:2]
				if (rdf == 0) return unmodelled(insn, 2); //reserved
				HIT(C_LWSP);
				const uint64_t uimm = (b12 << 5) | ((insn >> 2) & 0x1c) | ((insn << 4) & 0xc0);
				int32_t v;
				if (!load(x[2] + uimm, v)) return false;
				x[rdf] = (uint64_t)(int64_t)v;
				return true;
			}
			case 3: { //c.ldsp
				if (rdf == 0) return unmodelled(insn, 2); //reserved
				HIT(C_LDSP);
				uint64_t v;
				if (!load(x[2] + uimmDsp, v)) return false;
				x[rdf] = v;
				return true;
			}
			case 4:
				if (b12 == 0) {
					if (rs2f == 0) { //c.jr
						if (rdf == 0) return unmodelled(insn, 2); //reserved
						HIT(C_JR);
						npc = x[rdf] & ~1ULL;
						return true;
					}
					HIT(C_MV);
					if (rdf != 0) x[rdf] = x[rs2f]; //c.mv (rd = 0: hint)
					return true;
				}
				else {
					if (rs2f == 0) {
						if (rdf == 0) return unmodelled(insn, 2); //c.ebreak
						HIT(C_JALR);
						const uint64_t target = x[rdf] & ~1ULL; //c.jalr
						x[1] = pc + 2;
						npc = target;
						return true;
					}
					HIT(C_ADD);
					if (rdf != 0) x[rdf] += x[rs2f]; //c.add (rd = 0: hint)
					return true;
				}
			case 5: HIT(C_FSDSP); return store<uint64_t>(x[2] + uimmDss, f[rs2f]); //c.fsdsp
			case 6: { //c.swsp: uimm[5:2] = inst[12:9], uimm[7:6] = inst[8:7]
				HIT(C_SWSP);
				const uint64_t uimm = ((insn >> 7) & 0x3c) | ((insn >> 1) & 0xc0);
				return store<uint32_t>(x[2] + uimm, (uint32_t)x[rs2f]);
			}
			default: HIT(C_SDSP); return store<uint64_t>(x[2] + uimmDss, x[rs2f]); //c.sdsp
			}
		}
	}

	Stop Cpu::run(uint64_t entry, uint64_t returnSentinel, uint64_t maxInstructions) {
		pc = entry;
		error_.clear();
		stop_ = Stop::Returned;
		const uint64_t budgetEnd = executed + maxInstructions;
		uint64_t tx[32], tf[32];
		while (pc != returnSentinel) {
			if (executed >= budgetEnd) {
				fail(Stop::Limit, "instruction limit of %" PRIu64 " exceeded at +0x%" PRIx64, maxInstructions, pc - codeBase_);
				break;
			}
			uint32_t insn;
			unsigned len;
			if (!fetch(pc, insn, len))
				break;
			uint64_t npc = pc + len;
			if (trace) {
				memcpy(tx, x, sizeof(tx));
				memcpy(tf, f, sizeof(tf));
			}
			const bool ok = (len == 4) ? exec32(insn, npc) : exec16((uint16_t)insn, npc);
			x[0] = 0;
			if (trace) {
				if (len == 4) fprintf(trace, "+%06" PRIx64 " %08x ", pc - codeBase_, insn);
				else fprintf(trace, "+%06" PRIx64 "     %04x ", pc - codeBase_, insn);
				for (int i = 0; i < 32; ++i) {
					if (tx[i] != x[i]) fprintf(trace, " x%d=%016" PRIx64, i, x[i]);
					if (tf[i] != f[i]) fprintf(trace, " f%d=%016" PRIx64, i, f[i]);
				}
				if (npc != pc + len) fprintf(trace, " -> +%06" PRIx64, npc - codeBase_);
				if (!ok) fprintf(trace, " !! %s", error_.c_str());
				fputc('\n', trace);
			}
			if (!ok)
				break;
			++executed;
			pc = npc;
		}
		return stop_;
	}

	// =========================================================================================================
	// Driver
	// =========================================================================================================

	namespace {
		constexpr uint64_t ReturnSentinel = 0x0000dead0000beecULL; //even, outside of every region
		constexpr size_t StackSize = 64 * 1024;

		inline uint64_t loadLE64(const uint8_t* p) {
			uint64_t v = 0;
			for (int i = 7; i >= 0; --i)
				v = (v << 8) | p[i];
			return v;
		}

		//virtual_machine.cpp: getSmallPositiveFloatBits / getStaticExponent / getFloatMask
		inline uint64_t getSmallPositiveFloatBits(uint64_t entropy) {
			uint64_t exponent = entropy >> 59; //0..31
			uint64_t mantissa = entropy & randomx::mantissaMask;
			exponent += randomx::exponentBias;
			exponent &= randomx::exponentMask;
			exponent <<= randomx::mantissaSize;
			return exponent | mantissa;
		}

		inline uint64_t getStaticExponent(uint64_t entropy) {
			uint64_t exponent = randomx::constExponentBits;
			exponent |= (entropy >> (64 - randomx::staticExponentBits)) << randomx::dynamicExponentBits;
			exponent <<= randomx::mantissaSize;
			return exponent;
		}

		inline uint64_t getFloatMask(uint64_t entropy) {
			constexpr uint64_t mask22bit = (1ULL << 22) - 1;
			return (entropy & mask22bit) | getStaticExponent(entropy);
		}

		uint64_t canaryX(int i) { return 0xC0DE000000000000ULL + 0x0001000100010001ULL * (uint64_t)(i + 1); }
		uint64_t canaryF(int i) { return 0x4330000000000000ULL + 0x0000010001000100ULL * (uint64_t)(i + 1); } //normal doubles

		void setupCallState(Cpu& cpu, uint8_t* stack, size_t stackSize, uint64_t& sp0) {
			for (int i = 0; i < 32; ++i) {
				cpu.x[i] = canaryX(i);
				cpu.f[i] = canaryF(i);
			}
			cpu.x[0] = 0;
			cpu.x[1] = ReturnSentinel;
			//16-byte aligned stack pointer, with a small caller frame above it
			sp0 = ((uint64_t)(uintptr_t)(stack + stackSize) - 256) & ~15ULL;
			cpu.x[2] = sp0;
		}
	}

	Machine::Machine() {
		char err[256] = "";
		jit_ = rv64shim_create(err, sizeof(err));
		if (jit_ == nullptr) {
			initError_ = std::string("rv64shim_create failed: ") + err;
			return;
		}
		rv64shim_info info;
		rv64shim_get_info(jit_, &info);
		if (info.usesVectorCode) {
			initError_ = "the emitter selected the RVV back-end (cpu stub not linked?)";
		}
		else if (info.sizeofProgram != sizeof(randomx::Program) || info.sizeofInstruction != sizeof(randomx::Instruction) ||
			info.sizeofRegisterFile != sizeof(randomx::RegisterFile) || info.sizeofMemoryRegisters != sizeof(randomx::MemoryRegisters) ||
			info.superscalarMaxSize != (uint32_t)randomx::SuperscalarMaxSize || info.cacheAccesses != RANDOMX_CACHE_ACCESSES) {
			initError_ = "layout mismatch between the riscv world and the host world";
		}
		if (!initError_.empty()) {
			rv64shim_destroy(jit_);
			jit_ = nullptr;
			return;
		}
		//like CompiledVm's constructor without secureJit: compiler.enableAll()
		rv64shim_protect(jit_, 2);
		stackSize_ = StackSize;
		stack_ = (uint8_t*)malloc(stackSize_);
		if (stack_ == nullptr) {
			initError_ = "out of memory";
			rv64shim_destroy(jit_);
			jit_ = nullptr;
		}
	}

	Machine::~Machine() {
		if (jit_ != nullptr)
			rv64shim_destroy(jit_);
		free(stack_);
	}

	const uint8_t* Machine::code() const {
		rv64shim_info info;
		rv64shim_get_info(jit_, &info);
		return info.code;
	}

	uint32_t Machine::codeSize() const {
		rv64shim_info info;
		rv64shim_get_info(jit_, &info);
		return info.codeSize;
	}

	uint32_t Machine::programEntryOffset() const {
		rv64shim_info info;
		rv64shim_get_info(jit_, &info);
		return (uint32_t)(info.entryProgram - info.code);
	}

	uint32_t Machine::dataInitEntryOffset() const {
		rv64shim_info info;
		rv64shim_get_info(jit_, &info);
		return (uint32_t)(info.entryDataInit - info.code);
	}

	bool Machine::dumpCode(const char* path) const {
		if (jit_ == nullptr)
			return false;
		FILE* fp = fopen(path, "wb");
		if (fp == nullptr)
			return false;
		rv64shim_info info;
		rv64shim_get_info(jit_, &info);
		const bool ok = fwrite(info.code, 1, info.codeSize, fp) == info.codeSize;
		return (fclose(fp) == 0) && ok;
	}

	bool Machine::generateSuperscalar(randomx_cache* cache, std::string& err) {
		//CompiledLightVm::setCache / initCacheCompile: compiler.generateSuperscalarHash(cache->programs, cache->reciprocalCache)
		rv64shim_ssprog progs[RANDOMX_CACHE_ACCESSES];
		for (unsigned j = 0; j < RANDOMX_CACHE_ACCESSES; ++j) {
			randomx::SuperscalarProgram& p = cache->programs[j];
			progs[j].instructions = p.programBuffer;
			progs[j].size = p.getSize();
			progs[j].addressRegister = p.getAddressRegister();
		}
		char buf[256] = "";
		if (rv64shim_generate_superscalar(jit_, progs, RANDOMX_CACHE_ACCESSES, cache->reciprocalCache.data(), cache->reciprocalCache.size(), buf, sizeof(buf)) != 0) {
			err = std::string("generateSuperscalarHash failed: ") + buf;
			return false;
		}
		return true;
	}

	void Machine::finish(Cpu& cpu, Stop stop, RunResult& res, const uint64_t* savedX, const uint64_t* savedF, uint64_t sp0) {
		res.executed = cpu.executed;
		res.frm = cpu.frm;
		char buf[160];
		if (cpu.misaligned != 0) {
			snprintf(buf, sizeof(buf), "%" PRIu64 " naturally misaligned data accesses; ", cpu.misaligned);
			res.notes += buf;
		}
		switch (stop) {
		case Stop::Returned:
			break;
		case Stop::Unmodelled:
			res.unmodelled = true;
			res.error = cpu.error();
			return;
		case Stop::OutOfBounds:
			res.outOfBounds = true;
			res.error = cpu.error();
			return;
		case Stop::Limit:
			res.limit = true;
			res.error = cpu.error();
			return;
		default:
			res.error = cpu.error();
			return;
		}
		if (options.checkAbi) {
			//RISC-V psABI: sp, s0-s11 (x8, x9, x18-x27), fs0-fs11 (f8, f9, f18-f27) are callee-saved; gp (x3) and tp (x4) must not be changed
			static const int calleeX[] = { 2, 3, 4, 8, 9, 18, 19, 20, 21, 22, 23, 24, 25, 26, 27 };
			static const int calleeF[] = { 8, 9, 18, 19, 20, 21, 22, 23, 24, 25, 26, 27 };
			(void)sp0;
			for (int r : calleeX) {
				if (cpu.x[r] != savedX[r]) {
					snprintf(buf, sizeof(buf), "ABI: register x%d not restored at return (0x%016" PRIx64 " -> 0x%016" PRIx64 ")", r, savedX[r], cpu.x[r]);
					res.error = buf;
					return;
				}
			}
			for (int r : calleeF) {
				if (cpu.f[r] != savedF[r]) {
					snprintf(buf, sizeof(buf), "ABI: register f%d not restored at return (0x%016" PRIx64 " -> 0x%016" PRIx64 ")", r, savedF[r], cpu.f[r]);
					res.error = buf;
					return;
				}
			}
		}
		res.ok = true;
	}

	RunResult Machine::runProgram(const uint8_t* program, uint8_t* scratchpad, int flags, bool lightMode,
		randomx_cache* cache, const uint8_t* datasetMemory, unsigned iterations, unsigned entryRoundingMode) {

		RunResult res;
		memset(res.reg, 0, sizeof(res.reg));
		if (jit_ == nullptr) {
			res.error = "machine not initialised: " + initError_;
			return res;
		}
		if (program == nullptr || scratchpad == nullptr || iterations == 0 || entryRoundingMode > 3 ||
			(lightMode && (cache == nullptr || cache->memory == nullptr || !cache->isInitialized())) || (!lightMode && datasetMemory == nullptr)) {
			res.error = "invalid argument";
			return res;
		}

		//CompiledVm::CompiledVm: compiler.setFlags(flags)
		rv64shim_set_flags(jit_, flags);

		//---- randomx_vm::initialize() ----
		uint64_t entropy[16];
		for (int i = 0; i < 16; ++i)
			entropy[i] = loadLE64(program + 8 * i);

		alignas(64) randomx::RegisterFile reg;
		memset((void*)&reg, 0xA5, sizeof(reg)); //stale contents of a previous run
		randomx::MemoryRegisters mem;
		uint64_t aBits[8];
		for (int i = 0; i < 8; ++i)
			aBits[i] = getSmallPositiveFloatBits(entropy[i]);
		memcpy((void*)&reg.a[0], aBits, sizeof(aBits)); //a[0].lo, a[0].hi, a[1].lo, ...
		mem.ma = (randomx::addr_t)(entropy[8] & randomx::CacheLineAlignMask);
		mem.mx = (randomx::addr_t)entropy[10];
		uint64_t addressRegisters = entropy[12];
		uint32_t readReg[4];
		readReg[0] = 0 + (addressRegisters & 1);
		addressRegisters >>= 1;
		readReg[1] = 2 + (addressRegisters & 1);
		addressRegisters >>= 1;
		readReg[2] = 4 + (addressRegisters & 1);
		addressRegisters >>= 1;
		readReg[3] = 6 + (addressRegisters & 1);
		const uint64_t datasetOffset = (entropy[13] % (randomx::DatasetExtraItems + 1)) * randomx::CacheLineSize;
		uint64_t eMask[2];
		eMask[0] = getFloatMask(entropy[14]);
		eMask[1] = getFloatMask(entropy[15]);

		//---- CompiledLightVm::setCache + run / CompiledVm::run ----
		char errbuf[256] = "";
		if (lightMode) {
			mem.memory = cache->memory; //CompiledLightVm::setCache
			if (!generateSuperscalar(cache, res.error))
				return res;
			if (rv64shim_generate_program_light(jit_, program, eMask, readReg, (uint32_t)datasetOffset, errbuf, sizeof(errbuf)) != 0) {
				res.error = std::string("generateProgramLight failed: ") + errbuf;
				return res;
			}
		}
		else {
			if (rv64shim_generate_program(jit_, program, eMask, readReg, errbuf, sizeof(errbuf)) != 0) {
				res.error = std::string("generateProgram failed: ") + errbuf;
				return res;
			}
			mem.memory = const_cast<uint8_t*>(datasetMemory) + datasetOffset; //CompiledVm::run
		}

		//---- CompiledVm::execute(): #if defined(__aarch64__) || defined(__riscv) ----
		memcpy((void*)reg.f, eMask, sizeof(eMask));

		rv64shim_info info;
		rv64shim_get_info(jit_, &info);
		res.codeBytes = info.codePos;
		if (options.dumpCodeTo != nullptr)
			dumpCode(options.dumpCodeTo);

		//---- compiler.getProgramFunc()(reg, mem, scratchpad, iterations) ----
		Cpu cpu;
		cpu.enableZbaZbb = options.enableZbaZbb;
		cpu.trace = options.trace;
		cpu.coverage = coverage;
		cpu.setCodeBase((uint64_t)(uintptr_t)info.code);
		cpu.addRegion(info.code, info.codeSize, PermR | PermX, "code buffer");
		cpu.addRegion(scratchpad, randomx::ScratchpadSize, PermR | PermW, "scratchpad");
		if (lightMode)
			cpu.addRegion(cache->memory, randomx::CacheSize, PermR, "cache memory");
		else
			cpu.addRegion(datasetMemory, randomx::DatasetSize, PermR, "dataset");
		cpu.addRegion(&reg, sizeof(reg), PermR | PermW, "RegisterFile");
		cpu.addRegion(&mem, sizeof(mem), PermR, "MemoryRegisters");
		cpu.addRegion(stack_, stackSize_, PermR | PermW, "stack");
		if (flags & RANDOMX_FLAG_V2) {
			cpu.addRegion(randomx_aes_lut_enc, sizeof(randomx_aes_lut_enc), PermR, "randomx_aes_lut_enc");
			cpu.addRegion(randomx_aes_lut_dec, sizeof(randomx_aes_lut_dec), PermR, "randomx_aes_lut_dec");
		}

		uint64_t sp0;
		setupCallState(cpu, stack_, stackSize_, sp0);
		cpu.x[10] = (uint64_t)(uintptr_t)&reg;
		cpu.x[11] = (uint64_t)(uintptr_t)&mem;
		cpu.x[12] = (uint64_t)(uintptr_t)scratchpad;
		cpu.x[13] = iterations;
		cpu.frm = frmFromRandomX(entryRoundingMode);
		uint64_t savedX[32], savedF[32];
		memcpy(savedX, cpu.x, sizeof(savedX));
		memcpy(savedF, cpu.f, sizeof(savedF));

		const uint64_t budget = options.maxInstructions ? options.maxInstructions : 1000000ULL + 100000ULL * iterations;
		const Stop stop = cpu.run((uint64_t)(uintptr_t)info.entryProgram, ReturnSentinel, budget);
		finish(cpu, stop, res, savedX, savedF, sp0);
		memcpy(res.reg, &reg, sizeof(res.reg));
		return res;
	}

	RunResult Machine::initDataset(randomx_cache* cache, uint8_t* out, uint32_t startItem, uint32_t endItem) {
		RunResult res;
		memset(res.reg, 0, sizeof(res.reg));
		if (jit_ == nullptr) {
			res.error = "machine not initialised: " + initError_;
			return res;
		}
		if (cache == nullptr || cache->memory == nullptr || !cache->isInitialized() || out == nullptr || startItem >= endItem) {
			res.error = "invalid argument";
			return res;
		}
		if (!generateSuperscalar(cache, res.error))
			return res;

		rv64shim_info info;
		rv64shim_get_info(jit_, &info);
		res.codeBytes = info.codePos;
		if (options.dumpCodeTo != nullptr)
			dumpCode(options.dumpCodeTo);

		const uint64_t items = (uint64_t)endItem - startItem;
		Cpu cpu;
		cpu.enableZbaZbb = options.enableZbaZbb;
		cpu.trace = options.trace;
		cpu.coverage = coverage;
		cpu.setCodeBase((uint64_t)(uintptr_t)info.code);
		cpu.addRegion(info.code, info.codeSize, PermR | PermX, "code buffer");
		cpu.addRegion(cache->memory, randomx::CacheSize, PermR, "cache memory");
		cpu.addRegion(cache, sizeof(randomx_cache), PermR, "randomx_cache");
		cpu.addRegion(out, items * randomx::CacheLineSize, PermR | PermW, "dataset output");
		cpu.addRegion(stack_, stackSize_, PermR | PermW, "stack");

		uint64_t sp0;
		setupCallState(cpu, stack_, stackSize_, sp0);
		cpu.x[10] = (uint64_t)(uintptr_t)cache;
		cpu.x[11] = (uint64_t)(uintptr_t)out;
		cpu.x[12] = startItem;
		cpu.x[13] = endItem;
		cpu.frm = RM_RNE;
		uint64_t savedX[32], savedF[32];
		memcpy(savedX, cpu.x, sizeof(savedX));
		memcpy(savedF, cpu.f, sizeof(savedF));

		const uint64_t budget = options.maxInstructions ? options.maxInstructions : 1000000ULL + 50000ULL * items;
		const Stop stop = cpu.run((uint64_t)(uintptr_t)info.entryDataInit, ReturnSentinel, budget);
		finish(cpu, stop, res, savedX, savedF, sp0);
		return res;
	}

	Machine& threadMachine() {
		static thread_local Machine machine;
		return machine;
	}

	RunResult runProgram(const uint8_t* program, uint8_t* scratchpad, int flags, bool lightMode,
		randomx_cache* cache, const uint8_t* datasetMemory, unsigned iterations, unsigned entryRoundingMode) {
		return threadMachine().runProgram(program, scratchpad, flags, lightMode, cache, datasetMemory, iterations, entryRoundingMode);
	}

	RunResult initDataset(randomx_cache* cache, uint8_t* out, uint32_t startItem, uint32_t endItem) {
		return threadMachine().initDataset(cache, out, startItem, endItem);
	}
}
