#!/bin/bash
# build_world.sh <repo_dir> <out_dir> <cxx> <cc> <flags...>
# Builds the "riscv world" relocatable object rv64_world.o for the harness: the REAL emitter
# <repo>/src/jit_compiler_rv64.cpp + rv64_shim.cpp + rv64_stubs.cpp compiled with -D__riscv -D__riscv_xlen=64, merged with
# the cross-assembled runtime blob; only the rv64shim_* symbols stay global (see README.md / build_test.sh).
set -euo pipefail
HERE=$(cd "$(dirname "$0")" && pwd)
REPO=$1; OUT=$2; CXX=$3; CC=$4; shift 4
FLAGS="$*"
mkdir -p "$OUT"
"$HERE/gen_static.sh" "$REPO" "$OUT" > "$OUT/gen_static.log" 2>&1 || { cat "$OUT/gen_static.log"; exit 1; }
RVDEFS="-D__riscv -D__riscv_xlen=64"
# the unmodified emitter shifts negative ints left in 7 places (UB before C++20, two's complement with GCC): keep UBSan's
# shift check off for that one translation unit
EMITTER_SAN=""
case "$FLAGS" in *-fsanitize=*undefined*) EMITTER_SAN="-fno-sanitize=shift";; esac
$CXX -std=gnu++17 $FLAGS $EMITTER_SAN -w $RVDEFS -I"$REPO/src" -c "$REPO/src/jit_compiler_rv64.cpp" -o "$OUT/jit_compiler_rv64.o"
$CXX -std=gnu++17 $FLAGS $RVDEFS -I"$REPO/src" -I"$HERE" -c "$HERE/rv64_shim.cpp" -o "$OUT/rv64_shim.o"
$CXX -std=gnu++17 $FLAGS $RVDEFS -I"$REPO/src" -I"$HERE" -c "$HERE/rv64_stubs.cpp" -o "$OUT/rv64_stubs.o"
$CC -c "$OUT/rv64_static_blob.S" -o "$OUT/rv64_static_blob.o"
ld -r --force-group-allocation "$OUT/jit_compiler_rv64.o" "$OUT/rv64_shim.o" "$OUT/rv64_stubs.o" "$OUT/rv64_static_blob.o" -o "$OUT/rv64_world_all.o"
objcopy --wildcard --keep-global-symbol='rv64shim_*' "$OUT/rv64_world_all.o" "$OUT/rv64_world.o"
