#!/bin/sh
# MANIFEST.setup_cmd: builds every variant from files on disk (offline) and runs the model self-tests,
# including the cross-check of the model's Blake2b against CPython's hashlib.
set -e
cd "$(dirname "$0")"
python3 - <<'PY'
import sys, os, json, hashlib, subprocess
from concurrent.futures import ThreadPoolExecutor
sys.path.insert(0, os.getcwd())
from lib import build as B
with ThreadPoolExecutor(4) as ex:
    bins = dict(zip(B.VARIANTS, ex.map(B.build, B.VARIANTS)))
for v, p in bins.items():
    print("built", v, p)
out = os.path.join(B.BUILD_ROOT, "selftest.jsonl")
r = subprocess.run([bins["opt"], "selftest", "--out", out, "--blake", "20000", "--fp", "10000000"])
if r.returncode != 0:
    print("model self-test FAILED (exit %d), see %s" % (r.returncode, out)); sys.exit(1)
n = 0
for line in open(out):
    rec = json.loads(line)
    if rec.get("type") != "blake":
        continue
    msg, key = bytes.fromhex(rec["msg"]), bytes.fromhex(rec["key"])
    d = hashlib.blake2b(msg, digest_size=rec["outlen"], key=key).hexdigest()
    if d != rec["digest"]:
        print("model Blake2b disagrees with hashlib for", rec); sys.exit(1)
    n += 1
print("model self-test ok; %d Blake2b digests agree with hashlib" % n)
if n < 1000:
    sys.exit(1)
PY
